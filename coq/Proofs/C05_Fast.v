(* C05: the fast path of blocksFromCursor - its shape and where it leads the consumer. *)
From Coq Require Import Sorted Permutation.
From BV Require Import Base.Prelude Model.Block Model.ForkDB Model.Forkable Model.ForkableLookups
  Model.Burst Model.Hub Spec.Consumer Spec.Universe Check.Fk_Check Check.Burst_Check
  Spec.C09_Spec Spec.C05_Spec Proofs.C09_Store Proofs.C09_Segment.
Local Open Scope N_scope.

(* ---------------------------------------------------------------- list helpers *)

Lemma filter_none : forall {A} (p : A -> bool) l, (forall y, In y l -> p y = false) -> filter p l = [].
Proof.
  induction l as [|x l IH]; intros H; [reflexivity|]. cbn. rewrite (H x (or_introl eq_refl)).
  apply IH. intros y Hy. apply H. right. exact Hy.
Qed.

Lemma filter_all : forall {A} (p : A -> bool) l, (forall y, In y l -> p y = true) -> filter p l = l.
Proof.
  induction l as [|x l IH]; intros H; [reflexivity|]. cbn. rewrite (H x (or_introl eq_refl)).
  f_equal. apply IH. intros y Hy. apply H. right. exact Hy.
Qed.

Lemma filter_and : forall {A} (p q : A -> bool) l, filter (fun x => p x && q x) l = filter q (filter p l).
Proof.
  induction l as [|x l IH]; [reflexivity|]. cbn. destruct (p x); cbn; [destruct (q x); rewrite IH; reflexivity|exact IH].
Qed.

Lemma flat_map_keep : forall {A B} (p : A -> bool) (g : A -> B) l,
  flat_map (fun x => if p x then [g x] else []) l = map g (filter p l).
Proof. induction l as [|x l IH]; [reflexivity|]. cbn. destruct (p x); cbn; rewrite IH; reflexivity. Qed.

Lemma flat_map_ext_in : forall {A B} (f g : A -> list B) l, (forall x, In x l -> f x = g x) -> flat_map f l = flat_map g l.
Proof.
  induction l as [|x l IH]; intros H; [reflexivity|]. cbn. rewrite (H x (or_introl eq_refl)).
  f_equal. apply IH. intros y Hy. apply H. right. exact Hy.
Qed.

Lemma NoDup_map_filter_gen : forall {A B} (k : A -> B) (p : A -> bool) l, NoDup (map k l) -> NoDup (map k (filter p l)).
Proof.
  induction l as [|x l IH]; cbn; intros ND; [constructor|].
  inversion ND as [|? ? Hx ND']; subst. destruct (p x); cbn; [constructor|]; auto.
  intros Hin. apply Hx. rewrite in_map_iff in *. destruct Hin as [e [Hk He]].
  apply filter_In in He. exists e. tauto.
Qed.

Lemma StronglySorted_app_r : forall {A} (R : A -> A -> Prop) l1 l2, StronglySorted R (l1 ++ l2) -> StronglySorted R l2.
Proof. induction l1 as [|a l1 IH]; cbn; intros l2 H; [exact H|]. inversion H; subst. auto. Qed.

Lemma mono_filter_suffix : forall {A} (R : A -> A -> Prop) (p : A -> bool) l,
  StronglySorted R l -> (forall x y, R x y -> p x = true -> p y = true) ->
  exists lo, l = lo ++ filter p l /\ filter p lo = [].
Proof.
  intros A R p l HS Hm. induction HS as [|x l HS IH Hall].
  - exists []. auto.
  - cbn. destruct (p x) eqn:E.
    + exists []. split; [|reflexivity]. cbn. f_equal. symmetry. apply filter_all.
      intros y Hy. rewrite Forall_forall in Hall. eapply Hm; eauto.
    + destruct IH as [lo [H1 H2]]. exists (x :: lo). cbn. rewrite E. split; [f_equal; exact H1|exact H2].
Qed.

Lemma nth_error_mid : forall {A} (Q : list A) b H, nth_error (Q ++ b :: H) (length Q) = Some b.
Proof. intros A Q b H. rewrite nth_error_app2 by lia. rewrite Nat.sub_diag. reflexivity. Qed.

(* ---------------------------------------------------------------- the shape *)

Definition fe (s : fstate) (hd : block) (c : cursor) (x : seg) : list event :=
  if fast_keep s c x then [fast_event s hd c x] else [].

Lemma fast_elem : forall s hd c x, seg_std x ->
  (if snum x <=? rn (cu_lib c) then []
   else if snum x <=? rn (libref (db s)) then
     [wrap x (if (rn (cu_blk c) <? snum x) || (matches_undo (cu_step c) && (snum x =? rn (cu_blk c)))
              then SNewIrr else SIrr) (bref hd) (seg_ref x) None]
   else if (rn (cu_blk c) <? snum x) || (matches_undo (cu_step c) && (snum x =? rn (cu_blk c)))
     then [wrap x SNew (bref hd) (libref (db s)) None]
   else []) = fe s hd c x.
Proof.
  intros s hd c x [Hi Hn]. unfold fe, fast_keep, fast_event, fast_step, above_clib, final_now, not_held, is_undo.
  unfold wrap, seg_ref. rewrite Hi. unfold seg_blk, bref.
  destruct (snum x <=? rn (cu_lib c)) eqn:E1; destruct (rn (cu_lib c) <? snum x) eqn:E1'; try lia; cbn [andb]; [reflexivity|].
  destruct (snum x <=? rn (libref (db s))) eqn:E2; cbn [orb].
  - rewrite Hn. match goal with |- context [if ?b then SNewIrr else SIrr] => destruct b end; reflexivity.
  - destruct ((rn (cu_blk c) <? snum x) || (matches_undo (cu_step c) && (snum x =? rn (cu_blk c)))); reflexivity.
Qed.

Lemma from_cursor_fast_fe : forall s hd sg c, Forall seg_std sg ->
  from_cursor_fast s hd sg c = flat_map (fe s hd c) sg.
Proof.
  intros s hd sg c Hstd. unfold from_cursor_fast. apply flat_map_ext_in.
  intros x Hx. rewrite Forall_forall in Hstd. apply fast_elem. auto.
Qed.

Lemma std_map_bid' : forall l, Forall seg_std l -> map bid (map seg_blk l) = map sid l.
Proof.
  induction l as [|x l IH]; intros H; [reflexivity|]. inversion H as [|? ? [Hx _] H']; subst.
  cbn. rewrite Hx, IH by assumption. reflexivity.
Qed.

Lemma Forall_filter : forall {A} (P : A -> Prop) (p : A -> bool) l, Forall P l -> Forall P (filter p l).
Proof.
  intros A P p l H. rewrite Forall_forall in *. intros x Hx. apply filter_In in Hx. apply H. tauto.
Qed.

Lemma c05_fast_path_shape_proof : C05_fast_path_shape.
Proof.
  intros s hd sg c G. destruct G as [Hstd Hlk Hinc Hnd].
  assert (E : from_cursor_fast s hd sg c = map (fast_event s hd c) (filter (fast_keep s c) sg)).
  { rewrite from_cursor_fast_fe by exact Hstd. unfold fe. apply flat_map_keep. }
  split; [exact E|]. split.
  - rewrite E.
    assert (E' : forall l, map eblk (map (fast_event s hd c) l) = map seg_blk l)
      by (intros l; rewrite map_map; reflexivity).
    rewrite E'. rewrite std_map_bid' by (apply Forall_filter; exact Hstd).
    apply NoDup_map_filter_gen. exact Hnd.
  - intros fuel H1 H2. cbn [from_cursor_loop]. rewrite H1, H2. reflexivity.
Qed.

(* ---------------------------------------------------------------- the consumer *)

Lemma apply_irr : forall Q b H nf any e, estep e = SIrr -> eblk e = b -> nf = length Q ->
  cons_apply (mkCons (rev (Q ++ b :: H)) nf any) e = Some (mkCons (rev (Q ++ b :: H)) (S nf) true).
Proof.
  intros Q b H nf any e Hs Hb ->. unfold cons_apply. rewrite Hs, Hb. cbn [cs_stack cs_nf cs_any].
  unfold nth_from_bottom. rewrite rev_involutive, nth_error_mid, N.eqb_refl. reflexivity.
Qed.

Definition top_links (Q : list block) (b : block) : Prop :=
  match rev Q with p :: _ => bparent b = bid p | [] => True end.

Lemma apply_newirr : forall Q b nf any e, estep e = SNewIrr -> eblk e = b -> nf = length Q -> top_links Q b ->
  cons_apply (mkCons (rev Q) nf any) e = Some (mkCons (rev (Q ++ [b])) (S nf) true).
Proof.
  intros Q b nf any e Hs Hb -> Hl. unfold cons_apply. rewrite Hs, Hb. cbn [cs_stack cs_nf cs_any].
  rewrite rev_length, Nat.eqb_refl. cbn [negb]. rewrite rev_app_distr. cbn [rev app].
  unfold top_links in Hl. destruct (rev Q) as [|p r] eqn:ER.
  - assert (Q = []) by (rewrite <- (rev_involutive Q), ER; reflexivity). subst. reflexivity.
  - rewrite Hl, N.eqb_refl. reflexivity.
Qed.

Lemma apply_new : forall Q b nf any e, estep e = SNew -> eblk e = b -> top_links Q b ->
  cons_apply (mkCons (rev Q) nf any) e = Some (mkCons (rev (Q ++ [b])) nf any).
Proof.
  intros Q b nf any e Hs Hb Hl. unfold cons_apply. rewrite Hs, Hb. cbn [cs_stack cs_nf cs_any].
  rewrite rev_app_distr. cbn [rev app].
  unfold top_links in Hl. destruct (rev Q) as [|p r] eqn:ER; [reflexivity|].
  rewrite Hl, N.eqb_refl. reflexivity.
Qed.

Lemma apply_undo : forall Q b nf any e, estep e = SUndo -> eblk e = b -> (nf <= length Q)%nat ->
  cons_apply (mkCons (rev (Q ++ [b])) nf any) e = Some (mkCons (rev Q) nf any).
Proof.
  intros Q b nf any e Hs Hb Hn. unfold cons_apply. rewrite Hs, Hb. cbn [cs_stack cs_nf cs_any].
  rewrite rev_app_distr. cbn [rev app]. rewrite N.eqb_refl. cbn [andb length].
  rewrite rev_length. assert (E : Nat.ltb nf (S (length Q)) = true) by (apply Nat.ltb_lt; lia).
  rewrite E. reflexivity.
Qed.

Lemma cons_fold_app : forall l1 l2 c, cons_fold c (l1 ++ l2) =
  match cons_fold c l1 with Some c' => cons_fold c' l2 | None => None end.
Proof.
  induction l1 as [|e l1 IH]; intros l2 c; [reflexivity|]. cbn.
  destruct (cons_apply c e); [apply IH|reflexivity].
Qed.

Lemma snum_lt_of : forall x y, seg_std x -> seg_std y -> seg_lt x y -> snum x < snum y.
Proof. intros x y [_ Hx] [_ Hy] H. unfold seg_lt in H. lia. Qed.

Lemma not_held_mono : forall c x y, snum x < snum y -> not_held c x = true -> not_held c y = true.
Proof. intros c x y H. unfold not_held. destruct (is_undo c); lia. Qed.

Lemma final_now_anti : forall s x y, snum x < snum y -> final_now s x = false -> final_now s y = false.
Proof. intros s x y H. unfold final_now. lia. Qed.

Lemma above_mono : forall c x y, snum x < snum y -> above_clib c x = true -> above_clib c y = true.
Proof. intros c x y H. unfold above_clib. lia. Qed.

Definition nfin (s : fstate) (l : list seg) : nat := length (filter (final_now s) l).

Lemma nfin_cons_true : forall s x l, final_now s x = true -> nfin s (x :: l) = S (nfin s l).
Proof. intros s x l H. unfold nfin. cbn [filter]. rewrite H. reflexivity. Qed.
Lemma nfin_cons_false : forall s x l, final_now s x = false -> nfin s (x :: l) = nfin s l.
Proof. intros s x l H. unfold nfin. cbn [filter]. rewrite H. reflexivity. Qed.

Lemma fast_fold : forall s hd c l Q nf any,
  Forall seg_std l -> Sorted seg_link l -> StronglySorted seg_lt l ->
  (forall x, In x l -> above_clib c x = true) ->
  (forall x l', l = x :: l' ->
     (final_now s x = true -> nf = length Q) /\ (not_held c x = true -> top_links Q (seg_blk x))) ->
  cons_fold (mkCons (rev (Q ++ map seg_blk (filter (fun x => negb (not_held c x)) l))) nf any)
            (flat_map (fe s hd c) l)
  = Some (mkCons (rev (Q ++ map seg_blk l)) (nf + nfin s l) (any || negb (Nat.eqb (nfin s l) 0))).
Proof.
  intros s hd c l. induction l as [|x l IH]; intros Q nf any Hstd Hlk Hinc Hab Hhead.
  - cbn. rewrite Nat.add_0_r, orb_false_r. reflexivity.
  - inversion Hstd as [|? ? Hx Hstd']; subst.
    inversion Hinc as [|? ? Hinc' Hall]; subst. rewrite Forall_forall in Hall.
    assert (Hlk' : Sorted seg_link l) by (inversion Hlk; assumption).
    assert (Hlt : forall y, In y l -> snum x < snum y).
    { intros y Hy. apply snum_lt_of; auto. rewrite Forall_forall in Hstd'. auto. }
    destruct (Hhead x l eq_refl) as [Hf Hnh].
    assert (Hax : above_clib c x = true) by (apply Hab; left; reflexivity).
    (* what the induction hypothesis needs about the next element *)
    assert (Hnext : forall nf', (final_now s x = true -> nf' = S (length Q)) ->
              forall y l', l = y :: l' ->
                (final_now s y = true -> nf' = length (Q ++ [seg_blk x])) /\
                (not_held c y = true -> top_links (Q ++ [seg_blk x]) (seg_blk y))).
    { intros nf' Hnf' y l' ->. split.
      - intros Hy. rewrite app_length. cbn. rewrite Nat.add_1_r.
        destruct (final_now s x) eqn:Efx; [auto|].
        rewrite (final_now_anti s x y (Hlt y (or_introl eq_refl)) Efx) in Hy. discriminate.
      - intros _. unfold top_links. rewrite rev_app_distr. cbn.
        inversion Hlk as [|? ? _ Hd]; subst. inversion Hd as [|? ? Hl]; subst.
        unfold seg_link in Hl. rewrite Hl. apply Hx. }
    assert (Hab' : forall y, In y l -> above_clib c y = true) by (intros y Hy; apply Hab; right; exact Hy).
    cbn [flat_map filter]. unfold fe at 1. unfold fast_keep. rewrite Hax. cbn [andb].
    destruct (not_held c x) eqn:Enh; cbn [negb].
    + (* not held: nothing of l is held *)
      rewrite (filter_none (fun y => negb (not_held c y)) l).
      2:{ intros y Hy. rewrite (not_held_mono c x y (Hlt y Hy) Enh). reflexivity. }
      cbn [map]. rewrite app_nil_r. specialize (Hnh eq_refl).
      destruct (final_now s x) eqn:Efx;
        [rewrite (nfin_cons_true s x l Efx)|rewrite (nfin_cons_false s x l Efx)]; cbn [orb app cons_fold length].
      * rewrite (apply_newirr Q (seg_blk x) nf any); auto.
        2:{ unfold fast_event, fast_step. rewrite Efx, Enh. reflexivity. }
        specialize (IH (Q ++ [seg_blk x]) (S nf) true Hstd' Hlk' Hinc' Hab' (Hnext (S nf) (fun _ => f_equal S (Hf eq_refl)))).
        rewrite (filter_none (fun y => negb (not_held c y)) l) in IH.
        2:{ intros y Hy. rewrite (not_held_mono c x y (Hlt y Hy) Enh). reflexivity. }
        cbn [map] in IH. rewrite app_nil_r in IH. rewrite IH. rewrite <- app_assoc. cbn [app].
        f_equal. f_equal; [lia|]. rewrite orb_true_r. reflexivity.
      * rewrite (apply_new Q (seg_blk x) nf any); auto.
        2:{ unfold fast_event, fast_step. rewrite Efx. reflexivity. }
        specialize (IH (Q ++ [seg_blk x]) nf any Hstd' Hlk' Hinc' Hab' (Hnext nf (fun H => False_ind _ (diff_false_true H)))).
        rewrite (filter_none (fun y => negb (not_held c y)) l) in IH.
        2:{ intros y Hy. rewrite (not_held_mono c x y (Hlt y Hy) Enh). reflexivity. }
        cbn [map] in IH. rewrite app_nil_r in IH. rewrite IH. rewrite <- app_assoc. reflexivity.
    + (* held *)
      cbn [map]. rewrite orb_false_r.
      destruct (final_now s x) eqn:Efx;
        [rewrite (nfin_cons_true s x l Efx)|rewrite (nfin_cons_false s x l Efx)]; cbn [app cons_fold length].
      * rewrite (apply_irr Q (seg_blk x) _ nf any); auto.
        2:{ unfold fast_event, fast_step. rewrite Efx, Enh. reflexivity. }
        specialize (IH (Q ++ [seg_blk x]) (S nf) true Hstd' Hlk' Hinc' Hab' (Hnext (S nf) (fun _ => f_equal S (Hf eq_refl)))).
        rewrite <- app_assoc in IH. cbn [app] in IH. rewrite IH.
        rewrite <- app_assoc. cbn [app map]. f_equal. f_equal; [lia|]. rewrite orb_true_r. reflexivity.
      * specialize (IH (Q ++ [seg_blk x]) nf any Hstd' Hlk' Hinc' Hab' (Hnext nf (fun H => False_ind _ (diff_false_true H)))).
        rewrite <- !app_assoc in IH. cbn [app] in IH. exact IH.
Qed.

Lemma good_seg_above : forall c sg, good_seg sg ->
  Forall seg_std (above_seg c sg) /\ Sorted seg_link (above_seg c sg) /\ StronglySorted seg_lt (above_seg c sg) /\
  exists lo, sg = lo ++ above_seg c sg /\ filter (above_clib c) lo = [].
Proof.
  intros c sg [Hstd Hlk Hinc Hnd].
  assert (Hm : exists lo, sg = lo ++ filter (above_clib c) sg /\ filter (above_clib c) lo = []).
  { assert (HS : StronglySorted (fun x y => snum x < snum y) sg).
    { clear - Hstd Hinc. induction Hinc as [|x l HS IH Hall]; [constructor|].
      inversion Hstd as [|? ? Hx Hstd']; subst. constructor; [auto|].
      rewrite Forall_forall in *. intros y Hy. apply snum_lt_of; auto. }
    apply (mono_filter_suffix _ _ _ HS). intros x y. apply above_mono. }
  destruct Hm as [lo [E1 E2]]. unfold above_seg.
  split; [apply Forall_filter; exact Hstd|].
  split; [rewrite E1 in Hlk; apply Sorted_app_r in Hlk; exact Hlk|].
  split; [rewrite E1 in Hinc; apply StronglySorted_app_r in Hinc; exact Hinc|].
  exists lo. auto.
Qed.

Lemma fe_not_above : forall s hd c x, above_clib c x = false -> fe s hd c x = [].
Proof. intros s hd c x H. unfold fe, fast_keep. rewrite H. reflexivity. Qed.

Lemma flat_map_fe_above : forall s hd c sg, flat_map (fe s hd c) sg = flat_map (fe s hd c) (above_seg c sg).
Proof.
  intros s hd c sg. unfold above_seg. induction sg as [|x sg IH]; [reflexivity|]. cbn.
  destruct (above_clib c x) eqn:E; cbn; rewrite IH; [reflexivity|]. rewrite fe_not_above by exact E. reflexivity.
Qed.

Lemma held_seg_eq : forall c sg, held_seg c sg = filter (fun x => negb (not_held c x)) (above_seg c sg).
Proof. intros c sg. unfold held_seg, above_seg. apply filter_and. Qed.

Lemma c05_fast_path_consumer_proof : C05_fast_path_consumer.
Proof.
  intros s hd sg c P any G Hlinks nf0.
  destruct (good_seg_above c sg G) as [Hstd [Hlk [Hinc _]]].
  rewrite from_cursor_fast_fe by (apply G). rewrite flat_map_fe_above. rewrite held_seg_eq.
  apply fast_fold; auto.
  - intros x Hx. unfold above_seg in Hx. apply filter_In in Hx. tauto.
  - intros x l' El. split; [reflexivity|]. intros Hnh.
    assert (Hheld : held_seg c sg = []).
    { rewrite held_seg_eq, El. apply filter_none. intros y [<-|Hy]; [rewrite Hnh; reflexivity|].
      rewrite El in Hinc, Hstd. inversion Hinc as [|? ? _ Hall]; subst. rewrite Forall_forall in Hall.
      inversion Hstd as [|? ? Hx Hstd']; subst. rewrite Forall_forall in Hstd'.
      rewrite (not_held_mono c x y); auto. apply snum_lt_of; auto. }
    specialize (Hlinks Hheld). rewrite El in Hlinks. unfold stack_links in Hlinks. unfold top_links.
    destruct (rev P); auto.
Qed.
