(* C07 composition: executable forms of the two hypotheses about the future of the world (eventual_tip,
   files_agree of Spec/C07_Compose_Spec.v).  Only finitely many worlds lie ahead: after all blocks have
   arrived nothing changes.  Used for the non-vacuity examples. *)
From BV Require Import Base.Prelude Model.Block Model.ForkDB Model.Forkable Model.ForkableLookups Model.Burst Model.Hub
  Model.CursorResolver Model.Joining Spec.C09_Spec Spec.C07_Spec Spec.C07_Compose_Spec
  Proofs.C07_Live Proofs.C09_Invariant.
Local Open Scope N_scope.

Lemma world_after_S c k w : world_after c (S k) w = world_after c k (fst (push_one c w)).
Proof.
  unfold world_after. cbn [push_n]. destruct (push_one c w) as [w1 e1]. cbn [fst].
  destruct (push_n c k w1) as [w2 e2]. reflexivity.
Qed.

Lemma world_after_min c : forall k w, world_after c k w = world_after c (Nat.min k (length (w_rest w))) w.
Proof.
  induction k as [|k IH]; intros w; [reflexivity|].
  destruct (w_rest w) as [|b r] eqn:Er.
  - cbn [length Nat.min]. unfold world_after. rewrite (push_n_empty c (S k) w Er). reflexivity.
  - cbn [length Nat.min]. rewrite !world_after_S. rewrite (IH (fst (push_one c w))).
    rewrite (push_one_rest c w b r Er). reflexivity.
Qed.

Lemma world_after_rest c : forall k w, length (w_rest (world_after c k w)) = (length (w_rest w) - k)%nat.
Proof.
  induction k as [|k IH]; intros w; [cbn; lia|].
  destruct (w_rest w) as [|b r] eqn:Er.
  - unfold world_after. rewrite (push_n_empty c (S k) w Er). cbn [fst]. rewrite Er. reflexivity.
  - rewrite world_after_S, IH, (push_one_rest c w b r Er). reflexivity.
Qed.

Lemma world_after_done c k w : w_rest (world_after c k w) = [] ->
  world_after c k w = world_after c (length (w_rest w)) w.
Proof.
  intros H. pose proof (world_after_rest c k w) as Hl. rewrite H in Hl. cbn [length] in Hl.
  rewrite (world_after_min c k w). f_equal. lia.
Qed.

Definition eventual_tip_b (c : jcfg) (w : world) (canon : list block) : bool :=
  match last_sent (h_f (w_hub (world_after c (length (w_rest w)) w))) with
  | Some hd => match rev canon with t :: _ => block_eqb t hd | [] => false end
  | None => true
  end.

Lemma eventual_tip_b_sound c w canon : eventual_tip_b c w canon = true -> eventual_tip c w canon.
Proof.
  unfold eventual_tip_b. intros H k hd Hk Hls. rewrite (world_after_done c k w Hk) in Hls. rewrite Hls in H.
  destruct (rev canon) as [|t r] eqn:Er; [discriminate|]. apply block_eqb_eq in H. subst t.
  exists (rev r). rewrite <- (rev_involutive canon), Er. reflexivity.
Qed.

Definition agree_at (h : hub) (merged : list block) : bool :=
  if h_ready h then
    match last_sent (h_f h) with
    | Some hd =>
        match complete_segment (db (h_f h)) (bref hd) with
        | Some (sg, true) =>
            forallb (fun x => forallb (fun b => negb (bnum (seg_blk x) =? bnum b) || block_eqb (seg_blk x) b) merged) sg
        | _ => true
        end
    | None => true
    end
  else true.

Definition files_agree_b (c : jcfg) (w : world) (merged : list block) : bool :=
  forallb (fun k => agree_at (w_hub (world_after c k w)) merged) (seq 0 (S (length (w_rest w)))).

Lemma files_agree_b_sound c w merged : files_agree_b c w merged = true -> files_agree c w merged.
Proof.
  unfold files_agree_b. intros H k hd sg x b Hrd Hls Eseg Hx Hb Hn.
  rewrite forallb_forall in H. rewrite (world_after_min c k w) in Hrd, Hls, Eseg.
  specialize (H (Nat.min k (length (w_rest w)))). unfold agree_at in H. rewrite Hrd, Hls, Eseg in H.
  assert (Hin : In (Nat.min k (length (w_rest w))) (seq 0 (S (length (w_rest w))))) by (apply in_seq; lia).
  specialize (H Hin). rewrite forallb_forall in H. specialize (H x Hx). rewrite forallb_forall in H. specialize (H b Hb).
  apply orb_true_iff in H as [H|H].
  - apply negb_true_iff, N.eqb_neq in H. contradiction.
  - apply block_eqb_eq. exact H.
Qed.

Definition files_final_b (c : jcfg) (w : world) (merged : list block) : bool :=
  forallb (fun k => let h := w_hub (world_after c k w) in
                    negb (h_ready h) || forallb (fun b => bnum b <=? rn (libref (db (h_f h)))) merged)
          (seq 0 (S (length (w_rest w)))).

Lemma files_final_b_sound c w merged : files_final_b c w merged = true -> files_final c w merged.
Proof.
  unfold files_final_b. intros H k b Hrd Hb. rewrite forallb_forall in H.
  rewrite (world_after_min c k w) in Hrd |- *.
  assert (Hin : In (Nat.min k (length (w_rest w))) (seq 0 (S (length (w_rest w))))) by (apply in_seq; lia).
  specialize (H _ Hin). cbv zeta in H. rewrite Hrd in H. cbn [negb orb] in H.
  rewrite forallb_forall in H. apply N.leb_le. apply H. exact Hb.
Qed.

Definition on_hub_at (h : hub) (merged : list block) : bool :=
  if h_ready h then
    match last_sent (h_f h) with
    | Some hd =>
        match complete_segment (db (h_f h)) (bref hd) with
        | Some (s0 :: sg, true) =>
            forallb (fun b => negb ((snum s0 <=? bnum b) && (bnum b <=? bnum hd)) ||
                              existsb (fun x => block_eqb (seg_blk x) b) (s0 :: sg)) merged
        | _ => true
        end
    | None => true
    end
  else true.

Definition files_on_hub_b (c : jcfg) (w : world) (merged : list block) : bool :=
  forallb (fun k => on_hub_at (w_hub (world_after c k w)) merged) (seq 0 (S (length (w_rest w)))).

Lemma files_on_hub_b_sound c w merged : files_on_hub_b c w merged = true -> files_on_hub c w merged.
Proof.
  unfold files_on_hub_b. intros H k hd s0 sg b Hrd Hls Eseg Hb H1 H2.
  rewrite forallb_forall in H. rewrite (world_after_min c k w) in Hrd, Hls, Eseg.
  assert (Hin : In (Nat.min k (length (w_rest w))) (seq 0 (S (length (w_rest w))))) by (apply in_seq; lia).
  specialize (H _ Hin). unfold on_hub_at in H. rewrite Hrd, Hls, Eseg in H.
  rewrite forallb_forall in H. specialize (H b Hb).
  replace (snum s0 <=? bnum b) with true in H by (symmetry; apply N.leb_le; exact H1).
  replace (bnum b <=? bnum hd) with true in H by (symmetry; apply N.leb_le; exact H2).
  cbn [andb negb orb] in H. apply existsb_exists in H as (x & Hx & E). exists x. split; [exact Hx | apply block_eqb_eq; exact E].
Qed.

Definition target_at (h : hub) (cu : cursor) : bool :=
  if h_ready h then
    match last_sent (h_f h) with
    | Some hd =>
        match complete_segment (db (h_f h)) (bref hd) with
        | Some (sg, true) =>
            match find (ri (cu_blk cu)) (store (db (h_f h))) with Some _ => block_in (ri (cu_blk cu)) sg | None => true end
        | _ => true
        end
    | None => true
    end
  else true.

Definition target_on_chain_b (c : jcfg) (w : world) (cu : cursor) : bool :=
  forallb (fun k => target_at (w_hub (world_after c k w)) cu) (seq 0 (S (length (w_rest w)))).

Lemma target_on_chain_b_sound c w cu : target_on_chain_b c w cu = true -> target_on_chain c w cu.
Proof.
  unfold target_on_chain_b. intros H k hd sg Hrd Hls Eseg Hf.
  rewrite forallb_forall in H. rewrite (world_after_min c k w) in Hrd, Hls, Eseg, Hf.
  assert (Hin : In (Nat.min k (length (w_rest w))) (seq 0 (S (length (w_rest w))))) by (apply in_seq; lia).
  specialize (H _ Hin). unfold target_at in H. rewrite Hrd, Hls, Eseg in H.
  destruct (find (ri (cu_blk cu)) (store (db (h_f (w_hub (world_after c (Nat.min k (length (w_rest w))) w)))))); [exact H | contradiction].
Qed.
