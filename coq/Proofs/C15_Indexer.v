(* C15 — the indexer clause: what BlockIndexer.Add writes. *)
From Coq Require Import Sorted.
From BV Require Import Base.Prelude Model.BlockIndex Spec.C15_Spec Proofs.PreludeFacts
  Proofs.C15_Sets Proofs.C15_Arith.
Local Open Scope N_scope.

Definition fnums (fd : feed) : list N := map snd fd.

Lemma fed_nums fd k n : fed fd k n -> In n (fnums fd).
Proof. intros [keys [H _]]. change n with (snd (keys, n)). apply in_map. exact H. Qed.

Lemma fed_app fd keys n k x : fed (fd ++ [(keys, n)]) k x <-> fed fd k x \/ (In k keys /\ x = n).
Proof.
  unfold fed. split.
  - intros [ks [Hin Hk]]. apply in_app_or in Hin as [Hin|[Hin|[]]].
    + left. exists ks. auto.
    + inversion Hin; subst. right. auto.
  - intros [[ks [Hin Hk]]|[Hk Hx]].
    + exists ks. split; [apply in_or_app; left; exact Hin | exact Hk].
    + subst. exists keys. split; [apply in_or_app; right; left; reflexivity | exact Hk].
Qed.

Lemma fnums_app a b : fnums (a ++ b) = fnums a ++ fnums b.
Proof. apply map_app. Qed.

Lemma asc_app_inv a b : asc (a ++ b) -> asc a /\ asc b /\ forall x y, In x a -> In y b -> x < y.
Proof.
  induction a as [|x a IH]; simpl; intros H.
  - split; [apply asc_nil|]. split; [exact H|]. intros ? ? [].
  - apply asc_cons in H as [H1 H2]. destruct (IH H1) as [Ia [Ib Iab]]. rewrite Forall_forall in H2.
    split; [|split; [exact Ib|]].
    + apply asc_cons. split; [exact Ia|]. apply Forall_forall. intros y Hy. apply H2. apply in_or_app. left. exact Hy.
    + intros u v [Hu|Hu] Hv; [subst; apply H2; apply in_or_app; right; exact Hv | apply Iab; assumption].
Qed.

Section Indexer.
  Variable B : Type.
  Variable enc : kvmap -> B.
  Variable dec : B -> option kvmap.
  Hypothesis Hcodec : codec_ok B enc dec.
  Variables fsb size : N.
  Variable start : option N.
  Variable st0 : store B.
  Hypothesis Hsize : size <> 0.

  Definition files_ok (done : feed) (newf : list (idxfile B)) (low : N) : Prop :=
    NoDup (map (fun f => if_low f) newf) /\
    (forall f, In f newf -> if_size f = size /\ if_low f mod size = 0 /\
                            file_exact B dec done f /\ if_low f + size <= low) /\
    (forall x, In x (fnums done) -> x < low ->
               exists f, In f newf /\ if_low f <= x < if_low f + if_size f).

  Definition cur_ok (done : feed) (low : N) (kv : kvmap) : Prop :=
    low mod size = 0 /\ NoDup (map fst kv) /\ kv_asc kv /\
    (forall k x, kv_mem kv k x <-> fed done k x /\ low <= x) /\
    (forall x, In x (fnums done) -> x < low + size).

  Record ixinv (done : feed) (ix : indexer B) (newf : list (idxfile B)) : Prop := {
    iv_size : ix_size ix = size;
    iv_start : ix_start ix = start;
    iv_store : ix_store ix = newf ++ st0;
    iv_cur : match ix_cur ix with
             | None => done = [] /\ newf = []
             | Some (low, kv) =>
                 cur_ok done low kv /\ files_ok done newf low /\
                 exists n0, In n0 (fnums done) /\ low <= n0
             end }.

  Lemma file_exact_mono done keys n (f : idxfile B) :
    file_exact B dec done f -> if_low f + if_size f <= n -> file_exact B dec (done ++ [(keys, n)]) f.
  Proof.
    intros [kv [Hd [Hnd [Ha Hex]]]] Hle. exists kv. split; [exact Hd|]. split; [exact Hnd|]. split; [exact Ha|].
    intros k x. rewrite Hex, fed_app. split.
    - intros [Hf Hr]. split; [left; exact Hf | exact Hr].
    - intros [[Hf|[_ Hx]] Hr]; [split; assumption | subst; lia].
  Qed.

  Lemma file_exact_new done low kv :
    cur_ok done low kv -> file_exact B dec done (mkIdx low size (enc kv)).
  Proof.
    intros [_ [Hnd [Hasc [Hmem Hlt]]]].
    destruct (Hcodec kv Hnd) as [kv' [Hd [Hnd' Hget]]].
    exists kv'. simpl. split; [exact Hd|]. split; [exact Hnd'|]. split.
    - intros k s Hs. rewrite Hget in Hs. eapply Hasc. exact Hs.
    - intros k x. rewrite Hget. change (exists s, kv_get k kv = Some s /\ In x s) with (kv_mem kv k x).
      rewrite Hmem. split.
      + intros [Hf Hlo]. split; [exact Hf|]. split; [exact Hlo|]. apply Hlt. eapply fed_nums. exact Hf.
      + intros [Hf [Hlo _]]. split; assumption.
  Qed.

  Lemma step_core done newf low kv keys n :
    cur_ok done low kv -> files_ok done newf low -> low <= n ->
    (forall x, In x (fnums done) -> x < n) ->
    if low + size <=? n then
      cur_ok (done ++ [(keys, n)]) (low_boundary n size) (kv_add_keys keys n []) /\
      files_ok (done ++ [(keys, n)]) (mkIdx low size (enc kv) :: newf) (low_boundary n size)
    else
      cur_ok (done ++ [(keys, n)]) low (kv_add_keys keys n kv) /\
      files_ok (done ++ [(keys, n)]) newf low.
  Proof.
    intros Hcur Hfiles Hlow Hgt.
    pose proof Hcur as [Hal [Hnd [Hasc [Hmem Hlt]]]].
    destruct Hfiles as [Hfnd [Hfp Hfc]].
    destruct (low + size <=? n) eqn:E.
    - apply N.leb_le in E.
      assert (Hnew : low + size <= low_boundary n size).
      { apply aligned_le_lb; [exact Hsize | apply aligned_add; assumption | exact E]. }
      pose proof (lb_le n size) as Hlb1. pose proof (lb_lt n size Hsize) as Hlb2.
      split.
      + (* the fresh current index *)
        split; [apply lb_mod; exact Hsize|].
        split; [apply kv_add_keys_nodup; constructor|].
        split; [apply kv_add_keys_asc; intros k s Hs; discriminate|].
        split.
        * intros k x. rewrite kv_add_keys_mem, fed_app. split.
          -- intros [Hm|[Hk Hx]]; [exfalso; eapply kv_mem_nil; exact Hm|].
             subst. split; [right; auto | exact Hlb1].
          -- intros [[Hf|[Hk Hx]] Hge].
             ++ apply fed_nums in Hf. apply Hlt in Hf. lia.
             ++ right. auto.
        * intros x Hx. rewrite fnums_app in Hx. apply in_app_or in Hx as [Hx|[Hx|[]]].
          -- apply Hgt in Hx. lia.
          -- simpl in Hx. subst. exact Hlb2.
      + (* the file just written joins the others *)
        split; [|split].
        * simpl. constructor; [|exact Hfnd]. intros Hin. apply in_map_iff in Hin as [f [Hf1 Hf2]].
          destruct (Hfp f Hf2) as [_ [_ [_ Hle]]]. lia.
        * intros f [Hf|Hf].
          -- subst f. simpl. split; [reflexivity|]. split; [exact Hal|]. split; [|exact Hnew].
             apply file_exact_mono; [apply file_exact_new; exact Hcur | simpl; exact E].
          -- destruct (Hfp f Hf) as [H1 [H2 [H3 H4]]]. split; [exact H1|]. split; [exact H2|]. split; [|lia].
             apply file_exact_mono; [exact H3 | rewrite H1; lia].
        * intros x Hx Hxl. rewrite fnums_app in Hx. apply in_app_or in Hx as [Hx|[Hx|[]]].
          -- destruct (N.lt_ge_cases x low) as [Hc|Hc].
             ++ destruct (Hfc x Hx Hc) as [f [Hf1 Hf2]]. exists f. split; [right; exact Hf1 | exact Hf2].
             ++ exists (mkIdx low size (enc kv)). split; [left; reflexivity|]. simpl.
                pose proof (Hlt x Hx). lia.
          -- simpl in Hx. subst. lia.
    - apply N.leb_gt in E. split.
      + split; [exact Hal|].
        split; [apply kv_add_keys_nodup; exact Hnd|].
        split; [apply kv_add_keys_asc; exact Hasc|].
        split.
        * intros k x. rewrite kv_add_keys_mem, fed_app, Hmem. split.
          -- intros [[Hf Hge]|[Hk Hx]]; [split; [left; exact Hf | exact Hge] | subst; split; [right; auto | exact Hlow]].
          -- intros [[Hf|[Hk Hx]] Hge]; [left; split; assumption | right; auto].
        * intros x Hx. rewrite fnums_app in Hx. apply in_app_or in Hx as [Hx|[Hx|[]]].
          -- apply Hlt. exact Hx.
          -- simpl in Hx. subst. exact E.
      + split; [exact Hfnd|]. split.
        * intros f Hf. destruct (Hfp f Hf) as [H1 [H2 [H3 H4]]]. split; [exact H1|]. split; [exact H2|]. split; [|exact H4].
          apply file_exact_mono; [exact H3 | rewrite H1; lia].
        * intros x Hx Hxl. rewrite fnums_app in Hx. apply in_app_or in Hx as [Hx|[Hx|[]]].
          -- apply Hfc; assumption.
          -- simpl in Hx. subst. lia.
  Qed.

  Definition inits (n : N) : Prop := n mod size = 0 \/ n = fsb \/ start <> None.

  Lemma cur_ok_empty low : low mod size = 0 -> cur_ok [] low [].
  Proof.
    intros H. split; [exact H|]. split; [constructor|]. split; [intros k s Hs; discriminate|]. split.
    - intros k x. split; [intros Hm; exfalso; eapply kv_mem_nil; exact Hm|].
      intros [[ks [[] _]] _].
    - intros x [].
  Qed.

  Lemma files_ok_empty low : files_ok [] [] low.
  Proof.
    split; [constructor|]. split; [intros f []|]. intros x [].
  Qed.

  Lemma add_inv done ix newf keys n ix1 :
    ixinv done ix newf ->
    (forall x, In x (fnums done) -> x < n) ->
    (forall d, start = Some d -> d mod size = 0 /\ d <= n) ->
    (ix_cur ix = None -> inits n) ->
    indexer_add enc fsb ix keys n = Ok ix1 ->
    exists newf1, ixinv (done ++ [(keys, n)]) ix1 newf1.
  Proof.
    intros [Hs Hst Hstore Hcur] Hgt Hstart Hinit.
    unfold indexer_add. rewrite Hs.
    destruct (size =? 0) eqn:E0; [apply N.eqb_eq in E0; contradiction|].
    (* the index in use before the block is added, with what is known about it *)
    assert (Hpre : exists low kv,
      match ix_cur ix with
      | Some c => Some c
      | None => if n mod size =? 0 then Some (n, [])
                else if n =? fsb then Some (low_boundary n size, [])
                else match ix_start ix with Some d => Some (d, []) | None => None end
      end = Some (low, kv) /\ cur_ok done low kv /\ files_ok done newf low /\ low <= n).
    { destruct (ix_cur ix) as [[low kv]|] eqn:Ec.
      - destruct Hcur as [H1 [H2 [n0 [H3 H4]]]]. exists low, kv. split; [reflexivity|]. split; [exact H1|]. split; [exact H2|].
        apply Hgt in H3. lia.
      - destruct Hcur as [Hd Hn]. subst done newf.
        destruct (n mod size =? 0) eqn:E1.
        + apply N.eqb_eq in E1. exists n, []. split; [reflexivity|]. split; [apply cur_ok_empty; exact E1|].
          split; [apply files_ok_empty | lia].
        + destruct (n =? fsb) eqn:E2.
          * exists (low_boundary n size), []. split; [reflexivity|].
            split; [apply cur_ok_empty; apply lb_mod; exact Hsize|]. split; [apply files_ok_empty | apply lb_le].
          * rewrite Hst. destruct start as [d|] eqn:Es.
            -- destruct (Hstart d eq_refl) as [Hd1 Hd2]. exists d, []. split; [reflexivity|].
               split; [apply cur_ok_empty; exact Hd1|]. split; [apply files_ok_empty | exact Hd2].
            -- exfalso. apply N.eqb_neq in E1. apply N.eqb_neq in E2.
               destruct (Hinit eq_refl) as [H|[H|H]]; congruence. }
    destruct Hpre as [low [kv [Hc0 [Hcok [Hfok Hlow]]]]]. rewrite Hc0.
    pose proof (step_core done newf low kv keys n Hcok Hfok Hlow Hgt) as Hstep.
    assert (Hn0 : forall l, l <= n -> exists n0, In n0 (fnums (done ++ [(keys, n)])) /\ l <= n0).
    { intros l Hl. exists n. split; [|exact Hl]. rewrite fnums_app. apply in_or_app. right. left. reflexivity. }
    destruct (low + size <=? n) eqn:E; intros Hres; inversion Hres; subst ix1; destruct Hstep as [H1 H2].
    - exists (mkIdx low size (enc kv) :: newf). constructor; simpl; try assumption; try reflexivity.
      + rewrite Hstore. reflexivity.
      + split; [exact H1|]. split; [exact H2|]. apply Hn0. apply lb_le.
    - exists newf. constructor; simpl; try assumption; try reflexivity.
      split; [exact H1|]. split; [exact H2|]. apply Hn0. exact Hlow.
  Qed.

  Lemma run_inv rest : forall done ix newf ix',
    ixinv done ix newf ->
    asc (fnums (done ++ rest)) ->
    (forall d n, start = Some d -> In n (fnums rest) -> d mod size = 0 /\ d <= n) ->
    (ix_cur ix = None -> match rest with [] => True | (_, n) :: _ => inits n end) ->
    indexer_run enc fsb ix rest = Ok ix' ->
    exists newf', ixinv (done ++ rest) ix' newf'.
  Proof.
    induction rest as [|[keys n] rest IH]; intros done ix newf ix' Hinv Hasc Hstart Hinit; simpl.
    - intros H. inversion H; subst. rewrite app_nil_r. exists newf. exact Hinv.
    - destruct (indexer_add enc fsb ix keys n) as [ix1|] eqn:Ea; [|discriminate].
      intros Hrun.
      assert (Hgt : forall x, In x (fnums done) -> x < n).
      { rewrite fnums_app in Hasc. apply asc_app_inv in Hasc as [_ [_ Hab]].
        intros x Hx. apply Hab; [exact Hx | left; reflexivity]. }
      destruct (add_inv done ix newf keys n ix1 Hinv Hgt) as [newf1 Hinv1]; [| exact Hinit | exact Ea |].
      { intros d Hd. apply (Hstart d n Hd). left. reflexivity. }
      replace (done ++ (keys, n) :: rest) with ((done ++ [(keys, n)]) ++ rest) in * by (rewrite <- app_assoc; reflexivity).
      apply (IH _ ix1 newf1 ix' Hinv1 Hasc); [| | exact Hrun].
      + intros d x Hd Hx. apply (Hstart d x Hd). right. exact Hx.
      + intros Hnone. exfalso. destruct Hinv1 as [_ _ _ Hc]. rewrite Hnone in Hc.
        destruct Hc as [Hc _]. destruct done; discriminate.
  Qed.

  (* blocks dropped before the indexer has a boundary leave it untouched *)
  Lemma run_dropped fd : forall ix ix',
    start = None -> ix_size ix = size -> ix_start ix = None -> ix_cur ix = None ->
    indexer_run enc fsb ix fd = Ok ix' ->
    indexer_run enc fsb ix (accepted fsb size None fd) = Ok ix'.
  Proof.
    induction fd as [|[keys n] fd IH]; intros ix ix' Hs Hsz Hst Hc; simpl; [tauto|].
    destruct ((n mod size =? 0) || (n =? fsb)) eqn:E; [simpl; tauto|].
    apply orb_false_iff in E as [E1 E2].
    unfold indexer_add. rewrite Hsz, Hc, E1, E2, Hst.
    destruct (size =? 0) eqn:E0; [discriminate|].
    apply IH; assumption.
  Qed.

  Lemma accepted_head fd :
    match accepted fsb size start fd with [] => True | (_, n) :: _ => inits n end.
  Proof.
    unfold inits. destruct start as [d|] eqn:Es.
    - destruct fd as [|[keys n] fd]; simpl; [exact I|]. right. right. discriminate.
    - induction fd as [|[keys n] fd IH]; simpl; [exact I|].
      destruct ((n mod size =? 0) || (n =? fsb)) eqn:E; [|exact IH].
      apply orb_true_iff in E as [E|E]; [left; apply N.eqb_eq; exact E | right; left; apply N.eqb_eq; exact E].
  Qed.

  (* accepted is a suffix of the feed *)
  Lemma accepted_suffix fd : exists pre, fd = pre ++ accepted fsb size start fd.
  Proof.
    destruct start as [d|]; [exists []; destruct fd; reflexivity|].
    induction fd as [|[keys n] fd [pre IH]]; simpl; [exists []; reflexivity|].
    destruct ((n mod size =? 0) || (n =? fsb)); [exists []; reflexivity|].
    exists ((keys, n) :: pre). simpl. f_equal. exact IH.
  Qed.
End Indexer.

Lemma c15_indexer_proof B enc dec : C15_indexer B enc dec.
Proof.
  intros Hcodec fsb size start st0 ix0 fd ix' Hasc Hstart Hnew Hrun acc.
  (* size 0: the first Add panics, so nothing was fed *)
  destruct (N.eq_dec size 0) as [Hz|Hsize].
  { subst size. destruct fd as [|[keys n] fd].
    - simpl in Hrun. inversion Hrun; subst ix'. exists [].
      unfold new_indexer in Hnew. destruct start; simpl in Hnew; [discriminate|]. inversion Hnew; subst ix0. simpl.
      split; [reflexivity|]. split; [constructor|]. split; [intros f []|]. unfold acc. simpl. intros n n' [].
    - exfalso. simpl in Hrun. unfold new_indexer in Hnew. destruct start; simpl in Hnew; [discriminate|].
      inversion Hnew; subst ix0. unfold indexer_add in Hrun. simpl in Hrun. discriminate. }
  assert (Hix0 : ix_size ix0 = size /\ ix_start ix0 = start /\ ix_cur ix0 = None /\ ix_store ix0 = st0 /\
                 forall d, start = Some d -> d mod size = 0).
  { unfold new_indexer in Hnew. destruct start as [d|].
    - destruct ((size =? 0) || negb (d mod size =? 0)) eqn:E; [discriminate|]. inversion Hnew; subst ix0. simpl.
      apply orb_false_iff in E as [_ E]. apply negb_false_iff in E. apply N.eqb_eq in E.
      repeat split; try reflexivity. intros d' Hd'. inversion Hd'; subst. exact E.
    - inversion Hnew; subst ix0. simpl. repeat split; try reflexivity. intros d' Hd'. discriminate. }
  destruct Hix0 as [H1 [H2 [H3 [H4 H5]]]].
  assert (Hrun' : indexer_run enc fsb ix0 acc = Ok ix').
  { unfold acc. destruct start as [d|] eqn:Es.
    - destruct fd; exact Hrun.
    - apply run_dropped with (start := None); try assumption; try reflexivity. }
  destruct (accepted_suffix fsb size start fd) as [pre Hpre]. fold acc in Hpre.
  assert (Hasc' : asc (fnums acc)).
  { unfold feed_ascending in Hasc. rewrite Hpre in Hasc. change (map snd (pre ++ acc)) with (fnums (pre ++ acc)) in Hasc.
    rewrite fnums_app in Hasc. apply asc_app_inv in Hasc as [_ [Hb _]]. exact Hb. }
  assert (Hin : forall n, In n (fnums acc) -> In n (map snd fd)).
  { intros n Hn. rewrite Hpre. change (map snd (pre ++ acc)) with (fnums (pre ++ acc)). rewrite fnums_app.
    apply in_or_app. right. exact Hn. }
  destruct (run_inv B enc dec Hcodec fsb size start st0 Hsize acc [] ix0 [] ix') as [newf Hinv].
  - constructor; try assumption. rewrite H3. split; reflexivity.
  - simpl. exact Hasc'.
  - intros d n Hd Hn. split; [apply H5; exact Hd | apply (Hstart d n Hd); apply Hin; exact Hn].
  - intros _. apply accepted_head.
  - exact Hrun'.
  - simpl in Hinv. destruct Hinv as [_ _ Hstore Hcur]. exists newf. split; [exact Hstore|].
    destruct (ix_cur ix') as [[low kv]|].
    + destruct Hcur as [[Hal [_ [_ [_ Hlt]]]] [[Hnd [Hfp Hfc]] _]].
      split; [exact Hnd|]. split.
      * intros f Hf. destruct (Hfp f Hf) as [Ha [Hb [Hc _]]]. auto.
      * intros n n' Hn Hn' Hle. apply Hfc; [exact Hn|].
        pose proof (Hlt n' Hn') as Hn'lt.
        assert (low_boundary n size < low) as Hlb by lia.
        pose proof (aligned_step _ _ size Hsize (lb_mod n size Hsize) Hal Hlb).
        pose proof (lb_lt n size Hsize). lia.
    + destruct Hcur as [Hd Hn]. rewrite Hn. split; [constructor|]. split; [intros f []|].
      rewrite Hd. intros n n' [].
Qed.
