(* C17 — the property statements of Spec/C17_Spec.v, proved for every input sequence. *)
From BV Require Import Base.Prelude Model.Gates Spec.C17_Spec Proofs.C17_Lists Proofs.C17_Gates.
Local Open Scope N_scope.

(* ---- the readable trigger predicates are the ones the code computes ---- *)

Lemma Tg_num first target e :
  Tg always (num_trig target) (num_force first target) e = T_num target e.
Proof.
  unfold Tg, always, num_trig, num_force, T_num. simpl.
  destruct (N.leb_spec target (enum e)) as [H1|H1]; simpl; [reflexivity|].
  destruct (N.ltb_spec target first) as [H2|H2]; simpl; [|reflexivity].
  destruct (N.eqb_spec (enum e) first) as [H3|H3]; [lia | reflexivity].
Qed.

Lemma Tg_id target e : Tg always (id_trig target) (id_force target) e = T_id target e.
Proof. reflexivity. Qed.

Lemma Tg_irrnum first target e :
  Tg is_irreversible (num_trig target) (num_force first target) e = T_irrnum target e.
Proof.
  pose proof (Tg_num first target e) as H. unfold Tg, always in H. simpl in H.
  unfold Tg, T_irrnum. f_equal. exact H.
Qed.

Lemma Tg_irrid target e :
  Tg is_irreversible (id_trig target) (id_force target) e = T_irrid target e.
Proof. reflexivity. Qed.

(* ---- c17_suffix ---- *)

Lemma latch_suffix R trig force maxhold T I incl l :
  (forall e, Tg R trig force e = T e) ->
  (forall e, Ig force incl e = I e) ->
  suffix_of_input T I l (fw_of (latch_step R trig force maxhold) (g_init incl) l).
Proof.
  intros HT HI. unfold fw_of.
  change (latch_step R trig force maxhold) with (lstep R trig force maxhold).
  rewrite (fw_latch R trig force maxhold l (g_init incl) eq_refl). simpl g_incl.
  rewrite (suffix_from_ext _ T _ I l HT (fun e _ => HI e)).
  apply suffix_from_spec.
Qed.

Lemma suffix_num first target incl maxhold l :
  suffix_of_input (T_num target) (I_num first target incl) l
    (fw_of (num_gate_step first target maxhold) (g_init incl) l).
Proof. apply latch_suffix; [apply Tg_num | reflexivity]. Qed.

Lemma suffix_id target incl maxhold l :
  suffix_of_input (T_id target) (I_id target incl) l
    (fw_of (id_gate_step target maxhold) (g_init incl) l).
Proof. apply latch_suffix; [apply Tg_id | reflexivity]. Qed.

Lemma suffix_irrnum first target incl maxhold l :
  suffix_of_input (T_irrnum target) (I_irrnum first target incl) l
    (fw_of (irrnum_gate_step first target maxhold) (g_init incl) l).
Proof. apply latch_suffix; [apply Tg_irrnum | reflexivity]. Qed.

Lemma suffix_irrid target incl maxhold l :
  suffix_of_input (T_irrid target) (I_id target incl) l
    (fw_of (irrid_gate_step target maxhold) (g_init incl) l).
Proof. apply latch_suffix; [apply Tg_irrid | reflexivity]. Qed.

Lemma suffix_realtime l : suffix_of_input ert always l (fw_of realtime_gate_step false l).
Proof. rewrite fw_realtime. apply suffix_from_spec. Qed.

Lemma suffix_time_gator l : suffix_of_input ert always l (fw_of time_gator_step false l).
Proof. rewrite fw_time_gator. apply suffix_from_spec. Qed.

Lemma suffix_num_gator target exclusive l :
  suffix_of_input (T_num target) (fun _ => negb exclusive) l
    (fw_of (num_gator_step target exclusive) false l).
Proof. rewrite fw_num_gator. apply suffix_from_spec. Qed.

Theorem c17_suffix_proof : C17_suffix.
Proof.
  exact (conj suffix_num (conj suffix_id (conj suffix_irrnum (conj suffix_irrid
          (conj suffix_realtime (conj suffix_time_gator suffix_num_gator)))))).
Qed.

Theorem c17_filter_proof : C17_filter.
Proof.
  intros min l. split; [apply fw_min_filter|].
  intros Hnd. rewrite fw_min_filter, (filter_suffix min l Hnd). apply suffix_from_spec.
Qed.

Theorem c17_tripper_proof : C17_tripper.
Proof.
  intros l. cbv zeta. split; [apply tripper_all_forward|]. split.
  - apply tripper_never.
  - apply tripper_once.
Qed.

(* ---- c17_first ---- *)

Lemma first_at_zero T e l : T e = true -> first_at T (e :: l) 0%nat.
Proof.
  intros H. split; [exists e; auto | intros j x Hj; lia].
Qed.

Theorem c17_first_proof : C17_first.
Proof.
  pose proof suffix_num as Hnum. pose proof suffix_irrnum as Hirr.
  assert (P1 : forall first target incl maxhold l i e,
     target < first -> first_at (T_num target) l i -> nth_error l i = Some e -> enum e = first ->
     fw_of (num_gate_step first target maxhold) (g_init incl) l = skipn i l).
  { intros first target incl maxhold l i e Hlt Hfa He Hn.
    destruct (Hnum first target incl maxhold l) as [_ H]. rewrite (H i e Hfa He).
    unfold I_num. replace (target <? first) with true by (symmetry; apply N.ltb_lt; exact Hlt).
    replace (enum e =? first) with true by (symmetry; apply N.eqb_eq; exact Hn).
    rewrite orb_true_r. reflexivity. }
  split; [exact P1|]. split.
  - intros first target incl maxhold e l Hlt Hn.
    apply (P1 first target incl maxhold (e :: l) 0%nat e Hlt); [|reflexivity | exact Hn].
    apply first_at_zero. unfold T_num. apply N.leb_le. lia.
  - intros first target incl maxhold l i e Hlt Hfa He Hn.
    destruct (Hirr first target incl maxhold l) as [_ H]. rewrite (H i e Hfa He).
    unfold I_irrnum, I_num. replace (target <? first) with true by (symmetry; apply N.ltb_lt; exact Hlt).
    replace (enum e =? first) with true by (symmetry; apply N.eqb_eq; exact Hn).
    rewrite orb_true_r. reflexivity.
Qed.

(* ---- c17_irr_only ---- *)

Lemma ignores_ext T T' step :
  (forall e, T e = T' e) -> ignores_non_irreversible T step -> ignores_non_irreversible T' step.
Proof.
  intros HT [H1 H2]. split; [exact H1|].
  intros incl l1 e l2 He Hn. apply H2; [exact He|].
  intros x Hx. rewrite HT. apply Hn. exact Hx.
Qed.

Theorem c17_irr_only_proof : C17_irr_only.
Proof.
  split; [intros first target maxhold | intros target maxhold].
  - apply (ignores_ext _ _ _ (Tg_irrnum first target)).
    apply (latch_ignores is_irreversible (num_trig target) (num_force first target) maxhold).
    reflexivity.
  - apply (ignores_ext _ _ _ (Tg_irrid target)).
    apply (latch_ignores is_irreversible (id_trig target) (id_force target) maxhold).
    reflexivity.
Qed.

(* ---- c17_holdoff ---- *)

Lemma latch_holdoff R trig force maxhold T :
  (forall e, Tg R trig force e = T e) ->
  holdoff_rule R T maxhold (latch_step R trig force maxhold).
Proof.
  intros HT incl l j e He Hbefore.
  change (latch_step R trig force maxhold) with (lstep R trig force maxhold).
  rewrite (holdoff_latch R trig force maxhold l (g_init incl) j e eq_refl He).
  - simpl g_count. rewrite Z.add_0_l. reflexivity.
  - intros k x Hk Hx. rewrite HT. apply (Hbefore k x Hk Hx).
Qed.

Theorem c17_holdoff_proof : C17_holdoff.
Proof.
  unfold C17_holdoff.
  refine (conj _ (conj _ (conj _ (conj _ (conj _ (conj _ (conj _ (conj _ _)))))))).
  - intros first target maxhold. apply latch_holdoff. apply Tg_num.
  - intros target maxhold. apply latch_holdoff. apply Tg_id.
  - intros first target maxhold. apply latch_holdoff. apply Tg_irrnum.
  - intros target maxhold. apply latch_holdoff. apply Tg_irrid.
  - intros first target maxhold incl. apply handler_propagates_any.
  - intros target maxhold incl. apply handler_propagates_any.
  - intros first target maxhold incl. apply handler_propagates_any.
  - intros target maxhold incl. apply handler_propagates_any.
  - apply handler_propagates_any.
Qed.

(* ---- IrreversibleBlockNumGate as shipped: first streamable block 1, target 0, exclusive, events
   Irreversible 1, 2, 3: the irreversible event of block 1 is swallowed ---- *)

Theorem c17_irr_num_unfixed_refuted_proof : C17_irr_num_unfixed_refuted.
Proof.
  exists 1, 0, false, 15000%Z,
    [mkEv [49;97] 1 16 false; mkEv [50;97] 2 16 false; mkEv [51;97] 3 16 false], 0%nat,
    (mkEv [49;97] 1 16 false).
  split; [reflexivity|]. split.
  - split; [eexists; split; [reflexivity | vm_compute; reflexivity] | intros j x Hj; lia].
  - split; [reflexivity|]. split; [reflexivity|]. vm_compute. congruence.
Qed.

(* ---- the gate as shipped ignores the step: witness = the New event of the target block ---- *)

Theorem c17_irr_id_unfixed_refuted_proof : C17_irr_id_unfixed_refuted.
Proof.
  exists [97], 15000%Z, (g_init true), (mkEv [97] 5 1 false).
  vm_compute. repeat split; congruence.
Qed.
