(* C18 at stream level in discovery mode: from the boolean scope `disc_scope2_b` (roots allowed) and an arbitrary
   handler oracle to the hypotheses of Proofs/Fk/DiscLookups.v. *)
From BV Require Import Base.Prelude Model.Block Model.ForkDB Model.Forkable Model.ForkableLookups Model.Burst
  Spec.Consumer Spec.Universe Spec.C01_Spec Spec.C01_Moving_Spec Spec.C01_Roots_Spec Spec.C18_Spec Spec.C18_Moving_Spec
  Spec.C18_Disc_Spec Check.Fk_Check Check.Fk_Props_Check Proofs.PreludeFacts
  Proofs.Fk.FixedLib Proofs.Fk.MovingLibInv Proofs.Fk.MovingLibDisc Proofs.Fk.MovingLibLookups Proofs.Fk.MovingLibFollow
  Proofs.Fk.DiscEvents Proofs.Fk.DiscLookups Proofs.Fk.FailPrefix Proofs.C02_Proofs Proofs.C01_Roots_Proofs Proofs.C18_MovingProofs.
Local Open Scope N_scope.

Section Scope.
  Variable cfg : config.
  Variable h : list block.
  Hypothesis Hscope : c18d_scope cfg h.

  Let cfgN := nofail cfg.
  Let Hhold : c_hold cfgN = true := proj1 Hscope.
  Let Hincl : c_incl cfgN = false := proj1 (proj2 Hscope).
  Let Hnew : f_new (c_filter cfgN) = true := proj1 (proj2 (proj2 Hscope)).
  Let Hundo : f_undo (c_filter cfgN) = true := proj1 (proj2 (proj2 (proj2 Hscope))).
  Let Hsc : disc_scope2_b h = true := proj2 (proj2 (proj2 (proj2 Hscope))).
  Let U_id := bridge_id h (d2_wf h Hsc).
  Let U_uniq := bridge_uniq h (d2_wf h Hsc).
  Let U_up := bridge_up h (d2_wf h Hsc).
  Let D_decl := bridge2_decl_none h Hsc.

  Lemma pre_in pre rest : h = pre ++ rest -> forall b, In b pre -> In b h.
  Proof. intros -> b Hb. apply in_or_app. left. exact Hb. Qed.

  Lemma at_disc_points (P : ref -> fstate -> cstack -> Prop) :
    (forall s, PreInv h cfgN s -> P ref_empty s []) ->
    (forall a s Fin S, In a h -> Inv h (R a) cfgN s Fin S -> Ext (R a) cfgN s Fin S -> P (R a) s S) ->
    at_every_disc_point cfg h P.
  Proof.
    intros H1 H2 pre rest evs s Hh Hr.
    destruct (reaches_nofail cfg _ _ _ _ Hr (before_fail_init cfg LNone)) as [HrN _].
    apply (point_clause h cfgN eq_refl Hnew Hundo Hhold Hincl U_id U_uniq U_up D_decl P pre evs s HrN (pre_in pre rest Hh) H1 H2).
  Qed.

  Lemma scope_disc_discovery pre rest evs s : h = pre ++ rest -> reaches cfg (fs_init LNone) pre evs s ->
    exists S, apply_all (ri (disc_root evs)) [] evs = Some S /\ discovery_clause pre evs s S.
  Proof.
    intros Hh Hr. destruct (reaches_nofail cfg _ _ _ _ Hr (before_fail_init cfg LNone)) as [HrN _].
    apply (point_discovery h cfgN eq_refl Hnew Hundo Hhold Hincl U_id U_uniq U_up D_decl pre evs s HrN (pre_in pre rest Hh)).
  Qed.

  Lemma scope_disc_head : at_every_disc_point cfg h (fun _ => head_clause).
  Proof.
    apply at_disc_points.
    - intros s. apply (pre_head_clause h cfgN).
    - intros a s Fin S _. apply (head_clause_of h (R a) cfgN U_id U_uniq U_up).
  Qed.

  Lemma scope_disc_canonical : at_every_disc_point cfg h (fun _ => canonical_clause (c_kept cfg)).
  Proof.
    apply at_disc_points.
    - intros s. apply (pre_canonical_clause h cfgN).
    - intros a s Fin S Ha.
      apply (canonical_clause_of h (R a) cfgN U_id U_uniq U_up (Lid h U_id a Ha) (Lnum h U_uniq a Ha) (Lup h U_up a Ha)
               (Ldecl h U_uniq D_decl a Ha)).
  Qed.

  Lemma scope_disc_lowest : at_every_disc_point cfg h (fun _ => lowest_clause).
  Proof.
    apply at_disc_points.
    - intros s. apply (pre_lowest_clause h cfgN).
    - intros a s Fin S Ha.
      apply (lowest_clause_of h (R a) cfgN U_id U_uniq U_up (Lid h U_id a Ha) (Lnum h U_uniq a Ha) (Lup h U_up a Ha)
               (Ldecl h U_uniq D_decl a Ha)).
  Qed.

  Lemma scope_disc_window : at_every_disc_point cfg h (fun r0 => window_clause (c_kept cfg) r0).
  Proof.
    apply at_disc_points.
    - intros s. apply (pre_window_clause h cfgN).
    - intros a s Fin S _. apply (window_clause_of h (R a) cfgN U_id U_uniq U_up).
  Qed.

  Lemma scope_disc_found pre1 b pre2 rest evs1 s1 evs s2 evs2 s3 :
    h = pre1 ++ b :: pre2 ++ rest ->
    reaches cfg (fs_init LNone) pre1 evs1 s1 ->
    fk_step cfg s1 b = (s2, evs, ROk) ->
    below_lib s1 b = false ->
    reaches cfg s2 pre2 evs2 s3 ->
    cutoff (db s3) (c_kept cfg) <= bnum b ->
    get_block_by_hash s3 (bid b) = true /\ exists l, all_blocks_at s3 (bnum b) = Some l /\ In (bid b) l.
  Proof.
    intros Hh Hr1 Hstep Hd Hr2 Hn.
    destruct (reaches_nofail cfg _ _ _ _ Hr1 (before_fail_init cfg LNone)) as [Hr1N Hk1].
    destruct (step_nofail cfg s1 b s2 evs Hk1 Hstep) as [HstepN Hk2].
    destruct (reaches_nofail cfg _ _ _ _ Hr2 Hk2) as [Hr2N _].
    apply (disc_found h cfgN eq_refl Hnew Hundo Hhold Hincl U_id U_uniq U_up D_decl pre1 b pre2 evs1 s1 evs s2 evs2 s3);
      try assumption.
    intros x Hx. rewrite Hh. apply in_app_or in Hx as [Hx|[<-|Hx]].
    - apply in_or_app. left. exact Hx.
    - apply in_or_app. right. left. reflexivity.
    - apply in_or_app. right. right. apply in_or_app. left. exact Hx.
  Qed.
End Scope.

Theorem c18_disc_discovery_proof : C18_disc_discovery.
Proof. intros cfg h Hs pre rest evs s. apply (scope_disc_discovery cfg h Hs). Qed.

Theorem c18_disc_head_proof : C18_disc_head.
Proof. intros cfg h Hs. apply (scope_disc_head cfg h Hs). Qed.

Theorem c18_disc_canonical_proof : C18_disc_canonical.
Proof. intros cfg h Hs. apply (scope_disc_canonical cfg h Hs). Qed.

Theorem c18_disc_lowest_proof : C18_disc_lowest.
Proof. intros cfg h Hs. apply (scope_disc_lowest cfg h Hs). Qed.

Theorem c18_disc_window_proof : C18_disc_window.
Proof. intros cfg h Hs. apply (scope_disc_window cfg h Hs). Qed.

Theorem c18_disc_found_proof : C18_disc_found.
Proof. intros cfg h Hs pre1 b pre2 rest evs1 s1 evs s2 evs2 s3. apply (scope_disc_found cfg h Hs). Qed.

Theorem c18_disc_full_proof : C18_disc_full.
Proof.
  split; [exact c18_disc_discovery_proof|]. split; [exact c18_disc_head_proof|]. split; [exact c18_disc_canonical_proof|].
  split; [exact c18_disc_lowest_proof|]. split; [exact c18_disc_window_proof | exact c18_disc_found_proof].
Qed.

(* ---------------------------------------------------------------- the monitor accepts *)

Theorem c18_disc_lib_proof : C18_disc_lib.
Proof.
  intros k Hsc Hcor. unfold c18_prop. apply orb_true_iff. right.
  unfold c18_disc_thm_scope in Hsc. unfold fk_corresponds in Hcor.
  destruct (k_mode k) eqn:Em; [discriminate | discriminate |].
  apply andb_true_iff in Hsc as [H Hqs]. apply andb_true_iff in H as [H Hscope].
  apply andb_true_iff in H as [H Hirr]. apply andb_true_iff in H as [H Hnu].
  apply andb_true_iff in H as [Hhold Hincl]. apply negb_true_iff in Hincl.
  unfold filt_nu in Hnu. apply andb_true_iff in Hnu as [Hnew Hundo].
  unfold filt_irr in Hirr. rewrite forallb_forall in Hqs.
  apply (disc_follow (k_hist k) (nofail (k_cfg k)) eq_refl Hnew Hundo Hirr Hhold Hincl
           (bridge_id _ (d2_wf _ Hscope)) (bridge_uniq _ (d2_wf _ Hscope)) (bridge_up _ (d2_wf _ Hscope))
           (bridge2_decl_none _ Hscope) (k_qh k) (k_qi k)) with (cfgF := k_cfg k) (s := fs_init LNone).
  - intros x Hx. specialize (Hqs x Hx). apply andb_true_iff in Hqs as [H1 H2]. apply memN_In in H1, H2. auto.
  - reflexivity.
  - apply pre_init.
  - intros x [].
  - intros b Hb. exact Hb.
  - apply before_fail_init.
  - exact Hcor.
  - intros e rest He. unfold root_ref, obs_trace. unfold obs_events in He. rewrite He. reflexivity.
Qed.

Theorem c18_disc_own_run_proof : C18_disc_own_run.
Proof.
  intros cfg h qh qi Hsc.
  assert (Hcor : fk_corresponds (model_case cfg LNone h qh qi) = true) by apply model_obs_matches.
  split; [exact Hcor | apply c18_disc_lib_proof; assumption].
Qed.

(* the theorem-scope filter written with the names visible from the check's imports (the "thm_scope" text) *)
Definition c18_disc_thm_scope_inline : fk_case -> bool :=
  (fun k => match k_mode k with
            | LNone =>
                c_hold (k_cfg k) && negb (c_incl (k_cfg k)) && filt_nu k && filt_irr k &&
                (BV.Spec.Universe.wf_b (k_hist k) && BV.Spec.Universe.lib_ok_b LNone (k_hist k)) &&
                forallb (fun b => memN (bid b) (k_qi k) && memN (bnum b) (k_qh k)) (k_hist k)
            | _ => false
            end).

Lemma c18_disc_thm_scope_inline_eq k : c18_disc_thm_scope_inline k = c18_disc_thm_scope k.
Proof. reflexivity. Qed.
