(* C04 when the LIB moves: (1) model-free: the per-step shape c04m_run implies that the cursor monitor c04_b
   accepts; (2) a failing handler delivers a prefix, which the monitor accepts as well; (3) the model's run
   has the shape (Proofs/Fk/MovingLibEvents.v) under the boolean scope of the statement. *)
From BV Require Import Base.Prelude Model.Block Model.ForkDB Model.Forkable Spec.Consumer Spec.Universe
  Spec.C01_Spec Spec.C01_Moving_Spec Spec.C01_Roots_Spec Spec.C04_Spec Spec.C04_Moving_Spec
  Proofs.Fk.LoopFacts Proofs.Fk.MovingLibLoops Proofs.Fk.MovingLibInv Proofs.Fk.FixedLibEvents Proofs.Fk.MovingLibEvents
  Proofs.Fk.MovingLibFin Proofs.Fk.FailPrefix Proofs.Fk.FailRun Proofs.C04_Proofs Proofs.C02_Proofs Proofs.C01_Roots_Proofs.
Local Open Scope N_scope.

(* ---------------------------------------------------------------- the batches of a step under the monitor *)

(* the events carry L as cursor LIB; the monitor holds Lm; they agree when the LIB clause is checked *)
Lemma cur_undo_batch_m check r0 b L Lm junc kept count : (check = true -> L = Lm) -> junc_ok r0 kept junc ->
  forall undone idx, count = idx + N.of_nat (length undone) ->
  cur_evs check (ri r0) r0 b (mkCM (undone ++ kept) Lm) (batch_events SUndo (bref b) L junc count idx undone)
  = Some (mkCM kept Lm).
Proof.
  intros HL Hj. induction undone as [|x undone IH]; intros idx Hc; cbn [batch_events cur_evs app]; [reflexivity|].
  cbn [estep ecount eidx cm_stack cm_lib eblk].
  replace (N.to_nat (count - idx)) with (S (length undone)) by (cbn [length] in Hc; lia).
  cbn [pop_n]. rewrite pop_n_app.
  assert (Hok : cur_event_ok check b (mkCM (x :: undone ++ kept) Lm) kept r0
                  (mkEv SUndo x (bref x) (bref b) L junc idx count) = true).
  { unfold cur_event_ok. cbn [ecblk eblk ehead elib estep ejunc cm_lib]. rewrite !ref_eqb_refl. cbn [andb].
    assert (H3 : negb check || ref_eqb L Lm = true).
    { destruct check; [|reflexivity]. rewrite (HL eq_refl). apply ref_eqb_refl. }
    rewrite H3. cbn [andb].
    destruct junc as [j|]; [|reflexivity]. cbn [junc_ok] in Hj. destruct kept as [|top k]; subst j; apply ref_eqb_refl. }
  rewrite Hok. cbn [negb]. unfold apply_ev. cbn [estep eblk]. rewrite N.eqb_refl.
  apply IH. cbn [length] in Hc. lia.
Qed.

Definition new_ok_m (L : ref) (b : block) (e : event) : Prop :=
  estep e = SNew /\ ecblk e = bref (eblk e) /\ ehead e = bref b /\ elib e = L /\ ejunc e = None /\
  rn L <= bnum (eblk e).

Lemma cur_news_m check r0 b L Lm : (check = true -> L = Lm) ->
  forall evs st st', apply_all (ri r0) st evs = Some st' -> Forall (new_ok_m L b) evs ->
  cur_evs check (ri r0) r0 b (mkCM st Lm) evs = Some (mkCM st' Lm).
Proof.
  intros HL. induction evs as [|e evs IH]; intros st st' Ha Hn; cbn [apply_all cur_evs] in *.
  - injection Ha as <-. reflexivity.
  - pose proof (Forall_inv Hn) as (H1 & H2 & H3 & H4 & H5 & H6). pose proof (Forall_inv_tail Hn) as Hn'.
    cbn [cm_stack cm_lib]. rewrite H1.
    assert (Hok : cur_event_ok check b (mkCM st Lm) st r0 e = true).
    { unfold cur_event_ok. rewrite H1, H2, H3, H4, H5. cbn [cm_lib]. rewrite !ref_eqb_refl. cbn [andb].
      assert (H7 : negb check || ref_eqb L Lm = true).
      { destruct check; [|reflexivity]. rewrite (HL eq_refl). apply ref_eqb_refl. }
      rewrite H7. cbn [andb]. rewrite andb_true_r. apply N.leb_le. exact H6. }
    rewrite Hok. cbn [negb].
    destruct (apply_ev (ri r0) st e) as [st1|]; [|discriminate].
    apply IH; assumption.
Qed.

Lemma batch_new_ok_m L b count : forall bs idx, Forall (fun x => rn L <= bnum x) bs ->
  Forall (new_ok_m L b) (batch_events SNew (bref b) L None count idx bs).
Proof.
  induction bs as [|x bs IH]; intros idx H; cbn [batch_events]; constructor.
  - pose proof (Forall_inv H). repeat split; assumption.
  - apply IH. exact (Forall_inv_tail H).
Qed.

Lemma fresh_new_ok_m L b bs : Forall (fun x => rn L <= bnum x) bs -> Forall (new_ok_m L b) (fresh_events (bref b) L bs).
Proof.
  intros H. unfold fresh_events. apply Forall_forall. intros e He. apply in_map_iff in He as (x & <- & Hx).
  rewrite Forall_forall in H. repeat split. cbn [eblk]. apply H. exact Hx.
Qed.

Lemma last_cons_ref (a : ref) l d : last (a :: l) d = last l a.
Proof. apply last_cons. Qed.

(* Irreversible events: cursor LIB = the block itself, heights ascending from the monitor's LIB *)
Lemma cur_irrs check r0 b count : forall finals idx st Lm, ascending (rn Lm) finals ->
  cur_evs check (ri r0) r0 b (mkCM st Lm) (irr_events (bref b) count idx finals)
  = Some (mkCM st (last (map bref finals) Lm)).
Proof.
  induction finals as [|x finals IH]; intros idx st Lm Ha; cbn [irr_events cur_evs map last]; [reflexivity|].
  cbn [ascending] in Ha. destruct Ha as [Hx Ha].
  cbn [estep cm_stack cm_lib eblk].
  assert (Hok : cur_event_ok check b (mkCM st Lm) st r0 (mkEv SIrr x (bref x) (bref b) (bref x) None idx count) = true).
  { unfold cur_event_ok. cbn [ecblk eblk ehead elib estep ejunc cm_lib]. rewrite !ref_eqb_refl. cbn [andb bref rn].
    replace (rn Lm <=? bnum x) with true by lia. rewrite orb_true_r. cbn [andb]. rewrite N.leb_refl. reflexivity. }
  rewrite Hok. cbn [negb]. unfold apply_ev. cbn [estep eblk].
  rewrite (IH (idx + 1) st (bref x) Ha).
  change (match map bref finals with [] => bref x | _ :: _ => last (map bref finals) Lm end)
    with (last (bref x :: map bref finals) Lm).
  rewrite last_cons_ref. reflexivity.
Qed.

(* Stalled events: cursor LIB = the LIB after the move *)
Lemma cur_stalleds check r0 b L' Lm count : (check = true -> L' = Lm) ->
  forall bs idx st,
  cur_evs check (ri r0) r0 b (mkCM st Lm) (stalled_events (bref b) L' count idx bs) = Some (mkCM st Lm).
Proof.
  intros HL. induction bs as [|x bs IH]; intros idx st; cbn [stalled_events cur_evs]; [reflexivity|].
  cbn [estep cm_stack cm_lib eblk].
  assert (Hok : cur_event_ok check b (mkCM st Lm) st r0 (mkEv SStalled x (bref x) (bref b) L' None idx count) = true).
  { unfold cur_event_ok. cbn [ecblk eblk ehead elib estep ejunc cm_lib]. rewrite !ref_eqb_refl. cbn [andb].
    assert (H7 : negb check || ref_eqb L' Lm = true).
    { destruct check; [|reflexivity]. rewrite (HL eq_refl). apply ref_eqb_refl. }
    rewrite H7. reflexivity. }
  rewrite Hok. cbn [negb]. unfold apply_ev. cbn [estep]. apply IH.
Qed.

(* the LIB the monitor holds: the stream's LIB when Irreversible events are delivered, else the root *)
Definition mlib (firr : bool) (r0 L : ref) : ref := if firr then L else r0.

Lemma c04m_step_mon r0 firr lr L S b evs L' S' : c04m_step r0 firr lr L S b evs L' S' ->
  cur_evs firr (ri r0) r0 b (mkCM S (mlib firr r0 L)) evs = Some (mkCM S' (mlib firr r0 L')).
Proof.
  intros (kept & undone & redone & fresh & finals & stalled & -> & -> & -> & Hab & Hasc & Hmono & HL' & Hnf & Happ).
  set (Lm := mlib firr r0 L).
  assert (HLm : firr = true -> L = Lm) by (intros E; unfold Lm, mlib; rewrite E; reflexivity).
  set (evU := batch_events SUndo (bref b) L (junction_of r0 lr undone kept) (N.of_nat (length undone)) 0 undone) in *.
  assert (HU : cur_evs firr (ri r0) r0 b (mkCM (undone ++ kept) Lm) evU = Some (mkCM kept Lm)).
  { apply cur_undo_batch_m; [exact HLm | apply junction_ok | lia]. }
  rewrite (cur_evs_app _ _ _ _ _ _ _ _ HU).
  assert (HaU : apply_all (ri r0) (undone ++ kept) evU = Some kept).
  { apply apply_undos; [apply batch_events_step | apply batch_events_blocks]. }
  rewrite (apply_all_app _ _ _ _ _ HaU) in Happ.
  rewrite !app_assoc in Happ. rewrite <- (app_assoc _ (irr_events _ _ _ _)) in Happ.
  destruct (apply_all_split _ _ _ _ _ Happ) as (S1 & Ha1 & Ha2).
  rewrite apply_all_inert in Ha2.
  2:{ apply Forall_app. split.
      - eapply Forall_impl; [|apply irr_events_step]. cbn beta. auto.
      - eapply Forall_impl; [|apply stalled_events_step]. cbn beta. auto. }
  injection Ha2 as <-.
  apply Forall_app in Hab as [Hr Hf].
  rewrite !app_assoc. rewrite <- (app_assoc _ (irr_events _ _ _ _)).
  rewrite (cur_evs_app _ _ _ _ _ _ _ _
             (cur_news_m firr r0 b L Lm HLm _ _ _ Ha1
                (proj2 (Forall_app _ _ _) (conj (batch_new_ok_m L b _ _ 0 Hr) (fresh_new_ok_m L b _ Hf))))).
  assert (Hasc' : ascending (rn Lm) finals).
  { destruct firr; [exact Hasc|]. rewrite (Hnf eq_refl). exact I. }
  rewrite (cur_evs_app _ _ _ _ _ _ _ _ (cur_irrs firr r0 b _ finals 0 S1 Lm Hasc')).
  assert (Hm' : last (map bref finals) Lm = mlib firr r0 L').
  { unfold Lm, mlib. destruct firr; [symmetry; apply HL'; reflexivity|]. rewrite (Hnf eq_refl). reflexivity. }
  rewrite Hm'. apply cur_stalleds. intros E. unfold mlib. rewrite E. reflexivity.
Qed.

(* ---------------------------------------------------------------- whole runs *)

Lemma c04m_run_mon r0 firr : forall h t seen L S, c04m_run r0 firr seen L S h t ->
  exists m, cur_trace firr (ri r0) r0 (mkCM S (mlib firr r0 L)) h t = Some m.
Proof.
  induction h as [|b h IH]; intros t seen L S H.
  - destruct t; cbn [cur_trace]; eauto.
  - destruct t as [|[evs r] t]; [destruct H|]. cbn [c04m_run] in H. destruct H as (_ & L' & S' & Hstep & Hrun).
    cbn [cur_trace]. rewrite cur_events_fuel by lia. rewrite (c04m_step_mon _ _ _ _ _ _ _ _ _ Hstep).
    eapply IH. exact Hrun.
Qed.

Lemma c04m_run_accept r0 firr m h t : rooted_mode r0 m -> c04m_run r0 firr [] r0 [] h t -> c04_b firr m h t = true.
Proof.
  intros Hm H. unfold c04_b. rewrite (proj2 (rooted_root_lib r0 m t Hm)).
  destruct (c04m_run_mon r0 firr h t [] r0 [] H) as [mm Hmm].
  replace (mlib firr r0 r0) with r0 in Hmm by (destruct firr; reflexivity).
  rewrite Hmm. reflexivity.
Qed.

(* ---------------------------------------------------------------- a failing handler: the monitor accepts the cut trace *)

Lemma cur_evs_split check lib root inc : forall l1 l2 m m', cur_evs check lib root inc m (l1 ++ l2) = Some m' ->
  exists m1, cur_evs check lib root inc m l1 = Some m1.
Proof.
  induction l1 as [|e l1 IH]; intros l2 m m' H; cbn [app cur_evs] in *; [eauto|].
  destruct (negb _); [discriminate|]. destruct (apply_ev lib (cm_stack m) e); [|discriminate].
  eapply IH. exact H.
Qed.

Section FailC04.
  Variable cfg : config.
  Variable k : N.
  Hypothesis Hfail : c_fail_at cfg = Some k.
  Notation cfgN := (nofail cfg).

  Lemma run_fail_c04 check lib root : forall h s m, ncalls s <= k ->
    Forall (fun x => snd x = ROk) (fk_run cfgN s h) ->
    (exists m', cur_trace check lib root m h (fk_run cfgN s h) = Some m') ->
    exists m', cur_trace check lib root m h (fk_run cfg s h) = Some m'.
  Proof.
    induction h as [|b h IH]; intros s m Hk Hok Hcur.
    - exists m. reflexivity.
    - pose proof (step_fail cfg k Hfail s b) as R.
      cbn [fk_run] in *. destruct (fk_step cfgN s b) as [[sN evsN] rN].
      inversion Hok as [|? ? Hr Hok']; subst. cbn [snd] in Hr. subst rN.
      cbn [step_rel'] in R. destruct R as (_ & evs & Hev & Hn & Hrel). cbn [app] in Hev. subst evs.
      destruct (Hrel Hk) as [HA HB].
      destruct Hcur as [m' Hcur]. cbn [cur_trace] in Hcur. rewrite cur_events_fuel in Hcur by lia.
      destruct (cur_evs check lib root b m evsN) as [m1|] eqn:E1; [|discriminate].
      destruct (N.le_gt_cases (ncalls s + N.of_nat (length evsN)) k) as [Hle|Hgt].
      + rewrite (HA Hle). cbv beta iota. cbn [cur_trace]. rewrite cur_events_fuel by lia. rewrite E1.
        apply (IH sN m1); [lia | exact Hok' | eauto].
      + destruct (HB Hgt) as (se & e1 & e2 & He & Hl & ->). cbn [app]. cbv beta iota. cbn [cur_trace].
        rewrite cur_events_fuel by lia.
        rewrite He in E1. destruct (cur_evs_split _ _ _ _ _ _ _ _ E1) as (m0 & H0).
        rewrite H0. exists m0. destruct h; reflexivity.
  Qed.
End FailC04.

(* ---------------------------------------------------------------- the model *)

(* the class moving_scope2_b of Spec/C01_Roots_Spec.v: roots (empty parent ids) allowed *)
Lemma c04_moving2_nofail cfg r0 m h :
  c_fail_at cfg = None -> rooted_mode r0 m -> f_new (c_filter cfg) = true -> f_undo (c_filter cfg) = true ->
  moving_scope2_b r0 h = true ->
  c04m_run r0 (f_irr (c_filter cfg)) [] r0 [] h (fk_run cfg (fs_init m) h).
Proof.
  intros Hnofail Hm Hnew Hundo Hscope.
  destruct (scope2_parts r0 h Hscope) as (_ & _ & Hr0 & _).
  exact (moving_lib_events h r0 cfg Hnofail Hnew Hundo
           (bridge_id h (m2_wf r0 h Hscope)) (bridge_uniq h (m2_wf r0 h Hscope)) (bridge_up h (m2_wf r0 h Hscope)) Hr0
           (fun y Hy => proj2 (mb2_parts r0 h Hscope y Hy))
           (fun x Hx => proj1 (mb2_parts r0 h Hscope x Hx))
           (bridge2_decl r0 h Hscope)
           m h (rooted_of r0 m Hm) (fun b Hb => Hb)).
Qed.

Lemma c04_moving_lib_roots_proved : c04_moving_lib_roots_statement.
Proof.
  intros cfg r0 m h Hm Hnew Hundo Hscope. unfold c04_statement.
  destruct (c_fail_at cfg) as [k|] eqn:Hf.
  - split; [|intros H; discriminate].
    pose proof (c04_moving2_nofail (nofail cfg) r0 m h eq_refl Hm Hnew Hundo Hscope) as HN.
    change (c_filter (nofail cfg)) with (c_filter cfg) in HN.
    destruct (c01_roots_nofail (nofail cfg) r0 m h eq_refl Hm Hnew Hundo Hscope) as (_ & Hok & _).
    pose proof (c04m_run_accept r0 _ m h _ Hm HN) as HA.
    unfold c04_b in *. rewrite (proj2 (rooted_root_lib r0 m (fk_run (nofail cfg) (fs_init m) h) Hm)) in HA.
    rewrite (proj2 (rooted_root_lib r0 m (fk_run cfg (fs_init m) h) Hm)).
    destruct (cur_trace (f_irr (c_filter cfg)) (ri r0) r0 (mkCM [] r0) h (fk_run (nofail cfg) (fs_init m) h)) as [mN|] eqn:EN; [|discriminate].
    destruct (run_fail_c04 cfg k Hf (f_irr (c_filter cfg)) (ri r0) r0 h (fs_init m) (mkCM [] r0)) as [m' Hm'].
    + rewrite (rooted_ncalls r0 m Hm). lia.
    + exact Hok.
    + exists mN. exact EN.
    + rewrite Hm'. reflexivity.
  - pose proof (c04_moving2_nofail cfg r0 m h Hf Hm Hnew Hundo Hscope) as HN.
    split; [exact (c04m_run_accept r0 _ m h _ Hm HN) | intros _; exact HN].
Qed.

(* the class without roots is a sub-class *)
Lemma c04_moving_lib_proved : c04_moving_lib_statement.
Proof.
  intros cfg r0 m h Hm Hnew Hundo Hscope.
  exact (c04_moving_lib_roots_proved cfg r0 m h Hm Hnew Hundo (moving_scope_sub r0 h Hscope)).
Qed.
