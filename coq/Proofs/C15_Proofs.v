(* C15 — composition of the clauses, the generic provider as an instance of "such a provider",
   and the witnesses against the unfixed BlocksInRange / findIndexContaining. *)
From Coq Require Import Sorted.
From BV Require Import Base.Prelude Model.BlockIndex Spec.C15_Spec Proofs.PreludeFacts
  Proofs.C15_Sets Proofs.C15_Arith Proofs.C15_Provider Proofs.C15_Indexer Proofs.C15_Lookup.
Local Open Scope N_scope.

Lemma c15_indexed_provider_proof B enc dec : C15_indexed_provider B enc dec.
Proof.
  intros Hcodec fsb size start ix0 fd ix' possible m base bundle r p' Hasc Hstart Hnew Hrun Hq.
  destruct (c15_indexer_proof B enc dec Hcodec fsb size start [] ix0 fd ix' Hasc Hstart Hnew Hrun)
    as [newf [Hst [_ [Hfiles _]]]].
  pose proof (c15_provider_proof B dec fsb (ix_store ix') possible m (accepted fsb size start fd) prov0 base bundle) as HP.
  rewrite Hq in HP. destruct HP as [_ [_ [_ [Ha Hi]]]].
  - intros f Hf. rewrite Hst, app_nil_r in Hf. apply Hfiles. exact Hf.
  - left. split; reflexivity.
  - split; assumption.
Qed.

(* the identity codec meets the round-trip hypothesis (the hypothesis is satisfiable) *)
Lemma codec_id_ok : codec_ok kvmap (fun kv => kv) (fun kv => Some kv).
Proof. intros kv H. exists kv. split; [reflexivity|]. split; [exact H | reflexivity]. Qed.

(* GenericBlockIndexProvider over a store of exact files is "such a provider" for the file source:
   state invariant prov_inv, matching set = fed blocks from the first streamable block on that
   carry a matching key *)
Lemma c15_generic_provider_ok_proof B (dec : B -> option kvmap) fsb st possible m fd bundle :
  bundle <> 0 -> store_exact B dec fd st ->
  provider_ok prov (generic_query dec fsb st possible m bundle) bundle (prov_inv B dec st m)
              (fun n => fsb <= n /\ exists k, m k = true /\ fed fd k n).
Proof.
  intros Hb Hst p base Hinv Hal. unfold generic_query.
  pose proof (c15_provider_proof B dec fsb st possible m fd p base bundle Hst Hinv) as HP.
  destruct (blocks_in_range dec fsb st possible m p base bundle) as [[p' [r|]]|]; simpl.
  - destruct HP as [H1 [_ [_ [H4 H5]]]]. split; [exact H1|]. split; [exact H4|].
    intros n. rewrite H5. split.
    + intros [Hr Hk]. split; [split; [lia | exact Hk] | lia].
    + intros [[Hf Hk] Hr]. split; [lia | exact Hk].
  - destruct HP as [-> _]. split; [exact Hinv | exact I].
  - split; [exact Hinv | exact I].
Qed.

(* ---------------- the unfixed code, for the record ---------------- *)
(* BlocksInRange before the fix: break on block > exclusiveUpperBound *)
Fixpoint scan_unfixed (lo hi : N) (l : list N) : list N :=
  match l with
  | [] => []
  | b :: l' => if b <? lo then scan_unfixed lo hi l' else if hi <? b then [] else b :: scan_unfixed lo hi l'
  end.

(* index size 1000, a key on every 100th block, BlocksInRange(100, 100): 200 is returned *)
Lemma c15_unfixed_upper_bound_witness :
  scan_unfixed 100 200 [0; 100; 200; 300; 400; 500; 600; 700; 800; 900] = [100; 200] /\
  scan 100 200 [0; 100; 200; 300; 400; 500; 600; 700; 800; 900] = [100].
Proof. vm_compute. split; reflexivity. Qed.

(* findIndexContaining before the fix accepted any file whose low boundary is at or below the
   block: index size 150, bundle size 100, BlocksInRange(100, 100) is answered from the file
   [0, 150) and the matches in [150, 200) are lost *)
Lemma c15_unfixed_cover_witness :
  let file := [0; 10; 20; 30; 40; 50; 60; 70; 80; 90; 100; 110; 120; 130; 140] in
  low_boundary 100 150 = 0 /\ scan 100 200 file = [100; 110; 120; 130; 140] /\
  (low_boundary 100 150 + 150 <? 100 + 100) = true.
Proof. vm_compute. repeat split; reflexivity. Qed.

(* ---------------- a concrete layout meeting every hypothesis (non-vacuity) ---------------- *)
Module C15Example.
  Definition ka : str := [97].
  Definition chain : feed :=
    [([], 1); ([], 2); ([ka], 3); ([], 4); ([], 5); ([], 6); ([ka], 8); ([], 9); ([], 10); ([], 11);
     ([ka], 12); ([], 13)].
  Definition ix0 : indexer kvmap := mkIx 10 (Some 0) None [].
  Definition st : store kvmap :=
    match indexer_run (fun kv => kv) 0 ix0 chain with Ok ix => ix_store ix | Panic => [] end.
  Definition m : str -> bool := key_matches [FExact ka].
  Definition blocks (b : N) : list N := filter (fun n => (b <=? n) && (n <? b + 5)) (map snd chain).
  Definition exists_ (b : N) : bool := match blocks b with [] => false | _ => true end.
  Definition q := generic_query (fun kv : kvmap => Some kv) 0 st [10] m 5.
  Definition Mset (n : N) : Prop := 0 <= n /\ exists k, m k = true /\ fed chain k n.

  Lemma chain_asc : feed_ascending chain.
  Proof. unfold feed_ascending, asc. simpl. repeat constructor. Qed.

  Lemma hyps :
    5 <> 0 /\
    provider_ok prov q 5 (prov_inv kvmap (fun kv => Some kv) st m) Mset /\
    chain_ok 5 blocks /\
    prov_inv kvmap (fun kv => Some kv) st m prov0.
  Proof.
    split; [discriminate|]. split; [|split].
    - apply c15_generic_provider_ok_proof; [discriminate|].
      destruct (indexer_run (fun kv => kv) 0 ix0 chain) as [ix'|] eqn:Er; [|vm_compute in Er; discriminate].
      assert (Hnew : new_indexer (B := kvmap) [] 10 (Some 0) = Ok ix0) by reflexivity.
      destruct (c15_indexer_proof kvmap (fun kv => kv) (fun kv => Some kv) codec_id_ok 0 10 (Some 0) [] ix0 chain ix'
                  chain_asc) as [newf [Hst [_ [Hfiles _]]]]; [| exact Hnew | exact Er |].
      + intros d n Hd _. inversion Hd. lia.
      + unfold st. rewrite Er, Hst, app_nil_r. intros f Hf. apply Hfiles. exact Hf.
    - intros b _. unfold blocks. split.
      + apply C15_Lookup.asc_filter. apply chain_asc.
      + intros n Hn. apply filter_In in Hn as [_ Hn]. apply andb_true_iff in Hn as [H1 H2].
        apply N.leb_le in H1. apply N.ltb_lt in H2. lia.
    - left. split; reflexivity.
  Qed.

  Lemma run_result :
    file_source_run prov q 2 13 5 (fun _ => false) exists_ blocks 10 10 (Some prov0) [] =
    ([2; 3; 8; 10; 11; 12; 13], EStop).
  Proof. vm_compute. reflexivity. Qed.

  Lemma provider_result :
    exists p', blocks_in_range (fun kv : kvmap => Some kv) 0 st [10] m prov0 5 5 = Ok (p', Some [8]).
  Proof. vm_compute. eexists. reflexivity. Qed.
End C15Example.
