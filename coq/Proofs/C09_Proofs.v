(* C09: SourceFromBlockNum, LowestBlockNum, SourceFromBlockNumWithForks, readiness. *)
From Coq Require Import Sorted Permutation.
From BV Require Import Base.Prelude Model.Block Model.ForkDB Model.Forkable Model.ForkableLookups
  Model.Burst Model.Hub Spec.C09_Spec Proofs.C09_Store Proofs.C09_Segment.
Local Open Scope N_scope.

(* ---------------------------------------------------------------- wf preservation, fuel *)

Lemma c09_wf_preserved_proof : C09_wf_preserved.
Proof.
  split; [exact wf_store_add_link|]. split; [exact wf_store_set_sent|].
  split; [intros d k W; cbn; apply wf_store_filter; exact W|].
  split; [intros d r W; exact W|exact wf_store_nil].
Qed.

(* ---------------------------------------------------------------- blocksFromNum *)

Definition fn_go (libr hdr : ref) (num : N) :=
  fix go (l : list seg) (seen : bool) : list event :=
    match l with
    | [] => []
    | x :: l' =>
        let seen' := seen || (snum x =? num) in
        if seen' then
          let lib := if snum x <? rn libr then seg_ref x else libr in
          let st := if snum x <=? rn libr then SNewIrr else SNew in
          wrap x st hdr lib None :: go l' seen'
        else go l' seen'
    end.

Lemma blocks_from_num_eq : forall s num,
  blocks_from_num s num =
  if negb (has_lib (db s)) then BErr else
  match last_sent s with
  | None => BErr
  | Some hd =>
      match complete_segment (db s) (bref hd) with
      | None => BFuel
      | Some (_, false) => BErr
      | Some (sg, true) =>
          match fn_go (libref (db s)) (bref hd) num sg false with [] => BErr | evs => BOk evs end
      end
  end.
Proof. reflexivity. Qed.

Lemma wrap_snap : forall s hd x, seg_std x ->
  wrap x (if snum x <=? rn (libref (db s)) then SNewIrr else SNew) (bref hd)
       (if snum x <? rn (libref (db s)) then seg_ref x else libref (db s)) None = snap_event s hd x.
Proof.
  intros s hd x [Hi Hn]. unfold wrap, snap_event, seg_ref. rewrite Hi, Hn. unfold seg_blk, bref.
  destruct (bnum (eb (sent x)) <=? rn (libref (db s))); reflexivity.
Qed.

Lemma fn_go_seen : forall s hd num l, Forall seg_std l ->
  fn_go (libref (db s)) (bref hd) num l true = map (snap_event s hd) l.
Proof.
  induction l as [|x l IH]; intros Hstd; [reflexivity|].
  inversion Hstd; subst. cbn. rewrite wrap_snap by assumption. rewrite IH by assumption. reflexivity.
Qed.

Lemma fn_go_none : forall s hd num l, (forall y, In y l -> snum y <> num) ->
  fn_go (libref (db s)) (bref hd) num l false = [].
Proof.
  induction l as [|x l IH]; intros H; [reflexivity|]. cbn.
  assert (E : snum x =? num = false) by (apply N.eqb_neq; apply H; left; reflexivity).
  rewrite E. apply IH. intros y Hy. apply H. right. exact Hy.
Qed.

Lemma fn_go_hit : forall s hd num pre x suf, Forall seg_std (pre ++ x :: suf) ->
  (forall y, In y pre -> snum y <> num) -> snum x = num ->
  fn_go (libref (db s)) (bref hd) num (pre ++ x :: suf) false = map (snap_event s hd) (x :: suf).
Proof.
  induction pre as [|p pre IH]; intros x suf Hstd Hpre Hx.
  - cbn [app]. inversion Hstd; subst. cbn. rewrite N.eqb_refl. cbn.
    rewrite wrap_snap by assumption. rewrite fn_go_seen by assumption. reflexivity.
  - cbn. assert (E : snum p =? num = false) by (apply N.eqb_neq; apply Hpre; left; reflexivity).
    rewrite E. inversion Hstd; subst. apply IH; auto. intros y Hy. apply Hpre. right. exact Hy.
Qed.

Lemma split_first : forall num (l : list seg),
  (exists pre x suf, l = pre ++ x :: suf /\ snum x = num /\ forall y, In y pre -> snum y <> num) \/
  (forall y, In y l -> snum y <> num).
Proof.
  induction l as [|a l IH]; [right; intros y []|].
  destruct (N.eq_dec (snum a) num) as [E|E].
  - left. exists [], a, l. split; [reflexivity|]. split; [exact E|]. intros y [].
  - destruct IH as [[pre [x [suf [-> [Hx Hp]]]]]|IH].
    + left. exists (a :: pre), x, suf. split; [reflexivity|]. split; [exact Hx|].
      intros y [<-|Hy]; auto.
    + right. intros y [<-|Hy]; auto.
Qed.

Lemma StronglySorted_split : forall {A} (R : A -> A -> Prop) pre x suf,
  StronglySorted R (pre ++ x :: suf) -> (forall y, In y pre -> R y x) /\ (forall y, In y suf -> R x y).
Proof.
  intros A R pre. induction pre as [|p pre IH]; cbn; intros x suf H.
  - inversion H as [|? ? _ Hall]; subst. split; [intros y []|]. rewrite Forall_forall in Hall. exact Hall.
  - inversion H as [|? ? HS Hall]; subst. destruct (IH x suf HS) as [H1 H2]. split; [|exact H2].
    intros y [<-|Hy]; [|auto]. rewrite Forall_forall in Hall. apply Hall. apply in_app_iff. right. left. reflexivity.
Qed.

Lemma map_eblk_snap : forall s hd l, map eblk (map (snap_event s hd) l) = map seg_blk l.
Proof. intros s hd l. rewrite map_map. reflexivity. Qed.

Lemma std_map_bid : forall l, Forall seg_std l -> map bid (map seg_blk l) = map sid l.
Proof.
  induction l as [|x l IH]; intros H; [reflexivity|]. inversion H as [|? ? [Hx _] H']; subst.
  cbn. rewrite Hx, IH by assumption. reflexivity.
Qed.

Lemma std_num : forall l, Forall seg_std l -> forall y, In y l -> snum y = bnum (seg_blk y).
Proof. intros l H y Hy. rewrite Forall_forall in H. apply H. exact Hy. Qed.

Lemma NoDup_app_r : forall {A} (l1 l2 : list A), NoDup (l1 ++ l2) -> NoDup l2.
Proof. induction l1 as [|a l1 IH]; cbn; intros l2 H; [exact H|]. inversion H; subst. auto. Qed.

Lemma c09_from_num_proof : C09_from_num.
Proof.
  intros s n W. unfold from_num_spec. rewrite blocks_from_num_eq.
  destruct (has_lib (db s)) eqn:Hl; cbn [negb]; [|intros; discriminate].
  destruct (last_sent s) as [hd|] eqn:Hh; [|intros; discriminate].
  destruct (complete_segment_total (db s) (bref hd)) as [sg [reach E]]; [apply W|].
  rewrite E. destruct reach; [|intros hd' sg' _ Hh' E'; inversion Hh'; subst; rewrite E in E'; discriminate].
  destruct (c09_head_segment_proof s hd sg true W Hh E) as [Hstd [Hlk [Hinc [Hnd [Hst Htop]]]]].
  destruct (split_first n sg) as [[pre [x [suf [-> [Hx Hp]]]]]|Hnone].
  - rewrite fn_go_hit by assumption. cbn [map].
    exists hd, (pre ++ x :: suf), pre, x, suf.
    destruct (StronglySorted_split _ _ _ _ Hinc) as [Hlo Hhi].
    assert (Hxn : bnum (seg_blk x) = n).
    { rewrite <- Hx. symmetry. apply (std_num _ Hstd). apply in_app_iff. right. left. reflexivity. }
    split; [|split].
    + repeat split; auto.
      * intros y Hy. specialize (Hlo y Hy). unfold seg_lt in Hlo. lia.
      * intros y Hy. specialize (Hhi y Hy). unfold seg_lt in Hhi. lia.
    + reflexivity.
    + change (NoDup (map bid (map eblk (map (snap_event s hd) (x :: suf))))).
      rewrite map_eblk_snap. rewrite std_map_bid.
      * rewrite map_app in Hnd. apply NoDup_app_r in Hnd. exact Hnd.
      * rewrite Forall_forall in *. intros y Hy. apply Hstd. apply in_app_iff. right. exact Hy.
  - rewrite fn_go_none by assumption.
    intros hd' sg' _ Hh' E' x Hx. inversion Hh'; subst. rewrite E in E'. inversion E'; subst.
    rewrite <- (std_num _ Hstd x Hx). apply Hnone. exact Hx.
Qed.

Lemma c09_snapshot_cursor_proof : C09_snapshot_cursor.
Proof.
  intros s hd x. cbn. unfold snap_event. cbn.
  destruct (bnum (seg_blk x) <? rn (libref (db s))) eqn:E1; destruct (bnum (seg_blk x) <=? rn (libref (db s))) eqn:E2;
    cbn; repeat split; try reflexivity; try discriminate; intros; try lia.
Qed.

(* ---------------------------------------------------------------- LowestBlockNum *)

Lemma from_num_first : forall s hd x0 sg, wf_state s -> has_lib (db s) = true -> last_sent s = Some hd ->
  complete_segment (db s) (bref hd) = Some (x0 :: sg, true) ->
  blocks_from_num s (bnum (seg_blk x0)) = BOk (map (snap_event s hd) (x0 :: sg)).
Proof.
  intros s hd x0 sg W Hl Hh E. rewrite blocks_from_num_eq, Hl, Hh, E. cbn [negb].
  destruct (c09_head_segment_proof s hd _ true W Hh E) as [Hstd _].
  rewrite (fn_go_hit s hd _ [] x0 sg Hstd).
  - reflexivity.
  - intros y [].
  - apply (std_num _ Hstd). left. reflexivity.
Qed.

Lemma c09_lowest_proof : C09_lowest.
Proof.
  intros h hd x0 sg W Hr Hl Hh E.
  destruct (c09_head_segment_proof _ hd _ true W Hh E) as [Hstd [_ [Hinc _]]].
  assert (Hlow : hub_lowest h = bnum (seg_blk x0)).
  { unfold hub_lowest, lowest_block_num. rewrite Hr, Hh, E. apply (std_num _ Hstd). left. reflexivity. }
  split; [exact Hlow|]. split.
  - rewrite Hlow. rewrite (from_num_first _ hd x0 sg W Hl Hh E). eexists. split; [reflexivity|].
    apply map_eblk_snap.
  - intros n Hn. rewrite blocks_from_num_eq, Hl, Hh, E. cbn [negb].
    rewrite fn_go_none; [reflexivity|].
    intros y Hy. rewrite (std_num _ Hstd y Hy). rewrite Hlow in Hn.
    destruct Hy as [<-|Hy]; [lia|].
    inversion Hinc as [|? ? _ Hall]; subst. rewrite Forall_forall in Hall. specialize (Hall y Hy).
    unfold seg_lt in Hall. lia.
Qed.

Lemma c09_lowest_zero_proof : C09_lowest_zero.
Proof.
  intros h W Hr. unfold hub_lowest, lowest_block_num. rewrite Hr. split; [|split].
  - intros ->. reflexivity.
  - intros hd sg -> ->. reflexivity.
  - intros hd -> ->. reflexivity.
Qed.

Lemma c09_not_ready_proof : C09_not_ready.
Proof. intros h Hr. unfold hub_lowest, hub_head. rewrite Hr. auto. Qed.

(* ---------------------------------------------------------------- with forks *)

Definition nb_leb (a b : block) : bool := (bnum a <? bnum b) || ((bnum a =? bnum b) && (bid a <=? bid b)).

Lemma nb_leb_true : forall a b, nb_leb a b = true -> nb_le a b.
Proof. intros a b H. unfold nb_leb in H. unfold nb_le. lia. Qed.
Lemma nb_leb_false : forall a b, nb_leb a b = false -> nb_le b a.
Proof. intros a b H. unfold nb_leb in H. unfold nb_le. lia. Qed.
Lemma nb_le_trans : forall a b c, nb_le a b -> nb_le b c -> nb_le a c.
Proof. intros a b c. unfold nb_le. lia. Qed.

Lemma insert_nb_eq : forall b x l,
  insert_nb b (x :: l) = if nb_leb b x then b :: x :: l else x :: insert_nb b l.
Proof. reflexivity. Qed.

Lemma insert_nb_perm : forall b l, Permutation (insert_nb b l) (b :: l).
Proof.
  induction l as [|x l IH]; [reflexivity|]. rewrite insert_nb_eq. destruct (nb_leb b x); [reflexivity|].
  rewrite IH. apply perm_swap.
Qed.

Lemma sort_nb_perm : forall l, Permutation (fold_right insert_nb [] l) l.
Proof.
  induction l as [|x l IH]; [reflexivity|]. cbn [fold_right]. rewrite insert_nb_perm. constructor. exact IH.
Qed.

Lemma insert_nb_sorted : forall b l, Sorted nb_le l -> Sorted nb_le (insert_nb b l).
Proof.
  induction l as [|x l IH]; intros H; [cbn; constructor; constructor|].
  rewrite insert_nb_eq. destruct (nb_leb b x) eqn:E.
  - constructor; [exact H|]. constructor. apply nb_leb_true. exact E.
  - inversion H as [|? ? HS Hd]; subst. constructor; [auto|].
    destruct l as [|y l]; [cbn; constructor; apply nb_leb_false; exact E|].
    rewrite insert_nb_eq. destruct (nb_leb b y); constructor.
    + apply nb_leb_false. exact E.
    + inversion Hd; assumption.
Qed.

Lemma sort_nb_sorted : forall l, Sorted nb_le (fold_right insert_nb [] l).
Proof. induction l as [|x l IH]; [constructor|]. cbn [fold_right]. apply insert_nb_sorted. exact IH. Qed.

Lemma StronglySorted_weaken : forall {A} (R Q : A -> A -> Prop) l,
  (forall a b, R a b -> Q a b) -> StronglySorted R l -> StronglySorted Q l.
Proof.
  intros A R Q l H HS. induction HS as [|a l HS IH Hall]; constructor; [exact IH|].
  eapply Forall_impl; [|exact Hall]. intros b. apply H.
Qed.

Lemma c09_with_forks_proof : C09_with_forks.
Proof.
  intros s n. unfold blocks_from_num_with_forks. split; intros Hl; rewrite Hl; cbn [negb]; [reflexivity|].
  eexists. split; [reflexivity|].
  assert (HS : StronglySorted nb_le
                 (fold_right insert_nb [] (map eb (filter (fun e => n <=? bnum (eb e)) (store (db s)))))).
  { apply Sorted_StronglySorted; [exact nb_le_trans|apply sort_nb_sorted]. }
  split; [apply sort_nb_perm|]. split; [exact HS|]. split.
  - eapply StronglySorted_weaken; [|exact HS]. intros a b. unfold nb_le. lia.
  - intros W. eapply Permutation_NoDup.
    + apply Permutation_map. symmetry. apply sort_nb_perm.
    + rewrite map_map. apply (NoDup_map_filter _ _ (wfs_nodup _ W)).
Qed.
