(* C01: from the boolean scope of the statement to the hypotheses of Proofs/Fk/FixedLib.v *)
From BV Require Import Base.Prelude Model.Block Model.ForkDB Model.Forkable Spec.Consumer Spec.Universe
  Spec.C01_Spec Proofs.Fk.FixedLib.
Local Open Scope N_scope.

Lemma lookup_in id U b : lookup id U = Some b -> In b U /\ bid b = id.
Proof.
  induction U as [|x U IH]; cbn [lookup]; [discriminate|].
  destruct (N.eqb_spec (bid x) id) as [E|E]; intros H.
  - injection H as <-. split; [left; reflexivity | exact E].
  - destruct (IH H) as [H1 H2]. split; [right; exact H1 | exact H2].
Qed.

Lemma lookup_some id U b : In b U -> bid b = id -> exists b', lookup id U = Some b'.
Proof.
  induction U as [|x U IH]; intros Hin Hid; [destruct Hin|]. cbn [lookup].
  destruct (N.eqb_spec (bid x) id); [eauto|]. destruct Hin as [->|Hin]; [contradiction|]. apply IH; assumption.
Qed.

Section Bridge.
  Variable r0 : ref.
  Variable h : list block.
  Hypothesis Hscope : c01_fixed_scope_b r0 h = true.

  Lemma scope_parts : wf_b h = true /\ ri r0 <> 0 /\ forall b, In b h -> fixed_block_b r0 b = true.
  Proof.
    unfold c01_fixed_scope_b in Hscope. apply andb_true_iff in Hscope as [H1 H3]. apply andb_true_iff in H1 as [H1 H2].
    split; [exact H1|]. split.
    - apply negb_true_iff in H2. apply N.eqb_neq. exact H2.
    - rewrite forallb_forall in H3. exact H3.
  Qed.

  Lemma wf_block_of b : In b h -> wf_block h b = true.
  Proof. destruct scope_parts as [H _]. unfold wf_b in H. rewrite forallb_forall in H. apply H. Qed.

  (* the block stored under an id is the only block of the history with that id *)
  Lemma lookup_self b : In b h -> lookup (bid b) h = Some b.
  Proof.
    intros Hb. pose proof (wf_block_of b Hb) as W. unfold wf_block in W.
    apply andb_true_iff in W as [_ W]. destruct (lookup (bid b) h) as [b'|]; [|discriminate].
    apply block_eqb_eq in W. congruence.
  Qed.

  Lemma bridge_id b : In b h -> bid b <> 0 /\ bid b <> bparent b.
  Proof.
    intros Hb. pose proof (wf_block_of b Hb) as W. unfold wf_block in W.
    apply andb_true_iff in W as [W _]. apply andb_true_iff in W as [W _]. apply andb_true_iff in W as [W1 W2].
    apply negb_true_iff, N.eqb_neq in W1. apply negb_true_iff, N.eqb_neq in W2.
    auto.
  Qed.

  Lemma bridge_uniq x y : In x h -> In y h -> bid x = bid y -> x = y.
  Proof.
    intros Hx Hy E. pose proof (lookup_self x Hx) as Lx. pose proof (lookup_self y Hy) as Ly.
    rewrite E in Lx. congruence.
  Qed.

  Lemma bridge_up x y : In x h -> In y h -> bparent x = bid y -> bnum y < bnum x.
  Proof.
    intros Hx Hy E. pose proof (wf_block_of x Hx) as W. unfold wf_block in W.
    apply andb_true_iff in W as [W _]. apply andb_true_iff in W as [_ W].
    rewrite E, (lookup_self y Hy) in W. apply N.ltb_lt. exact W.
  Qed.

  Lemma bridge_fixed b : In b h ->
    blib b = rn r0 /\ (bparent b = ri r0 -> rn r0 < bnum b) /\ (bid b = ri r0 -> bnum b = rn r0).
  Proof.
    intros Hb. destruct scope_parts as (_ & _ & F). specialize (F b Hb). unfold fixed_block_b in F.
    apply andb_true_iff in F as [F F4]. apply andb_true_iff in F as [F F3]. apply andb_true_iff in F as [_ F2].
    apply N.eqb_eq in F2. split; [exact F2|]. split; intros E.
    - rewrite E, N.eqb_refl in F3. apply N.ltb_lt. exact F3.
    - rewrite E, N.eqb_refl in F4. apply N.eqb_eq. exact F4.
  Qed.
End Bridge.

Lemma c01_fixed_lib_proved : c01_fixed_lib_statement.
Proof.
  intros cfg r0 h Hnofail Hincl Hnew Hundo Hscope.
  destruct (scope_parts r0 h Hscope) as (_ & Hr0 & _).
  pose proof (fixed_lib_run h r0 cfg Hnofail Hnew Hundo Hincl
                (bridge_id r0 h Hscope) (bridge_uniq r0 h Hscope) (bridge_up r0 h Hscope) Hr0
                (fun y Hy => proj2 (proj2 (bridge_fixed r0 h Hscope y Hy)))
                (fun x Hx => proj1 (proj2 (bridge_fixed r0 h Hscope x Hx)))
                (fun b Hb => proj1 (bridge_fixed r0 h Hscope b Hb))
                h (fun b Hb => Hb)) as (Hlen & Hok & Hd & Hr & He).
  unfold c01_statement. repeat split; assumption.
Qed.
