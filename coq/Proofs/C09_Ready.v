(* C09: BlockInCurrentChain / Linkable characterised, the readiness latch, fuel sufficiency. *)
From Coq Require Import Sorted Permutation.
From BV Require Import Base.Prelude Model.Block Model.ForkDB Model.Forkable Model.ForkableLookups
  Model.Burst Model.Hub Spec.C09_Spec Proofs.C09_Store Proofs.C09_Segment.
Local Open Scope N_scope.

Lemma num_of_zero : forall d, wf_db d -> num_of d 0 = None.
Proof.
  intros d [W X]. unfold num_of.
  destruct (find 0 (store d)) as [e|] eqn:E.
  - exfalso. apply (wfs_nonzero _ W e); [eapply find_In; eauto|eapply find_key; eauto].
  - destruct (extra d) as [r|] eqn:Er; [|reflexivity].
    specialize (X r Er). apply N.eqb_neq in X. rewrite X. reflexivity.
Qed.

Lemma bic_loop_spec : forall d target, wf_db d -> forall fuel cur, (need d cur <= fuel)%nat ->
  exists r, bic_loop fuel d cur target = Some r /\ (is_empty r = false <-> links_to d target cur).
Proof.
  intros d target W fuel. induction fuel as [|f IH]; intros cur Hn.
  - pose proof (need_pos d cur). lia.
  - cbn [bic_loop]. destruct (num_of d (link_of d cur)) as [pn|] eqn:En.
    + destruct (pn =? target) eqn:E1; [|destruct (pn <? target) eqn:E2].
      * apply N.eqb_eq in E1. eexists. split; [reflexivity|]. split.
        -- intros He. eapply lt_hit; eauto.
        -- intros L. inversion L as [? pn' En' Hp He|? pn' En' Hp|? pn' En' Hp L']; subst;
             rewrite En in En'; inversion En'; subst; [exact He|lia|lia].
      * apply N.ltb_lt in E2. eexists. split; [reflexivity|]. split.
        -- intros _. eapply lt_hole; eauto.
        -- intros _. unfold is_empty. cbn. apply andb_false_iff. left. apply N.eqb_neq. lia.
      * apply N.eqb_neq in E1. apply N.ltb_ge in E2.
        assert (Hn' : (need d (link_of d cur) <= f)%nat).
        { unfold link_of in *. destruct (find cur (store d)) as [e|] eqn:Ef.
          - eapply need_parent; eauto. apply W.
          - rewrite (num_of_zero d W) in En. discriminate. }
        destruct (IH _ Hn') as [r [Hr Hiff]]. exists r. split; [exact Hr|]. rewrite Hiff. split.
        -- intros L. eapply lt_step; eauto. lia.
        -- intros L. inversion L as [? pn' En' Hp He|? pn' En' Hp|? pn' En' Hp L']; subst;
             rewrite En in En'; inversion En'; subst; [lia|lia|exact L'].
    + exists ref_empty. split; [reflexivity|]. split; [discriminate|].
      intros L. inversion L as [? pn' En' Hp He|? pn' En' Hp|? pn' En' Hp L']; subst;
        rewrite En in En'; discriminate.
Qed.

Lemma block_in_chain_spec : forall d start target, wf_db d ->
  exists r, block_in_chain d start target = Some r /\ (is_empty r = false <-> chain_hit d start target).
Proof.
  intros d start target W. unfold block_in_chain, chain_hit.
  destruct (rn start =? target) eqn:E.
  - apply N.eqb_eq in E. exists start. split; [reflexivity|]. split; [auto|]. intros [[_ H]|[H _]]; [exact H|contradiction].
  - apply N.eqb_neq in E. destruct (bic_loop_spec d target W (fuel_of d) (ri start) (need_fuel _ _)) as [r [Hr Hiff]].
    exists r. split; [exact Hr|]. rewrite Hiff. split; [auto|]. intros [[H _]|[_ H]]; [contradiction|exact H].
Qed.

Lemma negb_true_false : forall b, negb b = true <-> b = false.
Proof. destruct b; cbn; split; auto; discriminate. Qed.

Lemma c09_linkable_proof : C09_linkable.
Proof.
  intros s b W. unfold linkable.
  destruct (find (bid b) (store (db s))) as [e|] eqn:Ef.
  - destruct (block_in_chain_spec (db s) (bref b) (blib b) W) as [r [Hr Hiff]]. rewrite Hr. split.
    + split.
      * intros H. left. split; [discriminate|]. apply Hiff. inversion H as [H']. apply negb_true_false in H'. exact H'.
      * intros [[_ H]|[H _]]; [|discriminate]. apply Hiff in H. rewrite H. reflexivity.
    + destruct (is_empty r); auto.
  - destruct (find (bparent b) (store (db s))) as [pe|] eqn:Ep.
    + destruct (num_of (db s) (bparent (eb pe))) as [pn|] eqn:En.
      * destruct (block_in_chain_spec (db s) (mkR (bparent (eb pe)) pn) (blib b) W) as [r [Hr Hiff]]. rewrite Hr. split.
        -- split.
           ++ intros H. right. split; [reflexivity|]. exists pe, pn. split; [reflexivity|]. split; [exact En|].
              apply Hiff. inversion H as [H']. apply negb_true_false in H'. exact H'.
           ++ intros [[H _]|[_ [pe' [pn' [H1 [H2 H3]]]]]]; [contradiction|].
              inversion H1; subst. rewrite En in H2. inversion H2; subst.
              apply Hiff in H3. rewrite H3. reflexivity.
        -- destruct (is_empty r); auto.
      * split; [|auto]. split; [discriminate|].
        intros [[H _]|[_ [pe' [pn' [H1 [H2 H3]]]]]]; [contradiction|].
        inversion H1; subst. rewrite En in H2. discriminate.
    + split; [|auto]. split; [discriminate|].
      intros [[H _]|[_ [pe' [pn' [H1 _]]]]]; [contradiction|discriminate].
Qed.

(* ---------------------------------------------------------------- fuel *)

Lemma undo_walk_fuel : forall d sg c, wf_store (store d) -> forall fuel id acc,
  (need d id <= fuel)%nat -> undo_walk fuel d sg c id acc <> None.
Proof.
  intros d sg c W fuel. induction fuel as [|f IH]; intros id acc Hn.
  - pose proof (need_pos d id). lia.
  - cbn [undo_walk]. unfold block_for_id. destruct (find id (store d)) as [e|] eqn:E; [|discriminate].
    cbn [sent eb]. destruct (block_in (bparent (eb e)) sg); [discriminate|].
    apply IH. eapply need_parent; eauto.
Qed.

Lemma c09_fuel_sufficient_proof : C09_fuel_sufficient.
Proof.
  split; [|split; [|split]].
  - intros d start W. unfold complete_segment. apply cs_loop_fuel; [exact W|apply need_fuel].
  - intros d start target W. destruct (block_in_chain_spec d start target W) as [r [Hr _]]. rewrite Hr. discriminate.
  - intros s b W. destruct (c09_linkable_proof s b W) as [_ [H|H]]; rewrite H; discriminate.
  - intros d sg c id W. apply undo_walk_fuel; [exact W|apply need_fuel].
Qed.

(* ---------------------------------------------------------------- the readiness latch *)

Lemma hub_live_latch : forall first kept h p b h' evs r,
  hub_live first kept h p b = (h', evs, r) ->
  (h_ready h = true -> h_ready h' = true) /\
  (h_ready h = false -> h_ready h' = true ->
     r = ROk /\ head_num (h_f h) <= bnum b /\
     linkable (h_f h') b = Some true /\ last_sent (h_f h') <> None).
Proof.
  intros first kept h p b h' evs r H. unfold hub_live in H.
  destruct (h_ready h) eqn:Er.
  - destruct (fk_step (hub_config first kept) (h_f h) b) as [[s1 e1] r1].
    inversion H; subst. cbn. split; [reflexivity|discriminate].
  - split; [discriminate|]. intros _ Hr'.
    destruct (bnum b <? head_num (h_f h)) eqn:Elt.
    { destruct (fk_step (hub_config first kept) (h_f h) b) as [[s1 e1] r1].
      inversion H; subst. cbn in Hr'. discriminate. }
    apply N.ltb_ge in Elt.
    destruct (linkable (h_f h) b) as [l0|]; [|inversion H; subst; rewrite Er in Hr'; discriminate].
    match type of H with (match ?boot with _ => _ end) = _ => destruct boot as [s1|] end;
      [|inversion H; subst; rewrite Er in Hr'; discriminate].
    destruct (fk_step (hub_config first kept) s1 b) as [[s2 e2] r2].
    destruct r2; try (inversion H; subst; cbn in Hr'; discriminate).
    destruct (linkable s2 b) as [[|]|] eqn:El; try (inversion H; subst; cbn in Hr'; discriminate).
    inversion H; subst. cbn in Hr'. cbn [h_f].
    split; [reflexivity|]. split; [exact Elt|]. split; [exact El|].
    unfold head_info in Hr'. destruct (last_sent s2); [discriminate|discriminate].
Qed.

Lemma c09_ready_latch_proof : C09_ready_latch.
Proof.
  split; [exact hub_live_latch|].
  intros first kept h l. revert h. induction l as [|[b p] l IH]; intros h Hr; [exact Hr|].
  cbn [hub_run]. destruct (hub_live first kept h p b) as [[h' evs] r] eqn:E.
  destruct (hub_live_latch _ _ _ _ _ _ _ _ E) as [H1 _]. specialize (H1 Hr).
  destruct r; auto.
Qed.
