(* C03 with a handler that FAILS (addition to Spec/C03_Moving_Spec.v): the class of c03_moving_lib_roots_statement
   with EVERY handler oracle (c_fail_at cfg = None or Some k: the k-th handler call returns an error).

   The property C03 itself quantifies over a handler that succeeds (Check/Fk_Props_Check.c03_in_scope asks
   c_fail_at = None: after a handler error ProcessBlock returns in the middle of a batch and the source stops; the
   consumer's tip is then between two positions of the reference).  What holds with a failing handler is the
   statement for the calls BEFORE the failing one, as c01 does with oracle_run (Spec/C01_More_Spec.v): the run is the
   run of the never-failing handler cut right after the failing call, so every call before it has the events, the tip,
   the path and the last final block the reference demands, the retention setting is still irrelevant, and a block the
   reference ignores can still be deleted. *)
From BV Require Import Base.Prelude Model.Block Model.ForkDB Model.Forkable Model.ForkableLookups
  Spec.Consumer Spec.Universe Spec.ForkChoice Spec.C01_Spec Spec.C01_More_Spec Spec.C01_Moving_Spec Spec.C01_Roots_Spec
  Spec.C03_Spec Spec.C03_Moving_Spec Check.Fk_Check Check.Fk_Props_Check.
Local Open Scope N_scope.

(* the calls that returned normally: everything before the first entry whose result is not Ok *)
Fixpoint ok_prefix (t : trace) : trace :=
  match t with
  | (evs, ROk) :: t' => (evs, ROk) :: ok_prefix t'
  | _ => []
  end.
Fixpoint ok_obs (os : list obs) : list obs :=
  match os with
  | o :: os' => match o_result o with ROk => o :: ok_obs os' | _ => [] end
  | [] => []
  end.

(* noise deletion under an oracle: the run on h1 ++ b :: h2 is the oracle's cut of the never-failing run on h1 ++ h2
   with the empty entry inserted at b's position *)
Definition c03_noise_deletion_oracle (cfg : config) (m : libmode) (h1 : list block) (b : block) (h2 : list block) : Prop :=
  let fc := fc_after cfg (fc_init m) h1 in
  fc_step (c_first cfg) (c_incl cfg) (c_alltrig cfg) fc b = fc ->
  let T := fk_run (nofail cfg) (fs_init m) (h1 ++ h2) in
  oracle_run cfg (firstn (length h1) T ++ ([], ROk) :: skipn (length h1) T) (fk_run cfg (fs_init m) (h1 ++ b :: h2)).

(* Same class and same conclusion clauses as c03_moving_lib_roots_statement, for every handler oracle:
   - the run t is the oracle's cut of the never-failing run t0 (for which c03_moving_lib_roots_partial gives every clause),
     all results are Ok except that the step containing the failing call returns the handler error and is the last one;
   - the calls before the failing one are a beginning of t0, and on them: c03_follows (events accepted, consumer tip =
     reference tip, stack = path to the LIB, last final = reference final), c03_noise, and the checker's comparison
     c03_follow accepts the model's own observation (consumer tip id, HeadInfo id, last-final id);
   - the run is the same for every keptFinalBlocks value;
   - noise deletion in the oracle form above.
   With c_fail_at cfg = None this is c03_moving_lib_roots_statement (ok_prefix t = t). *)
Definition c03_moving_lib_failures_statement : Prop :=
  forall cfg r0 m h,
    rooted_mode r0 m ->
    f_new (c_filter cfg) = true -> f_undo (c_filter cfg) = true ->
    moving_scope2_b r0 h = true ->
    let t0 := fk_run (nofail cfg) (fs_init m) h in
    let t := fk_run cfg (fs_init m) h in
    oracle_run cfg t0 t /\ results_ok_or_last_err t /\
    (exists n, ok_prefix t = firstn n t0) /\
    (c_fail_at cfg = None -> ok_prefix t = t) /\
    c03_follows cfg (ri r0) (fc_init m) [] None h (ok_prefix t) /\
    c03_noise cfg (fc_init m) h (ok_prefix t) /\
    c03_follow cfg (ri r0) (fc_init m) [] 0 h (ok_obs (fk_obs cfg (fs_init m) h)) = true /\
    c03_retention_statement cfg m h /\
    (forall h1 b h2, h = h1 ++ b :: h2 -> c03_noise_deletion_oracle cfg m h1 b h2).
