(* C17 — readable statement: gates forward a suffix of their input.

   Vocabulary.  The TRIGGER of a gate on an input sequence is defined declaratively as the first
   position whose event satisfies the gate's trigger predicate ([first_at]); the property says
   that what reaches the wrapped handler is exactly the input from that position on ([skipn]),
   with the trigger event itself present iff the gate is inclusive there. *)
From BV Require Import Base.Prelude Model.Gates.
Local Open Scope N_scope.

(* position i is the first one whose event satisfies P *)
Definition first_at (P : ev -> bool) (l : list ev) (i : nat) : Prop :=
  (exists e, nth_error l i = Some e /\ P e = true) /\
  (forall j e, (j < i)%nat -> nth_error l j = Some e -> P e = false).

Definition never (P : ev -> bool) (l : list ev) : Prop :=
  forall e, In e l -> P e = false.

(* computable form of first_at (Proofs/C17_Lists.v: first_index_some, first_at_index) *)
Fixpoint first_index (P : ev -> bool) (l : list ev) : option nat :=
  match l with
  | [] => None
  | e :: l' => if P e then Some 0%nat else option_map S (first_index P l')
  end.

(* "forwards a suffix and nothing else": [fw] is what the handler received on input [l] for a
   gate whose trigger predicate is T and which is inclusive at a trigger event e iff I e *)
Definition suffix_of_input (T I : ev -> bool) (l fw : list ev) : Prop :=
  (never T l -> fw = []) /\
  (forall i e, first_at T l i -> nth_error l i = Some e ->
     fw = skipn (if I e then i else S i) l).

(* ---- trigger predicates and inclusiveness, per gate (readable form) ---- *)

Definition id_special (target : str) : bool := eqb_list target [] || eqb_list target zero_id.

(* BlockNumGate: first block whose number reaches the target *)
Definition T_num (target : N) (e : ev) : bool := target <=? enum e.
Definition I_num (first target : N) (incl : bool) (e : ev) : bool :=
  incl || ((target <? first) && (enum e =? first)).

(* BlockIDGate: the block with the target id; an empty / all-zero target id opens at number 2 *)
Definition T_id (target : str) (e : ev) : bool :=
  eqb_list (eid e) target || (id_special target && (enum e =? 2)).
Definition I_id (target : str) (incl : bool) (e : ev) : bool :=
  incl || (id_special target && (enum e =? 2)).

(* irreversible gates: the same tests, on irreversible events only *)
Definition T_irrnum (target : N) (e : ev) : bool := is_irreversible e && T_num target e.
Definition I_irrnum (first target : N) (incl : bool) (e : ev) : bool := I_num first target incl e.
Definition T_irrid (target : str) (e : ev) : bool := is_irreversible e && T_id target e.

(* what reaches the handler *)
Definition fw_of {S} (step : S -> ev -> S * action) (s : S) (l : list ev) : list ev :=
  forwarded (run step s l) l.

(* c17_suffix: every gate, every configuration, every input sequence *)
Definition C17_suffix : Prop :=
  (forall first target incl maxhold l,
     suffix_of_input (T_num target) (I_num first target incl) l
       (fw_of (num_gate_step first target maxhold) (g_init incl) l)) /\
  (forall target incl maxhold l,
     suffix_of_input (T_id target) (I_id target incl) l
       (fw_of (id_gate_step target maxhold) (g_init incl) l)) /\
  (forall first target incl maxhold l,
     suffix_of_input (T_irrnum target) (I_irrnum first target incl) l
       (fw_of (irrnum_gate_step first target maxhold) (g_init incl) l)) /\
  (forall target incl maxhold l,
     suffix_of_input (T_irrid target) (I_id target incl) l
       (fw_of (irrid_gate_step target maxhold) (g_init incl) l)) /\
  (forall l,
     suffix_of_input ert always l (fw_of realtime_gate_step false l)) /\
  (* gators: the blocks for which Pass answers true *)
  (forall l,
     suffix_of_input ert always l (fw_of time_gator_step false l)) /\
  (forall target exclusive l,
     suffix_of_input (T_num target) (fun _ => negb exclusive) l
       (fw_of (num_gator_step target exclusive) false l)).

(* MinimalBlockNumFilter is a filter, not a latch: it forwards exactly the blocks at or above
   the minimum, which is a suffix when block numbers never decrease *)
Definition nondecreasing (l : list ev) : Prop :=
  forall i j a b, (i <= j)%nat -> nth_error l i = Some a -> nth_error l j = Some b -> enum a <= enum b.
Definition C17_filter : Prop :=
  forall min l,
    fw_of (min_filter_step min) tt l = filter (fun e => min <=? enum e) l /\
    (nondecreasing l -> suffix_of_input (T_num min) always l (fw_of (min_filter_step min) tt l)).

(* RealtimeTripper forwards everything and calls tripFunc exactly once, on the first real-time
   block, before that block is handed on *)
Definition C17_tripper : Prop :=
  forall l,
    let out := run tripper_step false l in
    map snd out = map (fun _ => Forward) l /\
    (never ert l -> forall o, In o out -> fst o = false) /\
    (forall i, first_at ert l i ->
       forall j o, nth_error out j = Some o -> fst o = Nat.eqb j i).

(* c17_first: a number gate set below the first streamable block opens inclusively at that
   block, whatever its configured type: BlockNumGate and IrreversibleBlockNumGate (on its
   irreversible events), for every first-streamable-block setting. *)
Definition C17_first : Prop :=
  (forall first target incl maxhold l i e,
     target < first -> first_at (T_num target) l i -> nth_error l i = Some e -> enum e = first ->
     fw_of (num_gate_step first target maxhold) (g_init incl) l = skipn i l) /\
  (* in a stream that starts at the first streamable block the whole stream goes through *)
  (forall first target incl maxhold e l,
     target < first -> enum e = first ->
     fw_of (num_gate_step first target maxhold) (g_init incl) (e :: l) = e :: l) /\
  (forall first target incl maxhold l i e,
     target < first ->
     first_at (T_irrnum target) l i -> nth_error l i = Some e -> enum e = first ->
     fw_of (irrnum_gate_step first target maxhold) (g_init incl) l = skipn i l).

(* c17_irr_only: until it is open an irreversible gate ignores every event whose step is not
   exactly StepIrreversible: nothing is forwarded, nil is returned, and the gate's state
   (latch, type, hold-off counter) does not move — so the rest of the run is the same as if
   the event had not been there *)
Definition ignores_non_irreversible (T : ev -> bool) (step : gstate -> ev -> gstate * action) : Prop :=
  (forall g e, g_passed g = false -> is_irreversible e = false -> step g e = (g, Hold)) /\
  (forall incl l1 e l2,
     is_irreversible e = false ->
     never T l1 ->                       (* the gate has not opened during l1 *)
     run step (g_init incl) (l1 ++ e :: l2) =
       let full := run step (g_init incl) (l1 ++ l2) in
       firstn (length l1) full ++ Hold :: skipn (length l1) full).
Definition C17_irr_only : Prop :=
  (forall first target maxhold, ignores_non_irreversible (T_irrnum target) (irrnum_gate_step first target maxhold)) /\
  (forall target maxhold, ignores_non_irreversible (T_irrid target) (irrid_gate_step target maxhold)).

(* c17_holdoff.  [held R l j] = how many events the gate has held back (events it looks at,
   R) among positions 0..j.  Before the trigger the call at position j fails iff the limit is
   not 0 and more than `maxhold` events have been held back; nothing is forwarded there. *)
Definition held (R : ev -> bool) (l : list ev) (j : nat) : Z :=
  Z.of_nat (length (filter R (firstn (S j) l))).

Definition holdoff_rule (R T : ev -> bool) (maxhold : Z) (step : gstate -> ev -> gstate * action) : Prop :=
  forall incl l j e,
    nth_error l j = Some e ->
    (forall k x, (k <= j)%nat -> nth_error l k = Some x -> T x = false) ->
    nth_error (run step (g_init incl) l) j =
      Some (if R e && negb (maxhold =? 0)%Z && (held R l j >? maxhold)%Z then HoldErr else Hold).

(* what ProcessBlock returns, with a wrapped handler that is an arbitrary state machine:
   the handler sees exactly the forwarded events in order, its result (error or nil) is what
   the gate returns for those calls, held calls return nil or the hold-off error *)
Definition handler_propagates {S} (step : S -> ev -> S * action) (s : S) : Prop :=
  forall (H : Type) (hproc : H -> ev -> H * option N) (h : H) (l : list ev),
    let acts := run step s l in
    let out := run_h hproc step s h l in
    map fst out = map (fun a => action_eqb a Forward) acts /\
    map snd (filter fst out) =
      map (fun r => match r with None => RNil | Some c => RHandler c end)
          (handler_results hproc h (forwarded acts l)) /\
    (forall j a o, nth_error acts j = Some a -> nth_error out j = Some o ->
       a <> Forward -> snd o = match a with HoldErr => RHoldOff | _ => RNil end).

Definition C17_holdoff : Prop :=
  (forall first target maxhold,
     holdoff_rule always (T_num target) maxhold (num_gate_step first target maxhold)) /\
  (forall target maxhold,
     holdoff_rule always (T_id target) maxhold (id_gate_step target maxhold)) /\
  (forall first target maxhold,
     holdoff_rule is_irreversible (T_irrnum target) maxhold (irrnum_gate_step first target maxhold)) /\
  (forall target maxhold,
     holdoff_rule is_irreversible (T_irrid target) maxhold (irrid_gate_step target maxhold)) /\
  (forall first target maxhold incl, handler_propagates (num_gate_step first target maxhold) (g_init incl)) /\
  (forall target maxhold incl, handler_propagates (id_gate_step target maxhold) (g_init incl)) /\
  (forall first target maxhold incl, handler_propagates (irrnum_gate_step first target maxhold) (g_init incl)) /\
  (forall target maxhold incl, handler_propagates (irrid_gate_step target maxhold) (g_init incl)) /\
  (handler_propagates realtime_gate_step false).

(* IrreversibleBlockNumGate as shipped (first-streamable rule written with the constants 0, 1, 2)
   breaks c17_first as soon as the first streamable block is not 2: *)
Definition C17_irr_num_unfixed_refuted : Prop :=
  exists first target incl maxhold l i e,
    target < first /\ first_at (T_irrnum target) l i /\ nth_error l i = Some e /\ enum e = first /\
    fw_of (irrnum_gate_step_unfixed target maxhold) (g_init incl) l <> skipn i l.

(* The gate as shipped (before C17_fix_irreversible_id_gate_step) breaks c17_irr_only: *)
Definition C17_irr_id_unfixed_refuted : Prop :=
  exists target maxhold g e,
    g_passed g = false /\ is_irreversible e = false /\
    irrid_gate_step_unfixed target maxhold g e <> (g, Hold).
