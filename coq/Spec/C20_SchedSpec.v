(* C20 — readable statement, schedule part: every interleaving of PushBlock with concurrent
   subscribe / unsubscribe and with consumers of every speed (Model/BlockServerSched.v).
   All statements quantify over EVERY schedule (list tid), every script of the producer (repeated
   ids allowed), every buffer size in Z, every list of client bursts in Z. *)
From BV Require Import Base.Prelude Model.BlockServer Model.BlockServerSched Spec.C20_Spec.
Local Open Scope Z_scope.

Definition reachable (buffered : bool) (size : Z) (script : list N) (bursts : list Z) (st : cstate) : Prop :=
  exists sched, st = crun (cinit buffered size script bursts) sched.

(* no step ever panics: no nil tail, no slice out of bounds, no send on a closed channel, and
   close(channel) is never executed twice *)
Definition C20_sched_safe : Prop :=
  forall buffered size script bursts st,
    reachable buffered size script bursts st -> g_bad st = false.

(* the producer never waits for a consumer: inside PushBlock its next step is always enabled; between
   two PushBlock calls it waits only while a client holds the write lock, and that client's own
   next step (body + Unlock) is always enabled and releases the lock *)
Definition C20_sched_producer_enabled : Prop :=
  forall buffered size script bursts st,
    reachable buffered size script bursts st ->
    (g_ppc st <> PIdle -> prod_enabled st = true) /\
    (g_ppc st = PIdle -> g_script st <> [] -> g_wlock st = None -> prod_enabled st = true) /\
    (forall i, g_wlock st = Some i -> g_wlock (cstep st (TClient i)) = None).

(* is the producer inside a PushBlock whose block was appended but not yet offered to client i ? *)
Definition pending (st : cstate) (i : nat) : bool :=
  match g_ppc st with
  | PAppended _ => existsb (Nat.eqb i) (g_order st)
  | PLoop _ todo => existsb (Nat.eqb i) todo
  | PClose _ k todo | PSend _ k todo => existsb (Nat.eqb i) (k :: todo)
  | _ => false
  end.

(* Delivery, in every reachable state, for every client i that has subscribed:
   P = blocks pushed so far (a prefix of the producer's script, in order);
   B = the last min(burst, buffered) blocks of the window at the instant of its subscribe;
   later = the blocks pushed after that instant (up to its unsubscribe, if any);
   everything sent to it (received ++ queued) is B followed by a prefix of later, in push order:
   all of later while the channel is open (except the block of the PushBlock in progress when the
   loop has not reached i yet), a strict prefix once closed; closed exactly once. *)
Definition C20_sched_delivery : Prop :=
  forall buffered size script bursts st,
    reachable buffered size script bursts st ->
    (exists rest, script = g_pushed st ++ rest) /\
    forall i c s,
      nth_error (g_clients st) i = Some c -> c_sub c = Some s ->
      let P := g_pushed st in
      let B := burst_of (c_burst c) (if buffered then spec_window size (firstn (c_start c) P) else []) in
      let stop := match c_stop c with Some n => n | None => length P end in
      let later := firstn (stop - c_start c) (skipn (c_start c) P) in
      nth_error bursts i = Some (c_burst c) /\
      s_cap s = Z.to_N (chan_base + zlen B) /\
      s_ncloses s = (if s_chclosed s then 1%N else 0%N) /\
      exists n, s_recv s ++ s_q s = B ++ firstn n later /\
        (s_chclosed s = true -> (n < length later)%nat) /\
        (s_chclosed s = false -> n = (length later - (if s_listed s && pending st i then 1 else 0))%nat).

(* the window seen by subscribers and Ready(): between two PushBlock calls the window is the
   reference window of everything pushed; Ready() never flips back to false, at ANY instant *)
Definition C20_sched_ready_stable : Prop :=
  forall buffered size script bursts st,
    reachable buffered size script bursts st ->
    (g_ppc st = PIdle -> buffered = true -> cwindow st = spec_window size (g_pushed st)) /\
    forall t, cready st = true -> cready (cstep st t) = true.

(* in the ORIGINAL code PushBlock deletes the tail before appending: between these two buffer calls
   a full buffer holds size-1 blocks and a concurrent Ready() answers false *)
Definition C20_orig_ready_flips : Prop :=
  exists b size b1,
    buf_len b >=? size = true /\ buf_delete (buf_tail b) b = Some b1 /\ buf_len b1 >=? size = false.
