(* C04 when the LIB MOVES (addition to Spec/C04_Spec.v): the events of one ProcessBlock call written out
   with every cursor field, and the statement for the class of c01_moving_lib_partial
   (Spec/C01_Moving_Spec.v: a configured starting LIB, exclusive or inclusive, coherent with the history;
   LIB declarations in the class lib_ok_b; any handler oracle). *)
From BV Require Import Base.Prelude Model.Block Model.ForkDB Model.Forkable Spec.Consumer Spec.Universe
  Spec.C01_Spec Spec.C01_Moving_Spec Spec.C01_Roots_Spec Spec.C04_Spec.
Local Open Scope N_scope.

(* ---------------------------------------------------------------- the events of one step, written out *)

(* Irreversible events for the blocks bs (oldest first): the cursor block and the cursor LIB are the
   block itself, no junction, numbered idx, idx+1, ... out of count *)
Fixpoint irr_events (head : ref) (count idx : N) (bs : list block) : list event :=
  match bs with
  | [] => []
  | x :: rest => mkEv SIrr x (bref x) head (bref x) None idx count :: irr_events head count (idx + 1) rest
  end.

(* Stalled events: the cursor LIB is the LIB after the move *)
Fixpoint stalled_events (head lib : ref) (count idx : N) (bs : list block) : list event :=
  match bs with
  | [] => []
  | x :: rest => mkEv SStalled x (bref x) head lib None idx count :: stalled_events head lib count (idx + 1) rest
  end.

(* heights never decrease along l, starting at or above n *)
Fixpoint ascending (n : N) (l : list block) : Prop :=
  match l with
  | [] => True
  | x :: rest => n <= bnum x /\ ascending (bnum x) rest
  end.

(* What one ProcessBlock call delivers.  L, L' : the LIB of the stream before and after the call (when
   Irreversible events are delivered, firr = true, this is the last block announced final so far, or the
   starting LIB r0); S, S' : consumer stack (newest first; final blocks are never popped) before and
   after; b the incoming block.  The events are, in this order:
     the undo batch (the blocks `undone` popped from the stack, newest first) -- cursor LIB L, junction =
       the block the stack rests on afterwards (junction_of, Spec/C04_Spec.v: the top of `kept`; with
       nothing kept, the starting LIB if a block carrying its id was received before, else absent);
     the redo batch and the never-delivered blocks up to b -- cursor LIB L, every block at or above L
       (strictly above except when the starting LIB block itself is delivered in inclusive mode);
     the Irreversible events for `finals` (heights ascending from L, cursor LIB = the block itself);
     the Stalled events -- cursor LIB L', the LIB after the move.
   Every event has cursor block = its block and cursor head = b. *)
Definition c04m_step (r0 : ref) (firr : bool) (lib_received : bool) (L : ref) (S : cstack) (b : block)
           (evs : list event) (L' : ref) (S' : cstack) : Prop :=
  exists kept undone redone fresh finals stalled,
    S = undone ++ kept /\ S' = rev (redone ++ fresh) ++ kept /\
    evs = batch_events SUndo (bref b) L (junction_of r0 lib_received undone kept) (N.of_nat (length undone)) 0 undone
          ++ batch_events SNew (bref b) L None (N.of_nat (length redone)) 0 redone
          ++ fresh_events (bref b) L fresh
          ++ irr_events (bref b) (N.of_nat (length finals)) 0 finals
          ++ stalled_events (bref b) L' (N.of_nat (length stalled)) 0 stalled /\
    Forall (fun x => rn L <= bnum x) (redone ++ fresh) /\
    ascending (rn L) finals /\
    rn L <= rn L' /\
    (firr = true -> L' = last (map bref finals) L) /\
    (firr = false -> finals = []) /\
    apply_all (ri r0) S evs = Some S'.

(* a whole run: every call returns normally and delivers events of the shape above; `seen` = the blocks
   fed before (newest first) *)
Fixpoint c04m_run (r0 : ref) (firr : bool) (seen : list block) (L : ref) (S : cstack) (h : list block) (t : trace) : Prop :=
  match h, t with
  | [], [] => True
  | b :: h', (evs, r) :: t' =>
      r = ROk /\ exists L' S', c04m_step r0 firr (lib_received r0 seen) L S b evs L' S' /\
                               c04m_run r0 firr (b :: seen) L' S' h' t'
  | _, _ => False
  end.

(* ---------------------------------------------------------------- the part that is proved *)

(* a configured starting LIB r0 (exclusive or inclusive, any includeInitialLIB flag) coherent with the
   history (moving_scope_b); the LIB moves freely.  The cursor monitor accepts the run for EVERY handler
   oracle (a failing handler cuts the trace, the monitor reads batch sizes from StepCount); with a handler
   that never fails the run has the explicit shape above. *)
Definition c04_moving_lib_statement : Prop :=
  forall cfg r0 m h,
    rooted_mode r0 m ->
    f_new (c_filter cfg) = true -> f_undo (c_filter cfg) = true ->
    moving_scope_b r0 h = true ->
    c04_statement cfg m h /\
    (c_fail_at cfg = None ->
     c04m_run r0 (f_irr (c_filter cfg)) [] r0 [] h (fk_run cfg (fs_init m) h)).

(* the same for the larger class moving_scope2_b of Spec/C01_Roots_Spec.v: blocks with an EMPTY parent id
   (roots) allowed, fed any number of times *)
Definition c04_moving_lib_roots_statement : Prop :=
  forall cfg r0 m h,
    rooted_mode r0 m ->
    f_new (c_filter cfg) = true -> f_undo (c_filter cfg) = true ->
    moving_scope2_b r0 h = true ->
    c04_statement cfg m h /\
    (c_fail_at cfg = None ->
     c04m_run r0 (f_irr (c_filter cfg)) [] r0 [] h (fk_run cfg (fs_init m) h)).
