(* C13 over whole runs, additions: for EVERY filter, stop block, start mode, world and schedule the stream delivers what
   its handler chain makes of ONE raw sequence X that does not depend on the chain (Spec/C07_Shapes_Spec.v,
   C07_run_shapes, stated there with the three shapes of X): "filters only remove, in unchanged order" and "no event
   above S, block S itself iff the first passing event at or above S is numbered S, then stop-block-reached, whether
   S is reached in files or live" hold of the run itself, not only of the handler chain.
   Final blocks only: the filter also drops a repeated final block (the fix "each final block once": `seen`). *)
From BV Require Import Base.Prelude Model.Block Model.ForkDB Model.Forkable Model.ForkableLookups
  Model.Burst Model.Hub Model.CursorResolver Model.Joining
  Spec.C07_Spec Spec.C13_Spec Spec.C07_Compose_Spec Spec.C07_Shapes_Spec Spec.C07_More_Spec.
Local Open Scope N_scope.

(* the run as the handler chain over a raw sequence: X is a beginning of the file events followed, after a join, by the
   hub's burst and the events of the arrivals; the chain of c (filter, stop block) gives the output and the error *)
Definition C13_run_over_raw : Prop :=
  forall (c : jcfg) (w : world) (ps : list (N * N)) (merged_end : N) (merged forked : list block),
    let res := stream_run c w ps merged_end merged forked in
    snd res <> JInvalidArg \/ fst res = [] ->
    exists X,
      chain_over c (seen c X) res \/ (X = [] /\ res = ([], JFuel)) \/ (X = [] /\ res = ([], JInvalidArg)).

(* hence, for a filter without memory (default, custom): every delivered event passes the filter, the delivered
   events are the passing events of a beginning of X in order, cut at the first passing event numbered at or above S
   (delivered iff numbered S) *)
Definition C13_stop_over_raw : Prop :=
  forall (c : jcfg) (w : world) (ps : list (N * N)) (merged_end : N) (merged forked : list block),
    j_filter c <> 1 ->
    let res := stream_run c w ps merged_end merged forked in
    snd res = JStop ->
    (* the chain reached S on a raw event e ... *)
    (exists X1 e X2, passes c e = true /\ j_stop c <= enum e /\
        Forall (fun x => passes c x = true -> enum x < j_stop c) X1 /\
        fst res = filter (passes c) X1 ++ (if enum e =? j_stop c then [e] else []) /\
        (* X1 ++ e :: X2 is the raw sequence of the run *)
        chain_over c (X1 ++ e :: X2) res) \/
    (* ... or the file source reported the end of the bundle of S *)
    (j_stop c <> 0 /\ (j_stop c / j_bundle c + 1) * j_bundle c <= merged_end).
