(* C13 over whole runs, additions: for EVERY filter, stop block, start mode, world and schedule the stream delivers what
   its handler chain makes of ONE raw sequence X that does not depend on the chain (Spec/C07_Shapes_Spec.v,
   C07_run_shapes, stated there with the three shapes of X): "filters only remove, in unchanged order" and "no event
   above S, block S itself iff the first passing event at or above S is numbered S, then stop-block-reached, whether
   S is reached in files or live" hold of the run itself, not only of the handler chain.
   Final blocks only: the filter also drops a repeated final block (the fix "each final block once": `seen`). *)
From BV Require Import Base.Prelude Model.Block Model.ForkDB Model.Forkable Model.ForkableLookups
  Model.Burst Model.Hub Model.CursorResolver Model.Joining
  Spec.Consumer Spec.Universe Check.Burst_Check Check.C07_Check Spec.C06_Spec Spec.C09_Spec
  Spec.C07_Spec Spec.C13_Spec Spec.C07_Compose_Spec Spec.C07_Shapes_Spec Spec.C07_More_Spec.
Local Open Scope N_scope.

(* the run as the handler chain over a raw sequence: X is a beginning of the file events followed, after a join, by the
   hub's burst and the events of the arrivals; the chain of c (filter, stop block) gives the output and the error *)
Definition C13_run_over_raw : Prop :=
  forall (c : jcfg) (w : world) (ps : list (N * N)) (merged_end : N) (merged forked : list block),
    let res := stream_run c w ps merged_end merged forked in
    snd res <> JInvalidArg \/ fst res = [] ->
    exists X,
      chain_over c (seen c X) res \/ (X = [] /\ res = ([], JFuel)) \/ (X = [] /\ res = ([], JInvalidArg)).

(* hence, for a filter without memory (default, custom): every delivered event passes the filter, the delivered
   events are the passing events of a beginning of X in order, cut at the first passing event numbered at or above S
   (delivered iff numbered S) *)
Definition C13_stop_over_raw : Prop :=
  forall (c : jcfg) (w : world) (ps : list (N * N)) (merged_end : N) (merged forked : list block),
    j_filter c <> 1 ->
    let res := stream_run c w ps merged_end merged forked in
    snd res = JStop ->
    (* the chain reached S on a raw event e ... *)
    (exists X1 e X2, passes c e = true /\ j_stop c <= enum e /\
        Forall (fun x => passes c x = true -> enum x < j_stop c) X1 /\
        fst res = filter (passes c) X1 ++ (if enum e =? j_stop c then [e] else []) /\
        (* X1 ++ e :: X2 is the raw sequence of the run *)
        chain_over c (X1 ++ e :: X2) res) \/
    (* ... or the file source reported the end of the bundle of S *)
    (j_stop c <> 0 /\ (j_stop c / j_bundle c + 1) * j_bundle c <= merged_end).


(* ------------------------------------------------------------------ the stop clause at stream level, target-cursor mode *)

(* "A run that ends with stop-block-reached holds canon from the start point up to block S itself", target-cursor mode:
   the hypotheses of c07_seamless_target_nu (Spec/C07_More_Spec.v: no agreement hypothesis between files, cursor and hub;
   the cursor minted on the chain) and the scope hypothesis "the target cursor is not beyond the stop block".  Without it
   the clause is false: the file source of this mode holds back the blocks between the cursor LIB and the cursor block
   until it has seen the cursor block, it reads the files only up to the bundle of S, and with the cursor block beyond that
   bundle the stream ends with stop-block-reached having delivered nothing above the cursor LIB (the target-mode form of
   c13_stop_full_refuted).
   stop_reached (Spec/C07_More_Spec.v): the chain stopped on the first passing event e numbered at or above S; e is
   delivered iff it is numbered S; when e announces a canonical block it is block S itself if canon has a block numbered
   S, and the consumer then holds, from start on, exactly canon up to block S - whether S is reached in the files, in the
   hub's answer at the join (also the answer for a cursor block stored off the hub's chain) or live; or the file source
   reported the end of the bundle of S, no canonical block is numbered S and the consumer holds the merged blocks from
   start below S. *)
Definition C13_stop_target : Prop :=
  forall (U : list block) (c : jcfg) (w : world) (ps : list (N * N)) (merged_end : N) (canon forked : list block)
         (cu : cursor) (B : block),
    wf_b U = true -> lib_ok_b LNone U = true ->
    hub_of_universe U c w ->
    chain_ok canon -> incl canon U ->
    let merged := filter (fun b => bnum b <? merged_end) canon in
    eventual_tip c w canon ->
    j_mode c = 2 -> j_cursor c = Some cu -> has_nu (j_filter c) (j_custom c) = true ->
    0 < j_bundle c -> Forall (fun b => bnum b < file_bound) merged ->
    In B canon -> bref B = cu_blk cu -> cursor_lib_on canon cu B ->
    rn (cu_blk cu) <= j_stop c ->
    let res := stream_run c w ps merged_end merged forked in
    let start := run_start c w in
    (exists b, In b canon /\ bnum b = start) ->
    exists c', cons_fold_aside cons0 (map as_new (filter is_nu (fst res))) = Some c' /\
               (snd res = JStop -> stop_reached c canon merged start (fst res) (cs_stack c')).

(* ------------------------------------------------------------------ the stop clause at stream level, cursor mode *)

(* The same in cursor mode: the hypotheses of c07_seamless_cursor_nu (Spec/C07_More_Spec.v: the consumer at the cursor
   holds hc, canonical, and hf, pending forked blocks, above the cursor LIB block L), the stop block S is a block of the
   chain and lies beyond the cursor block.  The start point is the first canonical block above L.  A run that ends with
   stop-block-reached stopped on the event that announces block S and the consumer - the forked blocks undone - holds,
   from the start point on, exactly canon up to block S: whether S is reached in the files (after the resolver's Undo /
   Irreversible events), in the hub's answer to the cursor (Undo down to the junction, New up to the head) or at the join,
   or live.  Scope: with the cursor block at or beyond S the consumer already holds block S or the resolver never reaches
   its decision within the bundle of S (c13_stop_full_refuted); with S on a skipped number the file source ends at the
   bundle of S and the statement about what the consumer then holds needs the resolver to have decided
   (c13_stop_cursor_partial has that hypothesis, `reached`). *)
Definition C13_stop_cursor_holds : Prop :=
  forall (U : list block) (c : jcfg) (w : world) (ps : list (N * N)) (merged_end : N) (canon forked : list block)
         (cu : cursor) (L : block) (rest hc hf : list block),
    wf_b U = true -> lib_ok_b LNone U = true ->
    hub_of_universe U c w ->
    chain_ok canon -> incl canon U ->
    let merged := filter (fun b => bnum b <? merged_end) canon in
    eventual_tip c w canon ->
    j_mode c = 1 -> j_cursor c = Some cu -> has_nu (j_filter c) (j_custom c) = true ->
    0 < j_bundle c -> Forall (fun b => bnum b < file_bound) merged ->
    from_num (rn (cu_lib cu)) canon = L :: rest -> bref L = cu_lib cu ->
    cursor_state canon forked cu L hc hf ->
    Forall (fun x => In x U) hf ->
    (cu_step cu = SUndo -> exists X, In X U /\ bref X = cu_blk cu /\ branch_from L (hc ++ hf ++ [X])) ->
    rn (cu_blk cu) < j_stop c -> (exists bS, In bS canon /\ bnum bS = j_stop c) ->
    let res := stream_run c w ps merged_end merged forked in
    let start := match rest with r1 :: _ => bnum r1 | [] => bnum L + 1 end in
    exists c', cons_fold_aside (mkCons (rev (hc ++ hf)) 0 false) (map as_new (filter is_nu (fst res))) = Some c' /\
               (snd res = JStop -> stop_reached c canon merged start (fst res) (cs_stack c')).

(* The scope hypothesis of C13_stop_target is needed: with the target cursor block beyond the bundle of the stop block -
   here stop block 9, bundle 10, target cursor {New, block 14, LIB 6}, start 5 - every other hypothesis of C13_stop_target holds
   and the stream ends with stop-block-reached having delivered blocks 5 and 6 only (the blocks above the cursor LIB are held
   back until the cursor block is seen, and the files are read up to the bundle of S only): canon has block 9 and the consumer
   does not hold it.  The real code does the same (replayed). *)
Definition C13_stop_target_scope_needed : Prop :=
  exists (U : list block) (c : jcfg) (w : world) (ps : list (N * N)) (merged_end : N) (canon forked : list block)
         (cu : cursor) (B : block),
    let merged := filter (fun b => bnum b <? merged_end) canon in
    wf_b U = true /\ lib_ok_b LNone U = true /\ hub_of_universe U c w /\
    chain_ok canon /\ incl canon U /\ eventual_tip c w canon /\
    j_mode c = 2 /\ j_cursor c = Some cu /\ j_filter c = 0 /\ 0 < j_bundle c /\
    Forall (fun b => bnum b < file_bound) merged /\
    In B canon /\ bref B = cu_blk cu /\ cursor_lib_on canon cu B /\
    (exists b, In b canon /\ bnum b = run_start c w) /\
    (exists bS, In bS canon /\ bnum bS = j_stop c) /\
    let res := stream_run c w ps merged_end merged forked in
    snd res = JStop /\ map (fun e => bnum (eblk e)) (fst res) = [run_start c w; run_start c w + 1] /\ run_start c w + 1 < j_stop c.

(* ------------------------------------------------------------------ final blocks only with a stop block *)

(* Final blocks only, from a block number, stop block S a block of the chain: a stream that ends with stop-block-reached
   ended on the event that announces block S as final, and from the start point on it has delivered exactly the canonical
   blocks up to block S itself, S last - each once, in order (C07_final_increasing) - whether S became final in the merged
   files, in the hub's answer at the join or at the start, or live.  (Blocks below start may precede them when the stream
   is live from the start and the hub's LIB is below start: C07_seamless_num_final.)  World hypotheses as there. *)
Definition C13_stop_final_num : Prop :=
  forall (U : list block) (c : jcfg) (w : world) (ps : list (N * N)) (merged_end : N) (canon forked : list block),
    wf_b U = true -> lib_ok_b LNone U = true ->
    hub_of_universe U c w ->
    chain_ok canon -> incl canon U ->
    let merged := filter (fun b => bnum b <? merged_end) canon in
    eventual_tip c w canon ->
    j_mode c = 0 -> j_filter c = 1 ->
    0 < j_bundle c -> Forall (fun b => bnum b < file_bound) merged ->
    let res := stream_run c w ps merged_end merged forked in
    let start := run_start c w in
    (exists b, In b canon /\ bnum b = start) ->
    forall bS, In bS canon -> bnum bS = j_stop c ->
    snd res = JStop ->
    exists pre e, fst res = pre ++ [e] /\ eblk e = bS /\
      from_num start (map eblk (fst res)) = seg_num start (j_stop c) canon.

(* The same resumed from a cursor on a final canonical block L (cursor block = cursor LIB; hypotheses of
   C07_seamless_cursor_final_full), stop block S a block of the chain above the cursor block: the stream that ends with
   stop-block-reached has delivered exactly the canonical blocks above the cursor block up to block S itself, S last. *)
Definition C13_stop_final_cursor : Prop :=
  forall (U : list block) (c : jcfg) (w : world) (ps : list (N * N)) (merged_end : N) (canon forked : list block)
         (cu : cursor) (L : block) (rest : list block),
    wf_b U = true -> lib_ok_b LNone U = true ->
    hub_of_universe U c w ->
    chain_ok canon -> incl canon U ->
    let merged := filter (fun b => bnum b <? merged_end) canon in
    eventual_tip c w canon ->
    j_mode c = 1 -> j_cursor c = Some cu -> j_filter c = 1 ->
    0 < j_bundle c -> Forall (fun b => bnum b < file_bound) merged ->
    on_final_block cu = true ->
    from_num (rn (cu_lib cu)) canon = L :: rest -> bref L = cu_lib cu -> bref L = cu_blk cu ->
    let res := stream_run c w ps merged_end merged forked in
    forall bS, In bS canon -> bnum bS = j_stop c -> rn (cu_lib cu) < j_stop c ->
    snd res = JStop ->
    exists pre e, fst res = pre ++ [e] /\ eblk e = bS /\
      map eblk (fst res) = seg_num (rn (cu_lib cu) + 1) (j_stop c) canon.

(* ... and through a target cursor on a final canonical block (hypotheses of C07_seamless_target_final_full), the target cursor
   not beyond the stop block (the scope of C13_stop_target): from the start block on exactly canon up to block S, S last. *)
Definition C13_stop_final_target : Prop :=
  forall (U : list block) (c : jcfg) (w : world) (ps : list (N * N)) (merged_end : N) (canon forked : list block)
         (cu : cursor) (B : block),
    wf_b U = true -> lib_ok_b LNone U = true ->
    hub_of_universe U c w ->
    chain_ok canon -> incl canon U ->
    let merged := filter (fun b => bnum b <? merged_end) canon in
    eventual_tip c w canon ->
    j_mode c = 2 -> j_cursor c = Some cu -> j_filter c = 1 ->
    0 < j_bundle c -> Forall (fun b => bnum b < file_bound) merged ->
    In B canon -> bref B = cu_blk cu -> cu_lib cu = cu_blk cu ->
    let res := stream_run c w ps merged_end merged forked in
    let start := run_start c w in
    (exists b, In b canon /\ bnum b = start) ->
    forall bS, In bS canon -> bnum bS = j_stop c -> rn (cu_blk cu) <= j_stop c ->
    snd res = JStop ->
    exists pre e, fst res = pre ++ [e] /\ eblk e = bS /\
      from_num start (map eblk (fst res)) = seg_num start (j_stop c) canon.
