(* C04 for HUB BURSTS and for the FILE SOURCE resuming from a cursor: the cursor carried by every event.
   Statements about the EXISTING models Model/Burst.v (blocks_from_num, blocks_from_cursor,
   blocks_through_cursor, hub_through_cursor) and Model/CursorResolver.v (from_cursor_run,
   through_cursor_run), and about the boolean checkers of Check/C04_More.v (cursors_ok, junc_walk,
   c04_file_verdict) that decide the same clauses on the implementation's observations.

   Vocabulary (Spec/C09_Spec.v, Spec/C05_Spec.v, Spec/C05_Through_Spec.v): `wf_state`; `head_chain s hd sg`
   = the hub has a LIB, its head is hd and sg is the head's complete segment (oldest first, the retained
   canonical chain) and reaches the LIB; `seg_blk`; `branch_to d sg id path j` = `path` is the branch of
   stored blocks from block `id` (newest first) down to the first block whose parent `j` is on sg;
   `undos_of c path` = that branch minus the cursor block of an Undo cursor; `cursor_numbered`. *)
From Coq Require Import Sorted.
From BV Require Import Base.Prelude Model.Block Model.ForkDB Model.Forkable Model.ForkableLookups
  Model.Burst Model.CursorResolver Model.Hub Spec.Consumer Spec.Universe Check.Fk_Check Check.Burst_Check
  Check.C06_Check Check.C04_More Spec.C09_Spec Spec.C05_Spec Spec.C05_Through_Spec.
Local Open Scope N_scope.

(* ================================================================== 0. what the checker `cursors_ok` means *)

(* the last block announced irreversible before a position of the stream (or the starting LIB, when known) *)
Fixpoint last_final (start : option ref) (l : list event) : option ref :=
  match l with
  | [] => start
  | e :: l' => last_final (if matches_irr (estep e) then Some (bref (eblk e)) else start) l'
  end.

Definition nu_step (e : event) : Prop := estep e = SNew \/ estep e = SUndo.

(* the cursor clauses of C04 on one stream of events `evs` whose head is `head` and whose starting LIB is
   `start` (None: the consumer starts from a block number, no LIB announced yet); `floor` = a height the
   LIB heights start from *)
Record cursor_discipline (head : ref) (start : option ref) (floor : N) (evs : list event) : Prop := mk_cursor_discipline {
  (* cursor block = the event's block, cursor head = the head *)
  cd_blk : forall e, In e evs -> ecblk e = bref (eblk e);
  cd_head : forall e, In e evs -> ehead e = head;
  (* an Irreversible / New+Irreversible event carries its own block as LIB *)
  cd_irr : forall e, In e evs -> matches_irr (estep e) = true -> elib e = bref (eblk e);
  (* the LIB height never exceeds the block height of a New or Irreversible event *)
  cd_cap : forall e, In e evs -> estep e = SNew \/ estep e = SIrr \/ estep e = SNewIrr -> rn (elib e) <= bnum (eblk e);
  (* a New / Undo event carries the last block announced irreversible so far (or the starting LIB) ... *)
  cd_last : forall l1 e l2 r, evs = l1 ++ e :: l2 -> nu_step e -> last_final start l1 = Some r -> elib e = r;
  (* ... and consecutive New / Undo events carry the same LIB (also when no LIB is known yet) *)
  cd_same : forall l1 e1 e2 l2, evs = l1 ++ e1 :: e2 :: l2 -> nu_step e1 -> nu_step e2 -> elib e1 = elib e2;
  (* the LIB height never decreases along the stream, starting from the floor *)
  cd_mono : StronglySorted (fun a b => rn (elib a) <= rn (elib b)) evs;
  cd_floor : forall e, In e evs -> floor <= rn (elib e) }.

(* soundness of the checker of Check/C04_More.v, for every list of events *)
Definition C04_cursors_ok_sound : Prop :=
  forall head start floor evs,
    cursors_ok (Some head) start floor evs = true -> cursor_discipline head start floor evs.

(* ================================================================== 1. hub bursts *)

(* the hub's LIB block is on the head's segment, recorded under the LIB's number *)
Definition lib_anchored (s : fstate) (sg : list seg) : Prop :=
  exists x, In x sg /\ sid x = ri (libref (db s)) /\ snum x = rn (libref (db s)).

(* the cursor LIB carries the number under which a block of that id is stored (cursors minted by the stream do) *)
Definition lib_numbered (d : forkdb) (c : cursor) : Prop :=
  forall e, find (ri (cu_lib c)) (store d) = Some e -> bnum (eb e) = rn (cu_lib c).

(* the cursor of an event delivered by a sender that goes by the LIB `L`: New above L with cursor LIB L;
   (New+)Irreversible up to L with the block itself as cursor LIB ("LIB capped at the block") *)
Definition capped_by (L : ref) (e : event) : Prop :=
  ecblk e = bref (eblk e) /\ ejunc e = None /\
  ((estep e = SNew /\ elib e = L /\ rn L < bnum (eblk e)) \/
   ((estep e = SNewIrr \/ estep e = SIrr) /\ elib e = bref (eblk e) /\ bnum (eblk e) <= rn L)).

(* an Undo event of a burst answering cursor c: it carries the cursor's LIB and names the junction jr *)
Definition undo_of (c : cursor) (jr : ref) (e : event) : Prop :=
  estep e = SUndo /\ ecblk e = bref (eblk e) /\ elib e = cu_lib c /\ ejunc e = Some jr.

(* the junction named by the undo events: the block xj of the head's chain (the adopted branch) on which the
   branch of the cursor block (the abandoned branch) hangs - their common ancestor; the blocks undone are
   that branch, newest first (minus the cursor block when the cursor says it was undone already) *)
Definition junction_of (s : fstate) (sg : list seg) (c : cursor) (undos : list event) (jr : ref) : Prop :=
  exists path j xj,
    branch_to (db s) sg (ri (cu_blk c)) path j /\
    In xj sg /\ sid xj = j /\ jr = bref (seg_blk xj) /\
    (exists pre u, path = pre ++ [u] /\ bparent (seg_blk u) = bid (seg_blk xj)) /\
    map eblk undos = map seg_blk (undos_of c path).

Definition heads (hd : block) (evs : list event) : Prop := Forall (fun e => ehead e = bref hd) evs.

(* --- SourceFromBlockNum: every event goes by the hub LIB --- *)
Definition C04_burst_from_num : Prop :=
  forall s hd sg n evs,
    wf_state s -> head_chain s hd sg -> lib_anchored s sg ->
    blocks_from_num s n = BOk evs ->
    heads hd evs /\
    Forall (fun e => capped_by (libref (db s)) e /\ estep e <> SIrr) evs /\
    cursors_ok (Some (bref hd)) None 0 evs = true /\
    (forall fuel st, junc_walk fuel st evs = true).

(* --- SourceFromCursor --- *)
Definition C04_burst_from_cursor : Prop :=
  forall s hd sg c evs,
    wf_state s -> head_chain s hd sg -> lib_anchored s sg ->
    lib_numbered (db s) c ->
    rn (cu_lib c) <= rn (libref (db s)) ->             (* the cursor LIB is not above the hub LIB *)
    blocks_from_cursor s c = BOk evs ->
    exists undos rest jr,
      evs = undos ++ rest /\
      heads hd evs /\
      (* first the undo events: cursor LIB, junction *)
      Forall (undo_of c jr) undos /\
      (undos = [] \/ junction_of s sg c undos jr) /\
      (* then the chain above the cursor LIB, by the hub LIB *)
      Forall (fun e => capped_by (libref (db s)) e /\ rn (cu_lib c) < bnum (eblk e)) rest /\
      (* the checker accepts: cursor LIB = last block announced irreversible (starting from the cursor LIB),
         LIB heights never decrease, starting from the height of the cursor LIB (Check/C04_More.v calls it
         with floor 0, which is weaker) *)
      cursors_ok (Some (bref hd)) (Some (cu_lib c)) (rn (cu_lib c)) evs = true /\
      cursors_ok (Some (bref hd)) (Some (cu_lib c)) 0 evs = true /\
      (* the junction is the block the consumer's stack rests on once the undo batch is applied: for a consumer
         that holds the undone blocks on top of `below` *)
      (forall fuel below, match below with top :: _ => bref top = jr | [] => True end ->
                          junc_walk fuel (map eblk undos ++ below) evs = true).

(* the same for the consumer of c05_resume_partial: it holds P (what lies up to the cursor LIB: empty, or ending
   with the junction when the junction is the cursor LIB block), the chain elements in (cursor LIB, junction] and the
   undone branch *)
Definition C04_burst_junction_consumer : Prop :=
  forall s hd sg c path j je P evs,
    wf_state s -> head_chain s hd sg ->
    block_in (ri (cu_blk c)) sg = false ->
    branch_to (db s) sg (ri (cu_blk c)) path j -> find j (store (db s)) = Some je ->
    let jc := junction_cursor hd c (mkR j (bnum (eb je))) in
    (held_seg jc sg = [] -> P = [] \/ exists P', P = P' ++ [eb je]) ->
    blocks_from_cursor s c = BOk evs ->
    forall fuel,
      junc_walk fuel (rev (P ++ map seg_blk (held_seg jc sg) ++ map seg_blk (rev (undos_of c path)))) evs = true.

(* --- SourceThroughCursor (hub.SourceThroughCursor: a plain snapshot when the cursor block is below start) --- *)
Definition through_cursor_hyps (s : fstate) (sg : list seg) (c : cursor) : Prop :=
  lib_numbered (db s) c /\ rn (cu_lib c) <= rn (libref (db s)) /\ cursor_numbered (db s) c /\
  (* the cursor LIB is not above the junction *)
  (forall path j je, branch_to (db s) sg (ri (cu_blk c)) path j -> find j (store (db s)) = Some je ->
                     rn (cu_lib c) <= bnum (eb je)).

Definition C04_burst_through : Prop :=
  forall s hd sg start c evs,
    wf_state s -> head_chain s hd sg -> lib_anchored s sg ->
    (* needed only when the cursor block is off the head's chain and not below start *)
    (block_in (ri (cu_blk c)) sg = false -> start <= rn (cu_blk c) -> through_cursor_hyps s sg c) ->
    hub_through_cursor s start c = BOk evs ->
    exists own undos rest jr,
      evs = own ++ undos ++ rest /\
      heads hd evs /\
      (* the cursor's own branch from start: by the CURSOR LIB *)
      Forall (capped_by (cu_lib c)) own /\
      (* undone down to the junction *)
      Forall (undo_of c jr) undos /\
      (undos = [] \/ junction_of s sg c undos jr) /\
      (* the head's chain: by the hub LIB; above the cursor LIB when anything precedes *)
      Forall (capped_by (libref (db s))) rest /\
      (own ++ undos <> [] -> Forall (fun e => rn (cu_lib c) < bnum (eblk e)) rest) /\
      cursors_ok (Some (bref hd)) None 0 evs = true /\
      (forall fuel, junc_walk fuel [] evs = true).

Definition C04_burst_cursors : Prop :=
  C04_cursors_ok_sound /\ C04_burst_from_num /\ C04_burst_from_cursor /\ C04_burst_junction_consumer /\ C04_burst_through.

(* the clauses of the property, written out (cursor_discipline), for the three bursts *)
Definition C04_burst_discipline : Prop :=
  forall s hd sg,
    wf_state s -> head_chain s hd sg -> lib_anchored s sg ->
    (forall n evs, blocks_from_num s n = BOk evs -> cursor_discipline (bref hd) None 0 evs) /\
    (forall c evs, lib_numbered (db s) c -> rn (cu_lib c) <= rn (libref (db s)) ->
       blocks_from_cursor s c = BOk evs ->
       cursor_discipline (bref hd) (Some (cu_lib c)) (rn (cu_lib c)) evs) /\
    (forall start c evs,
       (block_in (ri (cu_blk c)) sg = false -> start <= rn (cu_blk c) -> through_cursor_hyps s sg c) ->
       hub_through_cursor s start c = BOk evs -> cursor_discipline (bref hd) None 0 evs).

(* ================================================================== 2. the file source resuming from a cursor *)

(* block numbers do not decrease along the merged files (every chain is) *)
Definition num_sorted (l : list block) : Prop := StronglySorted (fun a b => bnum a <= bnum b) l.

(* an Undo event of the resolver: cursor LIB and cursor HEAD of the cursor it resumes from, junction jr *)
Definition file_undo (c : cursor) (jr : ref) (e : event) : Prop :=
  estep e = SUndo /\ ecblk e = bref (eblk e) /\ ehead e = cu_head c /\ elib e = cu_lib c /\ ejunc e = Some jr.

(* a block read from the files: final, its own cursor block, head and LIB *)
Definition file_final (e : event) : Prop :=
  (estep e = SIrr \/ estep e = SNewIrr) /\ ecblk e = bref (eblk e) /\ ehead e = bref (eblk e) /\
  elib e = bref (eblk e) /\ ejunc e = None.

(* the checker's walk of Check/C04_More.c04_file_verdict, as a top-level function *)
Fixpoint file_walk (chead : ref) (last : option ref) (prevlib : N) (l : list event) : bool :=
  match l with
  | [] => true
  | e :: l' =>
      ref_eqb (ecblk e) (bref (eblk e)) && (prevlib <=? rn (elib e)) &&
      match estep e with
      | SUndo => match last with Some r => ref_eqb (elib e) r | None => true end &&
                 ref_eqb (ehead e) chead && file_walk chead last (rn (elib e)) l'
      | SIrr | SNewIrr => ref_eqb (elib e) (bref (eblk e)) && ref_eqb (ehead e) (bref (eblk e)) &&
                          file_walk chead (Some (elib e)) (rn (elib e)) l'
      | _ => false
      end
  end.

Definition file_stream (c : cursor) (pass : bool) (delivered : list block) (evs : list event) : Prop :=
  exists undos files jr,
    evs = undos ++ files /\
    Forall (file_undo c jr) undos /\
    (pass = true -> undos = []) /\
    (undos <> [] -> exists j, In j delivered /\ jr = bref j) /\
    Forall file_final files /\
    Forall (fun e => In (eblk e) delivered) files /\
    (* LIB heights never decrease *)
    StronglySorted (fun a b => rn (elib a) <= rn (elib b)) evs /\
    (* from a cursor: never below the cursor LIB *)
    (pass = false -> Forall (fun e => rn (cu_lib c) <= rn (elib e)) evs) /\
    (* the checker accepts *)
    file_walk (cu_head c) (if pass then None else Some (cu_lib c)) 0 evs = true.

Definition C04_file_cursors : Prop :=
  (forall canon forked c stop bundle,
     num_sorted canon ->
     file_stream c false (file_delivery canon (rn (cu_lib c)) stop bundle)
                 (fst (from_cursor_run canon forked c stop bundle))) /\
  (forall canon forked start c stop bundle,
     num_sorted canon ->
     file_stream c true (file_delivery canon start stop bundle)
                 (fst (through_cursor_run canon forked start c stop bundle))) /\
  (* the verdict of Check/C04_More.v on a case whose observed events are the model's *)
  (forall k, num_sorted (x_canon k) ->
     x_events k = fst (if x_pass k then through_cursor_run (x_canon k) (x_forked k) (x_start k) (x_cur k) (x_stop k) (x_bundle k)
                       else from_cursor_run (x_canon k) (x_forked k) (x_cur k) (x_stop k) (x_bundle k)) ->
     c04_file_verdict k = 0).

(* ================================================================== 3. cursors minted by the same history *)

(* For every New / Undo event ek of the stream of a hub-configured Forkable and every later instant m at which the
   hub has a head whose segment reaches the LIB and contains the cursor LIB: the hypotheses of
   C04_burst_from_cursor / C04_burst_through hold for the cursor of ek, the burst is served, its events are accepted
   by the checker with head = the top of the never-disconnected consumer and starting LIB = the cursor LIB, and
   the junction walk from the stack of the consumer at ek succeeds. *)
Definition C04_burst_history : Prop :=
  forall first kept (h : list block) (k m : nat) ek ck hd sg,
    wf_b h = true -> lib_ok_b LNone h = true ->
    let cfg := hub_config first kept in
    let tr := fk_run cfg (fs_init LNone) h in
    let upto n := concat (map fst (firstn n tr)) in
    let s := state_after cfg (fs_init LNone) h m in
    nth_error (upto (length tr)) k = Some ek -> (estep ek = SNew \/ estep ek = SUndo) ->
    (k < length (upto m))%nat ->
    cons_fold cons0 (firstn (S k) (upto (length tr))) = Some ck ->
    last_sent s = Some hd -> complete_segment (db s) (bref hd) = Some (sg, true) ->
    block_in (ri (elib ek)) sg = true ->
    let c := ev_cursor ek in
    (* the hypotheses of C04_burst_from_cursor and C04_burst_through *)
    wf_state s /\ head_chain s hd sg /\ lib_anchored s sg /\
    lib_numbered (db s) c /\ rn (cu_lib c) <= rn (libref (db s)) /\
    (block_in (ri (cu_blk c)) sg = false -> through_cursor_hyps s sg c) /\
    exists cm evs,
      cons_fold cons0 (upto m) = Some cm /\
      (exists rest, cs_stack cm = hd :: rest) /\       (* the hub head is the top of the never-disconnected consumer *)
      blocks_from_cursor s c = BOk evs /\
      cursors_ok (Some (bref hd)) (Some (cu_lib c)) (rn (cu_lib c)) evs = true /\
      cursors_ok (Some (bref hd)) (Some (cu_lib c)) 0 evs = true /\
      (forall fuel, junc_walk fuel (cs_stack ck) evs = true).
