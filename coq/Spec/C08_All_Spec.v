(* C08 — the statements with "every event the hub produces" = EVERY event the hub's Forkable hands to
   hub.processBlock, before readiness too (finding W1-C08-2).

   Spec/C08_Spec.v and Spec/C08_Sched_Spec.v build the events of a live block on Model/Hub.v [hub_live],
   which reports them only while the hub is ready ([] for every block processed before readiness,
   including the block that makes the hub ready, nothing for the one-block files fed by a bootstrap pass).
   The real ForkableHub installs processBlock as the Forkable's handler in NewForkableHub, and the
   SourceFrom* requests do not test the ready flag: a subscription obtained from a hub that is not ready
   yet receives all of these events (replay: notes_proof_W1/c08_audit_test.go,
   TestW1_C08_SubscribedBeforeReadyReceivesEverything).  For a start state that is not ready the old
   statements therefore describe an event stream the real hub does not produce.  The code is right; the
   model was not.

   Here the events of a live block are Model/HubAll.v [hub_live_all]: in the ready branch as hub_live; in
   the not-ready branches the events of the bootstrap feed (the one-block files, in order, until the first
   error) followed by the events of the Forkable's step on the live block itself.  The resulting hub and
   result are those of hub_live ([C08_live_all_same_hub]), for a ready hub the two functions agree
   ([C08_live_all_ready]), and hub_live never reports an event hub_live_all does not
   ([C08_live_events_sub]); what hub_live_all reports is exactly what the Forkable delivered on its way from
   the old to the new Forkable state ([C08_live_all_is_forkable]).

   The C08 statements themselves do not depend on WHICH events a block produces: they are proved once for
   an arbitrary production function hp (Spec/C08_Gen_Spec.v, Spec/C08_Sched_Gen_Spec.v) and instantiated
   here with hp := [hub_push_all first kept pf], where pf b is what the one-block store offers when the
   live block b arrives (PNil: no one-block source; PBlocks l: the source plays l from the computed start
   block on).  pf is universally quantified: any content of the store, changing from block to block (a
   live block presented twice meets the same store content: the only restriction).  Every start state sh0 /
   h0 is allowed, ready or not.

   Schedule level.  Model/HubSchedG.v is Model/HubSched.v with the producer's Forkable step = hp.  The
   statements are given for [no_pass] (the one-block store offers nothing while the schedule runs): then
   hub_live_all is at most ONE Forkable.ProcessBlock call whether the hub is ready or not, i.e. exactly one
   critical section of the write lock, which is what the model's producer step is.  With a non-empty feed
   the one-block files are separate ProcessBlock calls on the same goroutine, each with its own
   Lock/Unlock, and a request can be served between two of them; the generic theorems
   (Properties/C08_All.v, c08_gen_sched_...) hold for that hp as well, but the model is then coarser than the
   code: not claimed. *)
From BV Require Import Base.Prelude Model.Block Model.ForkDB Model.Forkable Model.ForkableLookups
  Model.Burst Model.Hub Model.HubSubs Model.HubAll Model.HubSched Model.HubSchedG
  Spec.C08_Spec Spec.C08_Gen_Spec Spec.C08_Sched_Spec Spec.C08_Sched_Gen_Spec.
Local Open Scope N_scope.

(* ================================================================ 0. hub_live_all against hub_live *)

Definition C08_live_all_same_hub : Prop :=
  forall first kept h p b,
    fst (fst (hub_live_all first kept h p b)) = fst (fst (hub_live first kept h p b)) /\
    snd (hub_live_all first kept h p b) = snd (hub_live first kept h p b).

Definition C08_live_all_ready : Prop :=
  forall first kept h p b, h_ready h = true -> hub_live_all first kept h p b = hub_live first kept h p b.

Definition C08_live_events_sub : Prop :=
  forall first kept h p b,
    snd (fst (hub_live first kept h p b)) = [] \/
    snd (fst (hub_live first kept h p b)) = snd (fst (hub_live_all first kept h p b)).

(* the Forkable fed with a list of blocks, every call made (errors ignored), all events kept *)
Fixpoint fk_all (cfg : config) (s : fstate) (l : list block) : fstate * list event :=
  match l with
  | [] => (s, [])
  | b :: l' => let '(s', evs, _) := fk_step cfg s b in
               let '(s2, evs2) := fk_all cfg s' l' in (s2, evs ++ evs2)
  end.

(* no event of the Forkable is lost and none is invented: the events hub_live_all reports are those of the
   ProcessBlock calls that take the Forkable from its old to its new state; the live block is the last of
   them (unless it is dropped: no call at all), the others are one-block files of the pass *)
Definition C08_live_all_is_forkable : Prop :=
  forall first kept h p b,
    exists l,
      (h_f (fst (fst (hub_live_all first kept h p b))), snd (fst (hub_live_all first kept h p b)))
      = fk_all (hub_config first kept) (h_f h) l /\
      (l = [] \/ exists fed, l = fed ++ [b] /\
                             forall x, In x fed -> exists bl, p = PBlocks bl /\ In x bl).

(* ================================================================ 1. operation sequences *)

Definition run_all (first kept : N) (pf : block -> pass) := run_g (hub_push_all first kept pf).
Definition hub_after_all (first kept : N) (pf : block -> pass) := hub_after_g (hub_push_all first kept pf).
Definition push_events_all (first kept : N) (pf : block -> pass) := push_events_g (hub_push_all first kept pf).

(* C08_exactly_once of Spec/C08_Spec.v, spelled out with the faithful functions.  sh0: ANY hub (ready or
   not) with any registered subscriptions. *)
Definition C08_exactly_once_all : Prop :=
  forall first kept pf sh0 pre r post burst,
    let h1 := hub_after_all first kept pf (sh_hub sh0) (pushes pre) in
    request_burst h1 r = Some burst ->
    let i := length (sh_subs (hs_sh (run_all first kept pf (start sh0) pre))) in
    let expected := burst ++ map QEv (push_events_all first kept pf h1 (pushes post)) in
    exists s got,
      hview (run_all first kept pf (start sh0) (pre ++ OSub r :: post)) i = Some (s, got) /\
      ms_cap s = 100 + N.of_nat (length burst) /\
      (* not dropped: burst, then every later event, in order, exactly once *)
      (ms_dropped s = false -> got ++ ms_queue s = expected) /\
      (* dropped: at event e of a later push, with capacity-many items pending; a prefix was delivered *)
      (ms_dropped s = true ->
         exists post1 b post2 evs1 e evs2 s1 got1,
           post = post1 ++ OPush b :: post2 /\
           snd (hub_push_all first kept pf (hub_after_all first kept pf h1 (pushes post1)) b) = evs1 ++ e :: evs2 /\
           hview (run_all first kept pf (start sh0) (pre ++ OSub r :: post1)) i = Some (s1, got1) /\
           ms_dropped s1 = false /\
           N.of_nat (length (ms_queue s1 ++ map QEv evs1)) = ms_cap s1 /\
           got ++ ms_queue s = got1 ++ ms_queue s1 ++ map QEv evs1 /\
           got ++ ms_queue s = burst ++ map QEv (push_events_all first kept pf h1 (pushes post1)) ++ map QEv evs1 /\
           exists rest, expected = (got ++ ms_queue s) ++ rest).

(* the other statements of Spec/C08_Spec.v part B, as instances of Spec/C08_Gen_Spec.v *)
Definition C08_refused_all : Prop :=
  forall first kept pf, C08_refused_g (hub_push_all first kept pf).
Definition C08_isolation_hub_all : Prop :=
  forall first kept pf, C08_isolation_hub_g (hub_push_all first kept pf).
Definition C08_isolation_subs_all : Prop :=
  forall first kept pf, C08_isolation_subs_g (hub_push_all first kept pf).
Definition C08_lone_all : Prop :=
  forall first kept pf, C08_lone_g (hub_push_all first kept pf).
Definition C08_registration_atomic_all : Prop :=
  forall first kept pf, C08_registration_atomic_g (hub_push_all first kept pf).

(* what the faithful stream adds, stated on the hub alone: the events of the blocks pushed while the hub
   is not ready are those of the Forkable (bootstrap feed, then the block), not [] *)
Definition C08_push_events_all_not_ready : Prop :=
  forall first kept pf h b bs,
    h_ready h = false ->
    push_events_all first kept pf h (b :: bs)
    = snd (fst (hub_live_all first kept h (pf b) b))
      ++ push_events_all first kept pf (fst (fst (hub_live first kept h (pf b) b))) bs.

(* ... and from a ready hub on, with an empty pass, nothing changes: the old statements were right there *)
Definition no_pass : block -> pass := fun _ => PBlocks [].

Definition C08_all_ready_same : Prop :=
  forall first kept pf h bs st ops,
    h_ready h = true -> h_ready (sh_hub (hs_sh st)) = true ->
    push_events_all first kept pf h bs = push_events first kept h bs /\
    hub_after_all first kept pf h bs = hub_after first kept h bs /\
    run_all first kept pf st ops = run first kept st ops.

(* ================================================================ 2. schedules (Model/HubSchedG.v) *)

Definition hp_all (first kept : N) : hprod := hub_push_all first kept no_pass.

Definition C08_sched_serializable_all : Prop := forall first kept, C08_sched_serializable_g (hp_all first kept).
Definition C08_sched_mutual_exclusion_all : Prop := forall first kept, C08_sched_mutual_exclusion_g (hp_all first kept).
Definition C08_sched_burst_append_atomic_all : Prop := forall first kept, C08_sched_burst_append_atomic_g (hp_all first kept).
Definition C08_sched_no_lost_registration_all : Prop := forall first kept, C08_sched_no_lost_registration_g (hp_all first kept).
Definition C08_sched_registration_atomic_all : Prop := forall first kept, C08_sched_registration_atomic_g (hp_all first kept).
Definition C08_sched_isolation_all : Prop := forall first kept, C08_sched_isolation_g (hp_all first kept).
Definition C08_sched_no_deadlock_all : Prop := forall first kept, C08_sched_no_deadlock_g (hp_all first kept).
Definition C08_sched_hub_unaffected_all : Prop := forall first kept, C08_sched_hub_unaffected_g (hp_all first kept).
Definition C08_serial_hub_all : Prop := forall first kept, C08_serial_hub_g (hp_all first kept).
Definition C08_serial_lone_all : Prop := forall first kept, C08_serial_lone_g (hp_all first kept).
Definition C08_serial_exactly_once_all : Prop := forall first kept, C08_serial_exactly_once_g (hp_all first kept).
Definition C08_serial_isolation_all : Prop := forall first kept, C08_serial_isolation_g (hp_all first kept).
Definition C08_seq_embeds_all : Prop := forall first kept, C08_seq_embeds_g (hp_all first kept).

(* C08_sched_exactly_once and C08_sched_complete_delivery spelled out: every schedule of the goroutines,
   every script of live blocks, every request list, every initial hub h0 — ready or not *)
Definition C08_sched_exactly_once_all : Prop :=
  forall first kept h0 script reqs sched p i,
    let hp := hp_all first kept in
    let st := crun_g true hp (cinit h0 script reqs) sched in
    nth_error (g_order st) p = Some i ->
    exists c pre post burst,
      nth_error (g_reqs st) i = Some c /\
      map snd (serial st) = pre ++ XSub (r_req c) :: post /\
      request_burst (hub_after_g hp h0 (blocks pre)) (r_req c) = Some burst /\
      let s := sub_done st i in
      let x0 := xstart (mkSH h0 []) in
      ms_cap s = 100 + N.of_nat (length burst) /\
      (ms_dropped s = false -> r_got c ++ ms_queue s = burst ++ map QEv (fans post)) /\
      (ms_dropped s = true ->
         exists post1 e post2 s1 got1,
           post = post1 ++ XFan e :: post2 /\
           xview (xrun_g hp x0 (pre ++ XSub (r_req c) :: post1)) p = Some (s1, got1) /\
           ms_dropped s1 = false /\
           N.of_nat (length (ms_queue s1)) = ms_cap s1 /\
           r_got c ++ ms_queue s = burst ++ map QEv (fans post1)).

Definition C08_sched_complete_delivery_all : Prop :=
  forall first kept h0 script reqs sched p i,
    let hp := hp_all first kept in
    let st := crun_g true hp (cinit h0 script reqs) sched in
    finished st -> nth_error (g_order st) p = Some i ->
    exists c s before after burst,
      nth_error (g_reqs st) i = Some c /\ r_sub c = Some s /\
      script = before ++ after /\
      let h1 := hub_after_g hp h0 before in
      request_burst h1 (r_req c) = Some burst /\
      (ms_dropped s = false -> r_got c = burst ++ map QEv (push_events_g hp h1 after)) /\
      (ms_dropped s = true ->
         exists evs1 e evs2, push_events_g hp h1 after = evs1 ++ e :: evs2 /\
                             r_got c = burst ++ map QEv evs1).

(* the old schedule model is the instance hp := hub_push first kept; for a ready initial hub the faithful
   instance and the old one are the same runs *)
Definition C08_sched_all_ready_same : Prop :=
  forall first kept h0 script reqs sched,
    crun_g true (hub_push first kept) (cinit h0 script reqs) sched = crun true first kept (cinit h0 script reqs) sched /\
    (h_ready h0 = true ->
     crun_g true (hp_all first kept) (cinit h0 script reqs) sched = crun true first kept (cinit h0 script reqs) sched).

(* ================================================================ 3. for EVERY event production function
   (the form in which the statements are proved; sections 1 and 2 are instances) *)

Definition C08_gen_exactly_once : Prop := forall hp : hprod, C08_exactly_once_g hp.
Definition C08_gen_refused : Prop := forall hp : hprod, C08_refused_g hp.
Definition C08_gen_isolation_hub : Prop := forall hp : hprod, C08_isolation_hub_g hp.
Definition C08_gen_isolation_subs : Prop := forall hp : hprod, C08_isolation_subs_g hp.
Definition C08_gen_lone : Prop := forall hp : hprod, C08_lone_g hp.
Definition C08_gen_registration_atomic : Prop := forall hp : hprod, C08_registration_atomic_g hp.
Definition C08_gen_serial_hub : Prop := forall hp : hprod, C08_serial_hub_g hp.
Definition C08_gen_serial_lone : Prop := forall hp : hprod, C08_serial_lone_g hp.
Definition C08_gen_serial_exactly_once : Prop := forall hp : hprod, C08_serial_exactly_once_g hp.
Definition C08_gen_serial_isolation : Prop := forall hp : hprod, C08_serial_isolation_g hp.
Definition C08_gen_seq_embeds : Prop := forall hp : hprod, C08_seq_embeds_g hp.
Definition C08_gen_sched_serializable : Prop := forall hp : hprod, C08_sched_serializable_g hp.
Definition C08_gen_sched_mutual_exclusion : Prop := forall hp : hprod, C08_sched_mutual_exclusion_g hp.
Definition C08_gen_sched_burst_append_atomic : Prop := forall hp : hprod, C08_sched_burst_append_atomic_g hp.
Definition C08_gen_sched_no_lost_registration : Prop := forall hp : hprod, C08_sched_no_lost_registration_g hp.
Definition C08_gen_sched_registration_atomic : Prop := forall hp : hprod, C08_sched_registration_atomic_g hp.
Definition C08_gen_sched_exactly_once : Prop := forall hp : hprod, C08_sched_exactly_once_g hp.
Definition C08_gen_sched_isolation : Prop := forall hp : hprod, C08_sched_isolation_g hp.
Definition C08_gen_sched_hub_unaffected : Prop := forall hp : hprod, C08_sched_hub_unaffected_g hp.
Definition C08_gen_sched_complete_delivery : Prop := forall hp : hprod, C08_sched_complete_delivery_g hp.
Definition C08_gen_sched_no_deadlock : Prop := forall hp : hprod, C08_sched_no_deadlock_g hp.
