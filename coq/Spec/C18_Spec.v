(* C18 — readable statement: the fork buffer (ForkDB inside Forkable) is bounded by the window above
   the LIB, keeps what it received at or above that window, and its lookups never crash.

   Property text.  "After every LIB move the fork-aware buffer holds no block below LIB minus the
   configured retention, and it always returns, by hash and by number, every block it received at or
   above the LIB on any fork.  Its canonical lookup at a height present on the consumer's chain
   returns exactly that chain's block, its head information equals the last block delivered as New,
   and its lowest servable number is the first block of the contiguous retained chain ending at the
   head."

   What is stated here.
   * [C18_full] is the whole property, as "every run of the model passes the boolean form of the
     property that the checker evaluates on the implementation" (Check/Fk_Props_Check.v: c18_prop).
   * The first sentence (bound + retention, by hash and by number) and "no lookup crashes" are stated
     at STEP level, for EVERY configuration, EVERY state (also ill-formed ones: duplicate ids, parent
     cycles, no LIB) and EVERY incoming block, and lifted to every state of every run of
     [fk_states].  They need no invariant of the Forkable: the only writers of [store] are [put]
     (AddLink), [set_sent] (processNewBlocks) and the [filter] of PurgeBeforeLIB.
   * The canonical-lookup, head-information and lowest-servable clauses need the chain invariant of the
     Forkable (C01-C03); they are only part of [C18_full]. *)
From BV Require Import Base.Prelude Model.Block Model.ForkDB Model.Forkable Model.ForkableLookups
  Check.Fk_Check Check.Fk_Props_Check.
Local Open Scope N_scope.

(* ---------------------------------------------------------------- vocabulary *)

(* the lowest number PurgeBeforeLIB keeps: LIB - kept, saturating at 0 like the uint64 code *)
Definition cutoff (d : forkdb) (kept : N) : N := rn (libref d) - kept.

Definition bounded (d : forkdb) (kept : N) : Prop :=
  Forall (fun e => cutoff d kept <= bnum (eb e)) (store d).

(* e' is the entry e: the same block; the sent-as-new flag may have been raised, never lowered *)
Definition same_block (e e' : entry) : Prop := eb e' = eb e /\ (esent e = true -> esent e' = true).

Definition holds (s : fstate) (e : entry) : Prop :=
  exists e', In e' (store (db s)) /\ same_block e e'.

(* ---------------------------------------------------------------- PurgeBeforeLIB *)

Definition C18_purge_bound : Prop :=
  forall d kept,
    let d' := purge_before_lib d kept in
    libref d' = libref d /\
    (* nothing below the cutoff is left *)
    bounded d' kept /\
    (* everything at or above it stays, in unchanged order (the purged store is a filter of the old) *)
    (forall e, In e (store d) -> cutoff d kept <= bnum (eb e) -> In e (store d')) /\
    store d' = filter (fun e => cutoff d kept <=? bnum (eb e)) (store d).

(* ---------------------------------------------------------------- one ProcessBlock step *)

(* the early exits of ProcessBlock before AddLink, named *)
Definition below_lib (s : fstate) (b : block) : bool :=
  (bnum b <? rn (libref (db s))) && (match last_sent s with Some _ => true | None => false end).

Definition incl_path (cfg : config) (s : fstate) (b : block) : bool :=
  c_incl cfg && (match last_sent s with None => true | Some _ => false end) && (bid b =? ri (libref (db s))).

(* the undo/redo segments computed BEFORE AddLink; its panic / fuel outcomes return before the block
   is stored *)
Definition fk_switch (cfg : config) (s : fstate) (b : block) : scss_result :=
  if f_undo (c_filter cfg) && triggers cfg s b then
    match last_sent s with
    | Some ls => sent_chain_switch_segments (db s) (bid ls) (bparent b)
    | None => ScssOk [] [] None
    end
  else ScssOk [] [] None.

(* ProcessBlock reaches AddLink with this block and AddLink does not refuse it: not its own parent,
   not below the LIB once something was sent, id not empty, chain-switch computation not failed *)
Definition takes_incoming (cfg : config) (s : fstate) (b : block) : bool :=
  negb (bid b =? bparent b) && negb (below_lib s b) && negb (bid b =? 0) &&
  (incl_path cfg s b || match fk_switch cfg s b with ScssOk _ _ _ => true | _ => false end).

(* ... and it is written (AddLink ignores an id whose link is already known) *)
Definition stores_incoming (cfg : config) (s : fstate) (b : block) : bool :=
  takes_incoming cfg s b && negb (exists_link (db s) (bid b)).

(* c18_step_bounded: a step that moves an existing LIB leaves nothing below LIB' - kept.
   (The hypothesis [has_lib (db s) = true] excludes only the LIB DISCOVERY step of a Forkable started
   without LIB: SetLIB does not purge; see notes_proof_C18.md.) *)
Definition C18_step_bounded : Prop :=
  forall cfg s b s' evs r,
    fk_step cfg s b = (s', evs, r) ->
    has_lib (db s) = true ->
    libref (db s') <> libref (db s) ->
    bounded (db s') (c_kept cfg).

(* the store AddLink leaves behind: the incoming block appended (or written over the link-less entry
   with its id) when it is stored, else the store as it was *)
Definition after_add (cfg : config) (s : fstate) (b : block) : list entry :=
  if stores_incoming cfg s b then put (mkEntry b false) (store (db s)) else store (db s).

(* c18_step_purge_or_keep: for EVERY step (LIB discovery included) the only removal is the purge:
   either nothing is removed at all, or what is left is bounded by the cutoff of the new LIB *)
Definition C18_step_purge_or_keep : Prop :=
  forall cfg s b s' evs r,
    fk_step cfg s b = (s', evs, r) ->
    (forall e, In e (after_add cfg s b) -> holds s' e) \/ bounded (db s') (c_kept cfg).

(* c18_step_retained: whatever was stored at or above the new cutoff is still stored.
   (An entry whose parent id is empty has no link — Exists() is false for it — so AddLink of a block
   with the same id overwrites it: that entry is the only one a step can replace.) *)
Definition C18_step_retained : Prop :=
  forall cfg s b s' evs r e,
    fk_step cfg s b = (s', evs, r) ->
    In e (store (db s)) ->
    (bid (eb e) = bid b -> bparent (eb e) <> 0) ->
    cutoff (db s') (c_kept cfg) <= bnum (eb e) ->
    holds s' e.

(* c18_step_incoming: exactly when the incoming block is in the buffer after the step *)
Definition C18_step_incoming : Prop :=
  forall cfg s b s' evs r,
    fk_step cfg s b = (s', evs, r) ->
    (* taken and new: stored, unless already below the new cutoff *)
    (stores_incoming cfg s b = true -> cutoff (db s') (c_kept cfg) <= bnum b -> holds s' (mkEntry b false)) /\
    (* taken but its id already has a link: the buffer is unchanged (the id stays known) *)
    (takes_incoming cfg s b = true -> exists_link (db s) (bid b) = true -> store (db s') = store (db s)) /\
    (* nothing else ever enters: every entry after the step was there before, or is the stored block *)
    (forall e', In e' (store (db s')) ->
       (exists e, In e (store (db s)) /\ same_block e e') \/
       (stores_incoming cfg s b = true /\ eb e' = b)).

(* consequently the two lookups find it *)
Definition C18_step_found : Prop :=
  forall cfg s b s' evs r,
    fk_step cfg s b = (s', evs, r) ->
    takes_incoming cfg s b = true ->
    cutoff (db s') (c_kept cfg) <= bnum b ->
    get_block_by_hash s' (bid b) = true /\
    (exists_link (db s) (bid b) = false ->
       exists l, all_blocks_at s' (bnum b) = Some l /\ In (bid b) l).

(* and every retained entry is found, too *)
Definition C18_held_found : Prop :=
  forall s e, holds s e ->
    get_block_by_hash s (bid (eb e)) = true /\
    exists l, all_blocks_at s (bnum (eb e)) = Some l /\ In (bid (eb e)) l.

(* c18_lookups_total: no panic outcome, for every state *)
Definition C18_lookups_total : Prop :=
  forall s, (forall h, all_blocks_at s h <> None) /\ lowest_block_num s <> None.

(* ---------------------------------------------------------------- every state of every run *)

(* the states before the incoming blocks: s0 :: fk_states; position k is the state that receives
   block k of the history, position k+1 the state after it *)
Definition states_of (cfg : config) (s0 : fstate) (h : list block) : list fstate := s0 :: fk_states cfg s0 h.

Definition C18_run_bounded : Prop :=
  forall cfg s0 h k sk sk1,
    nth_error (states_of cfg s0 h) k = Some sk ->
    nth_error (states_of cfg s0 h) (S k) = Some sk1 ->
    has_lib (db sk) = true ->
    libref (db sk1) <> libref (db sk) ->
    bounded (db sk1) (c_kept cfg).

(* an entry stored in state k is still stored in state m >= k when it stayed at or above the cutoff
   of every state in between *)
Definition C18_run_retained : Prop :=
  forall cfg s0 h k m sk sm e,
    (k <= m)%nat ->
    nth_error (states_of cfg s0 h) k = Some sk ->
    nth_error (states_of cfg s0 h) m = Some sm ->
    In e (store (db sk)) ->
    (forall j b, (k <= j < m)%nat -> nth_error h j = Some b -> bid (eb e) = bid b -> bparent (eb e) <> 0) ->
    (forall j sj, (k < j <= m)%nat -> nth_error (states_of cfg s0 h) j = Some sj ->
                  cutoff (db sj) (c_kept cfg) <= bnum (eb e)) ->
    holds sm e.

(* a block received (taken, new) at position k is returned by hash and by number in every later
   state m of the run, as long as it stayed at or above LIB - kept (in particular: at or above the LIB) *)
Definition C18_run_received_found : Prop :=
  forall cfg s0 h k m b sk sm,
    (k < m)%nat ->
    nth_error h k = Some b ->
    nth_error (states_of cfg s0 h) k = Some sk ->
    nth_error (states_of cfg s0 h) m = Some sm ->
    stores_incoming cfg sk b = true ->
    (forall j b', (k < j < m)%nat -> nth_error h j = Some b' -> bid b = bid b' -> bparent b <> 0) ->
    (forall j sj, (k < j <= m)%nat -> nth_error (states_of cfg s0 h) j = Some sj ->
                  cutoff (db sj) (c_kept cfg) <= bnum b) ->
    holds sm (mkEntry b false) /\
    get_block_by_hash sm (bid b) = true /\
    exists l, all_blocks_at sm (bnum b) = Some l /\ In (bid b) l.

(* the reading "at or above the LIB": when the LIB number never was above the current one (finality is
   never revoked: C02), a block received at position k whose number is at or above the CURRENT LIB is
   returned by both lookups *)
Definition C18_run_received_at_lib : Prop :=
  forall cfg s0 h k m b sk sm,
    (k < m)%nat ->
    nth_error h k = Some b ->
    nth_error (states_of cfg s0 h) k = Some sk ->
    nth_error (states_of cfg s0 h) m = Some sm ->
    stores_incoming cfg sk b = true ->
    (forall j b', (k < j < m)%nat -> nth_error h j = Some b' -> bid b = bid b' -> bparent b <> 0) ->
    (forall j sj, (k < j <= m)%nat -> nth_error (states_of cfg s0 h) j = Some sj ->
                  rn (libref (db sj)) <= rn (libref (db sm))) ->
    rn (libref (db sm)) <= bnum b ->
    get_block_by_hash sm (bid b) = true /\
    exists l, all_blocks_at sm (bnum b) = Some l /\ In (bid b) l.

Definition C18_run_lookups_total : Prop :=
  forall cfg s0 h s, In s (states_of cfg s0 h) ->
    (forall n, all_blocks_at s n <> None) /\ lowest_block_num s <> None.

(* ---------------------------------------------------------------- the full property *)

(* Every run of the model (any configuration, LIB mode and history; the in-scope test inside c18_prop
   restricts to an established LIB, New/Undo/Irreversible delivered, well-formed histories with
   consensus-consistent LIB declarations), queried after every block for every height in qh and every
   id in qi, passes the boolean form of ALL five clauses: bound after a LIB move, retention by hash and
   by number at or above the LIB, canonical lookup on the consumer's chain, head information = last
   New, lowest servable number, no lookup crash.  [fk_corresponds k] says that the observation k_obs
   is the model's own run with all lookups recorded. *)
Definition C18_full : Prop :=
  forall k : fk_case,
    fk_corresponds k = true ->
    (forall o, In o (k_obs k) -> o_look o <> None) ->
    c18_prop k = true.
