(* C11 — Every fault ends a source cleanly: Run returns, the error is reported, nothing follows.
   Readable statements over every layout, thread count, single fault site (Model/Pipeline.v
   [fault]: FileExists / OpenObject / header / each Read (storage error, bad length prefix,
   truncated message, undecodable block) / each preprocessor call / each handler call, the last
   one also standing for a failing one-block download inside the cursor-resolving handler),
   with or without an outside Shutdown, and EVERY schedule.

   The file source is the interleaving model; the joining source and the stream wrap it
   sequentially (JoiningSource.run: `fileSrc.Run(); return fileSrc.Err()` when no live source
   was joined; Stream.Run: `source.Run(); map source.Err()`), which [joining_result] and
   [stream_result] below transcribe.

   Fairness / return assumptions (also in notes_C11.md): handler, preprocessor and store calls
   return; Go schedules every runnable goroutine eventually (weak fairness) — in the model: the
   schedule is continued by fair rounds; shutter.Shutdown is one atomic step. *)
From BV Require Import Base.Prelude Model.FileSeq Model.Pipeline Spec.C10_Spec.
Local Open Scope N_scope.

(* ---- c11_returns ----
   In a state in which no goroutine can move any more, Run has returned — unless nothing ever
   shut the source down (a fault site that is reached calls Shutdown in the very step in which it
   fails, so no fault site was reached), no stop block is in reach, every existing block was
   delivered and the source legitimately keeps polling for the next bundle.  Together with
   [C11_quiesces] (a ranking function: every schedule can be continued to quiescence, and any
   continuation by enough fair rounds is quiescent): no reachable state in which run() waits for
   ever after a fault, a stop block or a Shutdown. *)
Definition C11_returns : Prop :=
  forall pre C sched, fixed C ->
    let s := run pre C sched (init C) in
    quiescent pre C s ->
    returned s = true \/
    (s_err s = None /\ expected_outcome (c_lay C) = OTail /\
     s_calls s = pairs pre (expected_blocks (c_lay C))).

Definition C11_quiesces : Prop :=
  forall pre C sched, fixed C ->
    exists n, forall m, (n <= m)%nat ->
      quiescent pre C (run pre C (sched ++ rounds C m) (init C)).

(* the fault site lies on the path of every complete run of the layout *)
Definition site_reached (C : cfg) : bool :=
  let L := c_lay C in
  match c_fault C with
  | FNone => false
  | FExists i => Nat.leb i (nfiles L)
  | FOpen i | FHeader i => Nat.ltb i (nfiles L)
  | FRead i k => Nat.ltb i (nfiles L) && Nat.leb k (length (file_of L i))
  | FPre i k => Nat.ltb i (nfiles L) &&
                match nth_error (file_of L i) k with Some b => keep L i b | None => false end
  | FHandler n => Nat.ltb n (length (expected_blocks L))
  end.

(* ... and when the fault site lies on the path of a complete run, the second alternative is
   impossible: in every quiescent state Run has returned *)
Definition C11_fires : Prop :=
  forall pre C sched, fixed C -> site_reached C = true ->
    let s := run pre C sched (init C) in
    quiescent pre C s -> returned s = true.

(* the kept blocks in front of position (file i, Read k): everything that can have been
   delivered when the pipeline cannot get past that position *)
Definition before_site (L : layout) (i k : nat) : list blk :=
  flat_map (kept L) (seq 0 i) ++ filter (keep L i) (firstn k (file_of L i)).

Definition site_limit_blocks (C : cfg) : option (list blk) :=
  let L := c_lay C in
  match c_fault C with
  | FExists i | FOpen i | FHeader i => Some (before_site L i 0)
  | FRead i k => if Nat.leb k (length (file_of L i)) then Some (before_site L i k) else None
  | _ => None
  end.

(* ---- c11_bound ----
   the pipeline cannot get past the fault site: whatever was delivered lies in front of it
   (storage-level sites), and at most n+1 calls were made when the n-th call fails *)
Definition C11_bound : Prop :=
  forall pre C sched, fixed C ->
    let s := run pre C sched (init C) in
    (forall l, site_limit_blocks C = Some l -> prefix (s_calls s) (pairs pre l)) /\
    (forall n, c_fault C = FHandler n -> (length (s_calls s) <= S n)%nat).

(* ---- c11_error ----
   When Run has returned, Err() is set and identifies the cause: it is the class of the
   injected fault, or nil from the outside Shutdown, or — the fault having had no effect on
   the run — the regular end of the complete run (stop block reached / non-sequential blocks,
   each only after every expected block was delivered). *)
Definition C11_error : Prop :=
  forall pre C sched, fixed C ->
    let s := run pre C sched (init C) in
    returned s = true ->
    exists e, s_err s = Some e /\
      ((e = fclass (c_fault C) /\ c_fault C <> FNone) \/
       (e = ENil /\ c_ext C = true) \/
       (s_calls s = pairs pre (expected_blocks (c_lay C)) /\
        ((e = EStop /\ expected_outcome (c_lay C) = OStop) \/
         (e = ENonSeq /\ expected_outcome (c_lay C) = ONonSeq)))).

(* ---- c11_prefix ----
   whatever was delivered, at any moment of any run with any fault, is a gap-free prefix of
   the reference sequence, each block with its own preprocessed object *)
Definition C11_prefix : Prop :=
  forall pre C sched, fixed C ->
    prefix (s_calls (run pre C sched (init C))) (pairs pre (expected_blocks (c_lay C))).

(* ---- c11_silence ----
   once Run has returned the handler is never called again, whatever the remaining goroutines do *)
Definition C11_silence : Prop :=
  forall pre C sched sched',
    let s := run pre C sched (init C) in
    returned s = true ->
    s_calls (run pre C sched' s) = s_calls s /\ returned (run pre C sched' s) = true.

(* ---- joining source and stream on top of a file source ---- *)
(* JoiningSource.run with a live factory that yields no source: the file source's error is
   the joining source's error *)
Definition joining_result (file_err : option errc) : option errc := file_err.

Inductive stream_res := SNil | SStop | SInvalidArg | SOther (e : errc).
(* Stream.Run: nil -> nil; ErrStopBlockReached -> stream.ErrStopBlockReached;
   (ErrResolveCursor -> ErrInvalidArg: raised by the cursor-resolving handler, class EHandler
   in this model, mapped by the harness); everything else unchanged *)
Definition stream_result (e : option errc) : stream_res :=
  match e with
  | None | Some ENil => SNil
  | Some EStop => SStop
  | Some e => SOther e
  end.

(* ---- the unfixed code (flags off) violates c11_returns and c11_error ---- *)
Definition C11_returns_unfixed_counterexample : Prop :=
  exists pre C sched,
    c_fix1 C = false /\ c_fix2 C = true /\ c_ext C = false /\ c_fault C = FOpen 0 /\
    let s := run pre C sched (init C) in
    quiescent pre C s /\ returned s = false /\ s_err s = Some EOpen.

Definition C11_error_unfixed_counterexample : Prop :=
  exists pre C sched,
    c_fix1 C = true /\ c_fix2 C = false /\ c_ext C = false /\ c_fault C = FRead 0 2 /\
    expected_outcome (c_lay C) = OStop /\
    let s := run pre C sched (init C) in
    returned s = true /\ s_err s = Some ENonSeq.
