(* C03 — the stream follows the chain head and the chain's declared finality: statements.
   Reference: Spec/ForkChoice.v (fc_step), which mentions neither link maps, caches, sent flags nor
   purging.  Model: Model/Forkable.v (fk_step / fk_run). *)
From BV Require Import Base.Prelude Model.Block Model.ForkDB Model.Forkable Model.ForkableLookups
  Spec.Consumer Spec.Universe Spec.ForkChoice Spec.C01_Spec Check.Fk_Check Check.Fk_Props_Check.
Local Open Scope N_scope.

(* ---------------------------------------------------------------- the model's own observation *)

(* what the harness observes of the implementation, produced by the model: per incoming block the
   delivered events, the result, HeadInfo and HeadNum after the call (no lookup snapshot) *)
Fixpoint fk_obs (cfg : config) (s : fstate) (h : list block) : list obs :=
  match h with
  | [] => []
  | b :: rest =>
      let '(s', evs, r) := fk_step cfg s b in
      mkObs evs r (head_info s') (head_num s') None ::
      match r with ROk => fk_obs cfg s' rest | _ => [] end
  end.

(* ---------------------------------------------------------------- following the reference, as a Prop *)

(* the last block announced final by a list of events *)
Definition last_final (acc : option block) (evs : list event) : option block :=
  fold_left (fun a e => match estep e with SIrr | SNewIrr => Some (eblk e) | _ => a end) evs acc.

(* the consumer stack is the parent path from its top down to the LIB: every block rests on its parent,
   the oldest one is the LIB block itself or a child of the LIB *)
Fixpoint on_path (lib : N) (st : cstack) : Prop :=
  match st with
  | [] => True
  | x :: r => match r with y :: _ => bparent x = bid y | [] => root_ok lib x = true end /\ on_path lib r
  end.

(* After every incoming block: the events are accepted by the push/pop consumer, the top of the
   consumer stack IS the reference tip (no tip iff the stack is empty), the stack is the path from the
   LIB to that tip, and (when Irreversible events are delivered) the last block announced final is the
   reference's.  st = consumer stack before the
   block, fin = last final block before it, fc = reference state before it. *)
Fixpoint c03_follows (cfg : config) (lib : N) (fc : fc_state) (st : cstack) (fin : option block)
         (h : list block) (t : trace) : Prop :=
  match h, t with
  | b :: h', (evs, _) :: t' =>
      let fc' := fc_step (c_first cfg) (c_incl cfg) (c_alltrig cfg) fc b in
      exists st', apply_all lib st evs = Some st' /\
                  hd_error st' = fc_tip fc' /\ on_path lib st' /\
                  (f_irr (c_filter cfg) = true -> last_final fin evs = fc_final fc') /\
                  c03_follows cfg lib fc' st' (last_final fin evs) h' t'
  | _, _ => True
  end.

(* ---------------------------------------------------------------- the full statement *)

Definition c03_scope (cfg : config) (m : libmode) (h : list block) : Prop :=
  (match m with LNone => False | _ => True end) /\
  f_new (c_filter cfg) = true /\ f_undo (c_filter cfg) = true /\
  wf_b h = true /\ lib_ok_b m h = true /\ c_fail_at cfg = None.

(* the model's run follows the reference: exactly the comparison c03_prop makes on the implementation's
   observation (consumer tip, HeadInfo and last final block against fc_step after every block) *)
Definition c03_statement (cfg : config) (m : libmode) (h : list block) : Prop :=
  c03_follow cfg (root_lib m (fk_run cfg (fs_init m) h)) (fc_init m) [] 0 h (fk_obs cfg (fs_init m) h) = true.

(* outputs do not depend on the retention setting *)
Definition with_kept (cfg : config) (k : N) : config :=
  mkCfg (c_first cfg) (c_incl cfg) (c_hold cfg) k (c_alltrig cfg) (c_filter cfg) (c_fail_at cfg).
Definition c03_retention_statement (cfg : config) (m : libmode) (h : list block) : Prop :=
  forall k, fk_run (with_kept cfg k) (fs_init m) h = fk_run cfg (fs_init m) h.

(* re-fed blocks and blocks below the LIB are noise: a block that the reference ignores (fc_step
   returns the same state) delivers nothing *)
Fixpoint c03_noise (cfg : config) (fc : fc_state) (h : list block) (t : trace) : Prop :=
  match h, t with
  | b :: h', (evs, _) :: t' =>
      let fc' := fc_step (c_first cfg) (c_incl cfg) (c_alltrig cfg) fc b in
      (fc_tip fc' = fc_tip fc -> fc_lib fc' = fc_lib fc -> evs = []) /\ c03_noise cfg fc' h' t'
  | _, _ => True
  end.

(* ... and deleting such a block from the history deletes exactly its (empty) entry from the run: the
   reference state after h1 is unchanged by b  ==>  the run on h1 ++ b :: h2 is the run on h1 ++ h2 with
   ([], ROk) inserted at b's position *)
Definition fc_after (cfg : config) (fc : fc_state) (h : list block) : fc_state :=
  fold_left (fun f b => fc_step (c_first cfg) (c_incl cfg) (c_alltrig cfg) f b) h fc.

Definition c03_noise_deletion (cfg : config) (m : libmode) (h1 : list block) (b : block) (h2 : list block) : Prop :=
  let fc := fc_after cfg (fc_init m) h1 in
  fc_step (c_first cfg) (c_incl cfg) (c_alltrig cfg) fc b = fc ->
  let T := fk_run cfg (fs_init m) (h1 ++ h2) in
  fk_run cfg (fs_init m) (h1 ++ b :: h2) = firstn (length h1) T ++ ([], ROk) :: skipn (length h1) T.

(* FULL STRENGTH (all configured-LIB modes, moving LIB): stated, not proved in this generality; the
   checker c03_prop evaluates c03_statement's comparison on the implementation's observation of every
   generated history *)
Definition c03_full : Prop :=
  forall cfg m h, c03_scope cfg m h ->
    c03_statement cfg m h /\
    c03_follows cfg (root_lib m (fk_run cfg (fs_init m) h)) (fc_init m) [] None h (fk_run cfg (fs_init m) h) /\
    c03_retention_statement cfg m h /\
    c03_noise cfg (fc_init m) h (fk_run cfg (fs_init m) h) /\
    (forall h1 b h2, h = h1 ++ b :: h2 -> c03_noise_deletion cfg m h1 b h2).

(* the reference means what the property says: a block that is new to the stream, not below the LIB
   (once a tip exists), not the LIB block, linked back to the LIB through received blocks and higher
   than the previous tip (any height in all-blocks-trigger mode) becomes the tip; a block that fails
   one of these tests leaves the tip unchanged (exclusive-LIB mode) *)
Definition c03_reference_meaning : Prop :=
  forall first alltrig fc b,
    let fc' := fc_step first false alltrig fc b in
    let below := (bnum b <? rn (fc_lib fc)) && match fc_tip fc with Some _ => true | None => false end in
    let is_new := match lookup (bid b) (fc_recv fc) with None => true | Some _ => false end in
    let higher := alltrig || match fc_tip fc with None => true | Some t => bnum t <? bnum b end in
    let links := negb (bid b =? ri (fc_lib fc)) &&
                 links_to_lib (S (length (b :: fc_recv fc))) first (b :: fc_recv fc) (fc_lib fc) b in
    if negb below && is_new && higher && links then fc_tip fc' = Some b else fc_tip fc' = fc_tip fc.

(* ---------------------------------------------------------------- the part that is proved *)

(* exclusive starting LIB r0 that the history never moves, no injected handler failure (the class of
   c01_fixed_lib_statement, Spec/C01_Spec.v); everything else universally quantified.  In this class
   the reference LIB stays r0 and no block is ever final, so the finality clause is the statement that
   no Irreversible event is delivered. *)
Definition c03_fixed_lib_statement : Prop :=
  forall cfg r0 h,
    c_fail_at cfg = None -> c_incl cfg = false ->
    f_new (c_filter cfg) = true -> f_undo (c_filter cfg) = true ->
    c01_fixed_scope_b r0 h = true ->
    let t := fk_run cfg (fs_init (LExcl r0)) h in
    c03_statement cfg (LExcl r0) h /\
    c03_follows cfg (ri r0) (fc_init (LExcl r0)) [] None h t /\
    c03_noise cfg (fc_init (LExcl r0)) h t /\
    c03_retention_statement cfg (LExcl r0) h /\
    (forall h1 b h2, h = h1 ++ b :: h2 -> c03_noise_deletion cfg (LExcl r0) h1 b h2).
