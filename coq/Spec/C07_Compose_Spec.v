(* C07 over whole runs: the file-to-live handoff composed end to end (Model/Joining.stream_run), with the
   hub/files agreement hypothesis `hub_agrees` of Spec/C07_Spec.v replaced by hypotheses on the WORLD:

     - the hub the stream finds is a state of a hub run (live blocks, one-block passes, several bootstrap
       attempts) over a block universe U in the class of the Forkable theorems (wf_b, lib_ok_b LNone), and
       the blocks still to arrive are blocks of U                                   [hub_of_universe];
     - canon, the canonical chain, is a parent-linked run of blocks of U            [chain_ok, incl];
     - "all observers agree on the eventual tip": once every block has arrived, the head of the hub is
       the last block of canon                                                       [eventual_tip];
     Number mode and cursor mode need nothing more: since the fix "join on identity" (JoiningSource asks the hub
     through SourceFromBlockRef; Model/Joining.file_phase: `same`) the join at the file block b happens only when
     the hub's canonical block of that height is b itself.  BEFORE that fix the join was made on the block NUMBER and
     the property needed one more hypothesis, files_agree (whenever the hub is ready its retained chain holds no
     sibling of a merged block), and was false without it: Spec/C07_Unfixed_Spec.v keeps the old join and the
     counterexample (C07_join_by_number_refuted), found by this proof and confirmed on the real code.
     Target-cursor mode: since the fix "target join on identity" (JoiningSource.liveSourceThrough) a target cursor
     below the file block joins as number mode does; a cursor at or above it joins "through the cursor", where the
     hub's block of that height is the ancestor of the (canonical) cursor block, hence the file's block.  It keeps
     target_on_chain.  BEFORE that fix it needed files_on_hub and was false without it
     (Spec/C07_TargetUnfixed_Spec.v, C07_target_join_by_number_refuted, confirmed on the real code).

   The schedule (pauses), the fuel, the hub's retention, the position of the hub window are arbitrary.

   C07_seamless_full of Spec/C07_Spec.v is NOT what is proved: it is refutable (see notes_proof_S2.md and
   c07_seamless_full_refuted): (1) when the run ends while still reading files (the schedule never lets the
   hub catch up) the consumer holds the merged blocks, not all of canon; (2) after a live reorganisation
   that reaches below the first delivered block the consumer also holds canonical blocks below `start`
   (the property text sets these events aside; the equality `rev stack = from_num start canon` does not).
   The conclusions below are the corrected ones. *)
From BV Require Import Base.Prelude Model.Block Model.ForkDB Model.Forkable Model.ForkableLookups
  Model.Burst Model.Hub Model.CursorResolver Model.Joining
  Spec.Consumer Spec.Universe Check.Burst_Check Check.C07_Check Spec.C06_Spec Spec.C07_Spec Spec.C09_Spec.
Local Open Scope N_scope.

(* ------------------------------------------------------------------ the world *)

(* the world after k more blocks have arrived *)
Definition world_after (c : jcfg) (k : nat) (w : world) : world := fst (push_n c k w).

Definition hub_of_universe (U : list block) (c : jcfg) (w : world) : Prop :=
  (exists l, (forall b p, In (b, p) l -> In b U /\ pass_in U p) /\
             w_hub w = hub_run (j_first c) (j_kept c) hub_init l) /\
  (forall b, In b (w_rest w) -> In b U).

(* the eventual tip: when nothing is left to arrive the hub's head is the last block of canon *)
Definition eventual_tip (c : jcfg) (w : world) (canon : list block) : Prop :=
  forall k hd, w_rest (world_after c k w) = [] ->
    last_sent (h_f (w_hub (world_after c k w))) = Some hd -> exists pre, canon = pre ++ [hd].

(* the ready hub's retained canonical chain never holds a sibling of a merged block (the hypothesis the join by
   NUMBER needed: Spec/C07_Unfixed_Spec.v; no theorem about the fixed model uses it) *)
Definition files_agree (c : jcfg) (w : world) (merged : list block) : Prop :=
  forall k hd sg x b,
    h_ready (w_hub (world_after c k w)) = true ->
    last_sent (h_f (w_hub (world_after c k w))) = Some hd ->
    complete_segment (db (h_f (w_hub (world_after c k w)))) (bref hd) = Some (sg, true) ->
    In x sg -> In b merged -> bnum (seg_blk x) = bnum b -> seg_blk x = b.

(* the resolved start block *)
Definition run_start (c : jcfg) (w : world) : N :=
  abs_start (j_first c) (j_start c) (match hub_head (w_hub w) with Some (r, _) => rn r | None => 0 end).

(* the model reads files "without stop block" up to the bundle of block 10^12 *)
Definition file_bound : N := 1000000000000.

(* ------------------------------------------------------------------ from a block number *)

(* Default filter, no stop block.  For EVERY outcome (waiting at the head, waiting for the next merged
   file, out of fuel) the delivered events follow the undo/new discipline from the empty consumer (undos
   below the first delivered block aside).  When the stream ends waiting (JNil), either it never left the
   files and the consumer holds exactly the merged blocks from `start` on, or it has joined the hub, every
   block has arrived, and from `start` on the consumer holds exactly canon: every canonical block from the
   start point on, once, in order. *)
Definition C07_seamless_num : Prop :=
  forall (U : list block) (c : jcfg) (w : world) (ps : list (N * N)) (merged_end : N) (canon forked : list block),
    wf_b U = true -> lib_ok_b LNone U = true ->
    hub_of_universe U c w ->
    chain_ok canon -> incl canon U ->
    let merged := filter (fun b => bnum b <? merged_end) canon in
    eventual_tip c w canon ->
    j_mode c = 0 -> j_filter c = 0 -> j_stop c = 0 ->
    0 < j_bundle c -> Forall (fun b => bnum b < file_bound) merged ->
    let res := stream_run c w ps merged_end merged forked in
    let start := run_start c w in
    (exists b, In b canon /\ bnum b = start) ->
    exists c', cons_fold_aside cons0 (map as_new (fst res)) = Some c' /\
               (snd res = JNil ->
                  rev (cs_stack c') = from_num start merged \/
                  from_num start (rev (cs_stack c')) = from_num start canon).

(* ------------------------------------------------------------------ from a cursor, out of the files *)

(* The consumer state at the cursor, as in C06 and in C07_seamless_full: above the cursor-LIB block L it holds
   hc (on canon) followed by hf (pending forked blocks); for an Undo cursor the undone block X sits on top and
   is not held.  The forked blocks (and X when it is off canon) are in the forked-blocks store. *)
Definition cursor_state (canon forked : list block) (cu : cursor) (L : block) (hc hf : list block) : Prop :=
  branch_from L (hc ++ hf) /\ Forall (on_canon canon) hc /\ Forall (off_canon canon) hf /\
  (cu_step cu <> SUndo -> bref (last (hc ++ hf) L) = cu_blk cu) /\
  (cu_step cu = SUndo -> exists X, bref X = cu_blk cu /\ branch_from L (hc ++ hf ++ [X]) /\
     ((on_canon canon X /\ hf = []) \/ (off_canon canon X /\ file_of forked cu (bid X) = Some X))) /\
  (forall x, In x hf -> file_of forked cu (bid x) = Some x).

(* Cursor mode when the hub does not serve the cursor itself at the start of the stream (the cursor is older
   than the hub's window: the file-to-live handoff proper; when the hub does serve it the stream is live from
   the first event and the burst is C05's subject).  The resolver undoes the pending forked blocks, the files
   bring the canonical blocks, the join continues from the hub.  Outcomes when the stream ends waiting:
   nothing was delivered (the files do not reach the cursor block yet), or the stream never left the files
   and the consumer holds the merged blocks above L, or it joined the hub and holds canon above L (from the
   first block r1 of rest on: a live reorganisation may have added canonical blocks at or below L). *)
Definition C07_seamless_cursor_files : Prop :=
  forall (U : list block) (c : jcfg) (w : world) (ps : list (N * N)) (merged_end : N) (canon forked : list block)
         (cu : cursor) (L : block) (rest hc hf : list block),
    wf_b U = true -> lib_ok_b LNone U = true ->
    hub_of_universe U c w ->
    chain_ok canon -> incl canon U ->
    let merged := filter (fun b => bnum b <? merged_end) canon in
    eventual_tip c w canon ->
    j_mode c = 1 -> j_cursor c = Some cu -> j_filter c = 0 -> j_stop c = 0 ->
    0 < j_bundle c -> Forall (fun b => bnum b < file_bound) merged ->
    (h_ready (w_hub w) = true -> forall evs, blocks_from_cursor (h_f (w_hub w)) cu <> BOk evs) ->
    from_num (rn (cu_lib cu)) canon = L :: rest -> bref L = cu_lib cu ->
    cursor_state canon forked cu L hc hf ->
    let res := stream_run c w ps merged_end merged forked in
    exists c', cons_fold_aside (mkCons (rev (hc ++ hf)) 0 false) (map as_new (fst res)) = Some c' /\
               (snd res = JNil ->
                  fst res = [] \/
                  rev (cs_stack c') = above (rn (cu_lib cu)) merged \/
                  exists r1 rest1, rest = r1 :: rest1 /\ from_num (bnum r1) (rev (cs_stack c')) = rest).

(* ------------------------------------------------------------------ files_agree (needed before the fix only) and files_on_hub from finality *)

(* "merged files hold final blocks only, for the hub too": whenever the hub is ready every merged block is at or
   below its LIB.  Together with eventual_tip this implies files_agree (C07_files_final_agree) and files_on_hub
   (C07_files_final_on_hub, the hypothesis of target-cursor mode). *)
Definition files_final (c : jcfg) (w : world) (merged : list block) : Prop :=
  forall k b, h_ready (w_hub (world_after c k w)) = true -> In b merged ->
    bnum b <= rn (libref (db (h_f (w_hub (world_after c k w))))).

Definition C07_files_final_agree : Prop :=
  forall (U : list block) (c : jcfg) (w : world) (merged_end : N) (canon : list block),
    wf_b U = true -> lib_ok_b LNone U = true -> hub_of_universe U c w ->
    chain_ok canon -> incl canon U -> eventual_tip c w canon ->
    let merged := filter (fun b => bnum b <? merged_end) canon in
    files_final c w merged -> files_agree c w merged.

(* ------------------------------------------------------------------ from a cursor the hub serves *)

(* the consumer at the cursor as ONE run K hanging under the cursor-LIB block L (its canonical and forked
   blocks together), all blocks of the universe; for an Undo cursor the undone block X sits on top *)
Definition consumer_at (U : list block) (cu : cursor) (L : block) (K : list block) : Prop :=
  bref L = cu_lib cu /\ Forall (fun x => In x U) K /\
  ((cu_step cu <> SUndo /\ branch_from L K /\ bref (last K L) = cu_blk cu) \/
   (cu_step cu = SUndo /\ exists X, In X U /\ bref X = cu_blk cu /\ branch_from L (K ++ [X]))).

(* The hub serves the cursor when the stream starts: the stream is live from its first event (no files, hence
   no files_agree).  The burst (C05) applied to the consumer, then the live events: discipline for every
   outcome; when the stream ends waiting at the head the consumer holds, above L, exactly canon. *)
Definition C07_seamless_cursor_live : Prop :=
  forall (U : list block) (c : jcfg) (w : world) (ps : list (N * N)) (merged_end : N) (canon forked : list block)
         (cu : cursor) (L : block) (K : list block) (burst : list event),
    wf_b U = true -> lib_ok_b LNone U = true ->
    hub_of_universe U c w ->
    chain_ok canon -> incl canon U ->
    eventual_tip c w canon ->
    j_mode c = 1 -> j_cursor c = Some cu -> j_filter c = 0 -> j_stop c = 0 ->
    In L canon -> consumer_at U cu L K ->
    h_ready (w_hub w) = true -> blocks_from_cursor (h_f (w_hub w)) cu = BOk burst ->
    let res := stream_run c w ps merged_end (filter (fun b => bnum b <? merged_end) canon) forked in
    exists c', cons_fold_aside (mkCons (rev K) 0 false) (map as_new (fst res)) = Some c' /\
               (snd res = JNil -> above (rn (cu_lib cu)) (rev (cs_stack c')) = above (rn (cu_lib cu)) canon).

(* ------------------------------------------------------------------ from a cursor: both cases *)

(* C07_seamless_cursor_files without its "the hub does not serve the cursor" hypothesis; the consumer's forked
   blocks (and the undone block of an Undo cursor) are blocks of the universe *)
Definition C07_seamless_cursor : Prop :=
  forall (U : list block) (c : jcfg) (w : world) (ps : list (N * N)) (merged_end : N) (canon forked : list block)
         (cu : cursor) (L : block) (rest hc hf : list block),
    wf_b U = true -> lib_ok_b LNone U = true ->
    hub_of_universe U c w ->
    chain_ok canon -> incl canon U ->
    let merged := filter (fun b => bnum b <? merged_end) canon in
    eventual_tip c w canon ->
    j_mode c = 1 -> j_cursor c = Some cu -> j_filter c = 0 -> j_stop c = 0 ->
    0 < j_bundle c -> Forall (fun b => bnum b < file_bound) merged ->
    from_num (rn (cu_lib cu)) canon = L :: rest -> bref L = cu_lib cu ->
    cursor_state canon forked cu L hc hf ->
    Forall (fun x => In x U) hf ->
    (cu_step cu = SUndo -> exists X, In X U /\ bref X = cu_blk cu /\ branch_from L (hc ++ hf ++ [X])) ->
    let res := stream_run c w ps merged_end merged forked in
    exists c', cons_fold_aside (mkCons (rev (hc ++ hf)) 0 false) (map as_new (fst res)) = Some c' /\
               (snd res = JNil ->
                  fst res = [] \/
                  rev (cs_stack c') = above (rn (cu_lib cu)) merged \/
                  (exists r1 rest1, rest = r1 :: rest1 /\ from_num (bnum r1) (rev (cs_stack c')) = rest) \/
                  above (rn (cu_lib cu)) (rev (cs_stack c')) = rest).

(* ------------------------------------------------------------------ through a target cursor *)

(* the ready hub's retained chain holds every merged block numbered between its lowest block and its head
   (stronger than files_agree: the chain has no gap where the files have a block).  The hypothesis the target-cursor
   join by NUMBER needed (Spec/C07_TargetUnfixed_Spec.v); no theorem about the fixed model uses it *)
Definition files_on_hub (c : jcfg) (w : world) (merged : list block) : Prop :=
  forall k hd s0 sg b,
    h_ready (w_hub (world_after c k w)) = true ->
    last_sent (h_f (w_hub (world_after c k w))) = Some hd ->
    complete_segment (db (h_f (w_hub (world_after c k w)))) (bref hd) = Some (s0 :: sg, true) ->
    In b merged -> snum s0 <= bnum b -> bnum b <= bnum hd ->
    exists x, In x (s0 :: sg) /\ seg_blk x = b.

(* a target cursor block the ready hub stores is on its retained chain (the branch of blocksThroughCursor for a
   cursor block stored off the chain is not covered) *)
Definition target_on_chain (c : jcfg) (w : world) (cu : cursor) : Prop :=
  forall k hd sg,
    h_ready (w_hub (world_after c k w)) = true ->
    last_sent (h_f (w_hub (world_after c k w))) = Some hd ->
    complete_segment (db (h_f (w_hub (world_after c k w)))) (bref hd) = Some (sg, true) ->
    find (ri (cu_blk cu)) (store (db (h_f (w_hub (world_after c k w))))) <> None ->
    block_in (ri (cu_blk cu)) sg = true.

(* Target cursor on the chain (B in canon carries the cursor's block reference), default filter, no stop block.
   Discipline for every outcome (the file source may end with "not implemented" when the files decide that the
   cursor block is not theirs); when the stream ends waiting either it never left the files and holds a
   beginning D1 of the merged blocks from start (all of them when the cursor block is in the files), or it
   joined the hub and holds, from start on, exactly canon. *)
Definition C07_seamless_target : Prop :=
  forall (U : list block) (c : jcfg) (w : world) (ps : list (N * N)) (merged_end : N) (canon forked : list block)
         (cu : cursor) (B : block),
    wf_b U = true -> lib_ok_b LNone U = true ->
    hub_of_universe U c w ->
    chain_ok canon -> incl canon U ->
    let merged := filter (fun b => bnum b <? merged_end) canon in
    eventual_tip c w canon -> target_on_chain c w cu ->
    j_mode c = 2 -> j_cursor c = Some cu -> j_filter c = 0 -> j_stop c = 0 ->
    0 < j_bundle c -> Forall (fun b => bnum b < file_bound) merged ->
    In B canon -> bref B = cu_blk cu ->
    let res := stream_run c w ps merged_end merged forked in
    let start := run_start c w in
    (exists b, In b canon /\ bnum b = start) ->
    exists c', cons_fold_aside cons0 (map as_new (fst res)) = Some c' /\
               (snd res = JNil ->
                  (exists D1 D2, from_num start merged = D1 ++ D2 /\ rev (cs_stack c') = D1) \/
                  from_num start (rev (cs_stack c')) = from_num start canon).

(* files_on_hub too follows from "merged blocks are final for the hub" and eventual_tip *)
Definition C07_files_final_on_hub : Prop :=
  forall (U : list block) (c : jcfg) (w : world) (merged_end : N) (canon : list block),
    wf_b U = true -> lib_ok_b LNone U = true -> hub_of_universe U c w ->
    chain_ok canon -> incl canon U -> eventual_tip c w canon ->
    let merged := filter (fun b => bnum b <? merged_end) canon in
    files_final c w merged -> files_on_hub c w merged.
