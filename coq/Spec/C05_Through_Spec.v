(* C05, second part - the through-cursor burst (blocksThroughCursor, hub.SourceThroughCursor) and
   final-only cursors.  Statements about the EXISTING model Model/Burst.v.

   Vocabulary (Spec/C09_Spec.v, Spec/C05_Spec.v): `wf_state`, the head's complete segment `sg` (oldest
   first; the retained canonical chain), `seg_blk`, `snap_event` (the event a snapshot carries for a chain
   element: New+Irreversible up to the hub LIB, New above; cursor block = the block, cursor head = the hub
   head, cursor LIB = the hub LIB capped at the block), `good_seg`, `seg_stored`, `branch_to`, `undos_of`,
   `undo_event`, `junction_cursor`, `fast_event`, `final_now`, `above_clib`; the consumer `cons`,
   `cons_fold`, `cons0` of Check/Burst_Check.v. *)
From Coq Require Import Sorted Permutation.
From BV Require Import Base.Prelude Model.Block Model.ForkDB Model.Forkable Model.ForkableLookups
  Model.Burst Model.Hub Spec.Consumer Spec.Universe Check.Fk_Check Check.Burst_Check Spec.C09_Spec Spec.C05_Spec.
Local Open Scope N_scope.

(* the hub has a LIB and a head, and the head's complete segment reaches the LIB *)
Definition head_chain (s : fstate) (hd : block) (sg : list seg) : Prop :=
  has_lib (db s) = true /\ last_sent s = Some hd /\ complete_segment (db s) (bref hd) = Some (sg, true).

(* `start` is not below the first block of a (non-empty) segment *)
Definition starts_within (sg : list seg) (start : N) : Prop :=
  match sg with x0 :: _ => bnum (seg_blk x0) <= start | [] => False end.

(* numbered at or above start *)
Definition from_start (start : N) (x : seg) : bool := start <=? bnum (seg_blk x).

(* what the cursor of a snapshot event says *)
Definition snap_cursor_ok (s : fstate) (hd : block) (e : event) : Prop :=
  ecblk e = bref (eblk e) /\                          (* cursor block = the block *)
  ehead e = bref hd /\                                (* cursor head = the hub head *)
  rn (elib e) <= bnum (eblk e) /\                     (* never a LIB above the block ... *)
  (elib e = libref (db s) \/                          (* ... it is the hub LIB, or the block itself below it *)
   (elib e = bref (eblk e) /\ bnum (eblk e) < rn (libref (db s)))) /\
  (estep e = SNewIrr <-> bnum (eblk e) <= rn (libref (db s))) /\
  (estep e = SNew <-> rn (libref (db s)) < bnum (eblk e)) /\
  ejunc e = None.

(* ------------------------------------------------------------------ 1. cursor block on the chain *)

Definition C05_through_on_chain : Prop :=
  forall s hd sg start c,
    wf_state s -> head_chain s hd sg ->
    block_in (ri (cu_blk c)) sg = true ->             (* the cursor block is on the head's segment *)
    starts_within sg start ->
    let kept := filter (from_start start) sg in
    let evs := map (snap_event s hd) kept in
    let nfin := length (filter (final_now s) kept) in
    (* the burst: one snapshot event per chain element numbered >= start, in chain order *)
    blocks_through_cursor s start c = BOk evs /\
    (* `kept` is the suffix of the chain that starts at `start` *)
    (exists lo, sg = lo ++ kept /\ forall y, In y lo -> bnum (seg_blk y) < start) /\
    (* each block once *)
    NoDup (map bid (map eblk evs)) /\
    (* steps and cursors *)
    (forall e, In e evs -> snap_cursor_ok s hd e) /\
    (* a consumer that holds nothing ends up holding exactly the chain from `start` on, with exactly
       the blocks up to the hub LIB final *)
    cons_fold cons0 evs = Some (mkCons (rev (map seg_blk kept)) nfin (negb (Nat.eqb nfin 0))) /\
    (* ... whose top is the hub head (when start is not above the head) *)
    (start <= bnum hd -> exists pre x, kept = pre ++ [x] /\ bid (seg_blk x) = bid hd /\ bnum (seg_blk x) = bnum hd).

(* whenever the snapshot from `start` is served (a chain block is numbered `start`), the through-cursor
   burst for a canonical cursor block is that snapshot *)
Definition C05_through_is_snapshot : Prop :=
  forall s hd sg start c evs,
    wf_state s -> head_chain s hd sg -> block_in (ri (cu_blk c)) sg = true ->
    blocks_from_num s start = BOk evs -> blocks_through_cursor s start c = BOk evs.

(* ------------------------------------------------------------------ 2. cursor block off the chain *)

(* the cursor carries the number under which its block is stored (cursors minted by the stream do;
   excluded: a cursor naming a retained id with another number) *)
Definition cursor_numbered (d : forkdb) (c : cursor) : Prop :=
  forall e, find (ri (cu_blk c)) (store d) = Some e -> bnum (eb e) = rn (cu_blk c).

(* the event of the cursor's own branch: steps and LIB follow the CURSOR LIB (capped at the block) *)
Definition through_event (hd : block) (c : cursor) (x : seg) : event :=
  let b := seg_blk x in
  mkEv (if bnum b <=? rn (cu_lib c) then SNewIrr else SNew) b (bref b) (bref hd)
       (if bnum b <? rn (cu_lib c) then bref b else cu_lib c) None 0 0.

(* delivered from the cursor's branch: numbered >= start, minus the cursor block for an Undo cursor *)
Definition through_keep (start : N) (c : cursor) (x : seg) : bool :=
  from_start start x && negb (is_undo c && (sid x =? ri (cu_blk c))).

(* final for the consumer according to the cursor *)
Definition final_cur (c : cursor) (x : seg) : bool := bnum (seg_blk x) <=? rn (cu_lib c).

Definition C05_through_forked : Prop :=
  forall s hd sg start c,
    wf_state s -> head_chain s hd sg -> starts_within sg start ->
    block_in (ri (cu_blk c)) sg = false ->            (* the cursor block is NOT on the head's segment *)
    cursor_numbered (db s) c ->
    exists csg reach,
      (* the cursor block's own complete segment: the branch of stored blocks that ends with it *)
      complete_segment (db s) (cu_blk c) = Some (csg, reach) /\
      good_seg csg /\ seg_stored (db s) csg /\
      find (seg_bottom (ri (cu_blk c)) csg) (store (db s)) = None /\
      (forall lo x, csg = lo ++ [x] -> sid x = ri (cu_blk c) /\ bnum (seg_blk x) = rn (cu_blk c)) /\
      (reach = true <-> In (ri (libref (db s))) (map sid csg ++ [seg_bottom (ri (cu_blk c)) csg])) /\
      (* no source: *)
      (csg = [] -> blocks_through_cursor s start c = BErr) /\               (* cursor block not retained *)
      (reach = false -> blocks_through_cursor s start c = BErr) /\          (* its branch does not reach the LIB *)
      (forall c0 rest, csg = c0 :: rest -> start < bnum (seg_blk c0) ->
                       blocks_through_cursor s start c = BErr) /\           (* start below the branch's first block *)
      (rn (cu_blk c) < start -> blocks_through_cursor s start c = BErr) /\  (* cursor block not reached from start *)
      (* otherwise: the cursor's branch from start, then the burst of blocks_from_cursor *)
      (reach = true -> forall c0 rest, csg = c0 :: rest -> bnum (seg_blk c0) <= start -> start <= rn (cu_blk c) ->
         let own := filter (through_keep start c) csg in
         let pre := map (through_event hd c) own in
         let nfin := length (filter (final_cur c) own) in
         blocks_through_cursor s start c =
           match blocks_from_cursor s c with BOk evs => BOk (pre ++ evs) | other => other end /\
         (* `own`: the branch from start up to the cursor block, which an Undo cursor excludes *)
         (exists lo mid top, csg = lo ++ mid ++ [top] /\ sid top = ri (cu_blk c) /\
                             (forall y, In y lo -> bnum (seg_blk y) < start) /\
                             (forall y, In y (mid ++ [top]) -> start <= bnum (seg_blk y)) /\
                             own = if is_undo c then mid else mid ++ [top]) /\
         (* a consumer that holds nothing holds that branch afterwards, final up to the cursor LIB *)
         cons_fold cons0 pre = Some (mkCons (rev (map seg_blk own)) nfin (negb (Nat.eqb nfin 0)))).

(* the whole burst, made explicit with c05_forked_path: when moreover the cursor LIB is on the chain
   (with its number) and the cursor's branch meets the chain at junction j *)
Definition C05_through_forked_burst : Prop :=
  forall s hd sg start c csg path j,
    wf_state s -> head_chain s hd sg -> starts_within sg start ->
    block_in (ri (cu_blk c)) sg = false -> cursor_numbered (db s) c ->
    complete_segment (db s) (cu_blk c) = Some (csg, true) ->
    starts_within csg start -> start <= rn (cu_blk c) ->
    (exists x, In x sg /\ sid x = ri (cu_lib c) /\ snum x = rn (cu_lib c)) ->
    branch_to (db s) sg (ri (cu_blk c)) path j ->
    exists je, find j (store (db s)) = Some je /\
      let jref := mkR j (bnum (eb je)) in
      blocks_through_cursor s start c =
        BOk (map (through_event hd c) (filter (through_keep start c) csg) ++      (* own branch, New *)
             map (undo_event hd c jref) (undos_of c path) ++                      (* undone down to the junction *)
             from_cursor_fast s hd sg (junction_cursor hd c jref)) /\             (* chain from the junction to the head *)
      (* the own branch is the chain up to the junction followed by the undone path, oldest first *)
      (exists lo xj hi, sg = lo ++ xj :: hi /\ sid xj = j /\ csg = lo ++ xj :: rev path).

(* ... and where that burst leads a consumer that holds nothing, for every start block at or below the
   block after the junction.  Finality announcements (Irreversible) for blocks below `start` concern
   blocks this consumer never received and are set aside (`tolerate`, the tolerance of the boolean
   property Check/Burst_Check.c05_answer_ok); there are none when start is at or below the block after
   the cursor LIB.  The consumer ends on the hub's chain from `start` on. *)
Definition tolerate (start : N) (evs : list event) : list event :=
  filter (fun e => negb (step_eqb (estep e) SIrr && (bnum (eblk e) <? start))) evs.

Definition C05_through_forked_consumer : Prop :=
  forall s hd sg start c csg path j je evs,
    wf_state s -> head_chain s hd sg -> starts_within sg start ->
    block_in (ri (cu_blk c)) sg = false -> cursor_numbered (db s) c ->
    complete_segment (db s) (cu_blk c) = Some (csg, true) ->
    starts_within csg start ->
    (exists x, In x sg /\ sid x = ri (cu_lib c) /\ snum x = rn (cu_lib c)) ->
    branch_to (db s) sg (ri (cu_blk c)) path j -> find j (store (db s)) = Some je ->
    rn (cu_lib c) <= bnum (eb je) ->                   (* the cursor LIB is not above the junction *)
    start <= bnum (eb je) + 1 ->                       (* start at or below the block after the junction *)
    blocks_through_cursor s start c = BOk evs ->
    let kept := filter (from_start start) sg in
    let nfinal := length (filter (fun x => final_cur c x || final_now s x) kept) in
    cons_fold cons0 (tolerate start evs) = Some (mkCons (rev (map seg_blk kept)) nfinal (negb (Nat.eqb nfinal 0))) /\
    (start <= rn (cu_lib c) + 1 -> tolerate start evs = evs) /\
    (* with a cursor LIB not above the hub LIB: exactly the blocks up to the hub LIB final *)
    (rn (cu_lib c) <= rn (libref (db s)) -> nfinal = length (filter (final_now s) kept)).

(* ------------------------------------------------------------------ 3. hub.SourceThroughCursor *)

(* from_num_spec (Spec/C09_Spec.v) for an arbitrary answer *)
Definition num_answer_spec (s : fstate) (n : N) (b : burst) : Prop :=
  match b with
  | BOk evs =>
      exists hd sg pre x suf,
        servable s n hd sg pre x suf /\ evs = map (snap_event s hd) (x :: suf) /\
        NoDup (map bid (map eblk evs))
  | BErr =>
      forall hd sg, has_lib (db s) = true -> last_sent s = Some hd ->
                    complete_segment (db s) (bref hd) = Some (sg, true) ->
                    forall x, In x sg -> bnum (seg_blk x) <> n
  | BPanic | BFuel => False
  end.

Definition C05_hub_through : Prop :=
  forall s start c,
    (* the cursor block is below the start block: the cursor is ignored, plain snapshot from start *)
    (rn (cu_blk c) < start -> hub_through_cursor s start c = blocks_from_num s start) /\
    (rn (cu_blk c) < start -> wf_state s -> num_answer_spec s start (hub_through_cursor s start c)) /\
    (* otherwise blocksThroughCursor *)
    (start <= rn (cu_blk c) -> hub_through_cursor s start c = blocks_through_cursor s start c).

(* ------------------------------------------------------------------ 4. final-only cursors *)

Definition irr_events (evs : list event) : list event := filter (fun e => matches_irr (estep e)) evs.

(* the events of the fast path for a block the hub holds final (cursor LIB = the block itself) and for a
   block above the hub LIB *)
Definition final_event (st : step) (hd : block) (x : seg) : event :=
  let b := seg_blk x in mkEv st b (bref b) (bref hd) (bref b) None 0 0.
Definition new_event (s : fstate) (hd : block) (x : seg) : event :=
  let b := seg_blk x in mkEv SNew b (bref b) (bref hd) (libref (db s)) None 0 0.

Definition not_final_now (s : fstate) (x : seg) : bool := negb (final_now s x).

(* A cursor that is not an Undo cursor (in particular Irreversible / New+Irreversible) whose block xc and
   LIB are on the head's segment: sg = lo ++ xc :: hi. *)
Definition C05_final_only : Prop :=
  forall s hd sg c lo xc hi,
    wf_state s -> head_chain s hd sg ->
    matches_undo (cu_step c) = false ->
    sg = lo ++ xc :: hi -> sid xc = ri (cu_blk c) -> snum xc = rn (cu_blk c) ->    (* cursor block canonical, with its number *)
    (exists x, In x sg /\ sid x = ri (cu_lib c) /\ snum x = rn (cu_lib c)) ->      (* cursor LIB canonical, with its number *)
    (* already held, numbered above the cursor LIB, final for the hub: announced Irreversible *)
    let held := filter (fun x => above_clib c x && final_now s x) (lo ++ [xc]) in
    (* after the cursor block (and above the cursor LIB) *)
    let after := filter (above_clib c) hi in
    let fin := filter (final_now s) after in           (* up to the hub LIB: New+Irreversible *)
    let rest := filter (not_final_now s) after in      (* above it: New *)
    let evs := map (final_event SIrr hd) held ++ map (final_event SNewIrr hd) fin ++ map (new_event s hd) rest in
    blocks_from_cursor s c = BOk evs /\
    after = fin ++ rest /\
    (* the irreversible events: the held part, then the canonical final blocks after the cursor block *)
    map eblk (irr_events evs) = map seg_blk (held ++ fin) /\
    (* a cursor LIB not above the cursor block (C04) loses nothing after the cursor block *)
    (rn (cu_lib c) <= rn (cu_blk c) -> after = hi) /\
    (* a cursor block that is final for the hub: everything held above the cursor LIB is announced *)
    (rn (cu_blk c) <= rn (libref (db s)) -> held = filter (above_clib c) (lo ++ [xc])) /\
    (* the cursor of a final event (LIB = the block itself): the burst starts right after the cursor block;
       its irreversible events are exactly the canonical final blocks after the cursor block *)
    (rn (cu_lib c) = rn (cu_blk c) ->
       held = [] /\ fin = filter (final_now s) hi /\
       blocks_from_cursor s c = BOk (map (final_event SNewIrr hd) fin ++ map (new_event s hd) (filter (not_final_now s) hi)) /\
       map eblk (irr_events evs) = map seg_blk (filter (final_now s) hi)).

(* ------------------------------------------------------------------ 5. no source; no panic, no fuel exhaustion *)

Definition served_or_not (b : burst) : Prop := (exists evs, b = BOk evs) \/ b = BErr.

Definition C05_through_no_source : Prop :=
  forall s start c,
    (has_lib (db s) = false -> blocks_through_cursor s start c = BErr) /\
    (forall hd sg, last_sent s = Some hd -> complete_segment (db s) (bref hd) = Some (sg, false) ->
                   blocks_through_cursor s start c = BErr) /\
    (forall hd, last_sent s = Some hd -> complete_segment (db s) (bref hd) = Some ([], true) ->
                blocks_through_cursor s start c = BErr) /\
    (* start below the retained chain *)
    (forall hd s0 sg, last_sent s = Some hd -> complete_segment (db s) (bref hd) = Some (s0 :: sg, true) ->
                      start < snum s0 -> blocks_through_cursor s start c = BErr) /\
    (* with a LIB and without a head the Go code dereferences lastBlockSent = nil (blocksFromNum returns an
       error instead); a hub has a LIB only once it has a head or is about to (C09) *)
    (has_lib (db s) = true -> last_sent s = None ->
       blocks_through_cursor s start c = BPanic /\ blocks_from_cursor s c = BPanic).

(* in a well-formed state with a head every request is answered by a burst or by "no source":
   the model never runs out of fuel and never takes the nil-dereference branch *)
Definition C05_total : Prop :=
  forall s start c, wf_state s -> last_sent s <> None ->
    served_or_not (blocks_from_cursor s c) /\
    served_or_not (blocks_through_cursor s start c) /\
    served_or_not (hub_through_cursor s start c).
