(* C03: what acceptance by the fork-choice follower c03_follow (Check/Fk_Props_Check.v) MEANS.
   The reference fork choice is Spec/ForkChoice.v (fc_step: received blocks, LIB, tip).  The check runs
   c03_follow on every observed implementation trace; c03_monitor_sound proves that acceptance gives,
   after EVERY incoming block, "the tip of the push/pop consumer's chain = the reference tip = the
   head reported by HeadInfo" (and, with the Irreversible filter bit, "the last block announced final =
   the reference's final block"). *)
From BV Require Import Base.Prelude Model.Block Model.Forkable Spec.Consumer Spec.ForkChoice
  Check.Fk_Check Check.Fk_Props_Check.
Local Open Scope N_scope.

Definition fc_run (cfg : config) (fc : fc_state) (h : list block) : fc_state :=
  fold_left (fc_step (c_first cfg) (c_incl cfg) (c_alltrig cfg)) h fc.

Definition last_final_id (start : N) (l : list event) : N :=
  fold_left (fun acc e => match estep e with SIrr | SNewIrr => bid (eblk e) | _ => acc end) l start.

Definition C03_monitor_sound : Prop :=
  forall cfg lib fc st lastfin h os, c03_follow cfg lib fc st lastfin h os = true ->
    forall n, (n < length h)%nat -> (n < length os)%nat ->
      let evs := concat (map o_events (firstn (S n) os)) in
      let fcn := fc_run cfg fc (firstn (S n) h) in
      exists stn, apply_all lib st evs = Some stn /\
        top_id stn = oblock_id (fc_tip fcn) /\
        (match o_head (nth n os (mkObs [] ROk None 0 None)) with Some (r, _) => ri r | None => 0 end) = oblock_id (fc_tip fcn) /\
        (f_irr (c_filter cfg) = true -> last_final_id lastfin evs = oblock_id (fc_final fcn)).
