(* C09 - hub snapshots are the canonical chain; readiness and servable window are true.
   Statements about the EXISTING models Model/ForkDB.v, Model/Burst.v, Model/Hub.v.

   Vocabulary
   - the store of a forkdb is an association list of entries keyed by block id; `wf_store` is the
     well-formedness the fuelled parent walks rely on (it is what `Spec/Universe.wf_b` gives for the
     blocks of a history: one block per id, ids non-zero, a stored parent is strictly lower);
   - the "retained canonical chain" of a state is BY DEFINITION the complete segment of its head,
     `complete_segment (db s) (bref head)`, oldest first. *)
From Coq Require Import Sorted Permutation.
From BV Require Import Base.Prelude Model.Block Model.ForkDB Model.Forkable Model.ForkableLookups
  Model.Burst Model.Hub.
Local Open Scope N_scope.

(* ------------------------------------------------------------------ well-formed stores *)

Definition key (e : entry) : N := bid (eb e).

(* `find id l = Some e -> key e = id` needs no hypothesis (C09_Store.find_key). *)
Record wf_store (l : list entry) : Prop := mk_wf_store {
  wfs_nodup : NoDup (map key l);                                  (* one entry per id *)
  wfs_nonzero : forall e, In e l -> key e <> 0;                   (* 0 is the empty id *)
  wfs_parent : forall e p, In e l -> In p l -> key p = bparent (eb e) ->
               bnum (eb p) < bnum (eb e) }.                       (* a stored parent is strictly lower *)

Fixpoint nodup_b (l : list N) : bool :=
  match l with [] => true | x :: t => negb (memN x t) && nodup_b t end.
Definition wf_store_b (l : list entry) : bool :=
  nodup_b (map key l) && forallb (fun e => negb (key e =? 0)) l &&
  forallb (fun e => forallb (fun p => negb (key p =? bparent (eb e)) || (bnum (eb p) <? bnum (eb e))) l) l.

(* a new block fits a store: its stored parent is lower, its stored children are higher *)
Definition fits (b : block) (l : list entry) : Prop :=
  forall p, In p l -> (key p = bparent b -> bnum (eb p) < bnum b) /\
                      (bparent (eb p) = bid b -> bnum b < bnum (eb p)).

(* the number InitLIB registers without a link is not registered under the empty id
   (the hub never has one: it starts from `fs_init LNone` and PurgeBeforeLIB drops it) *)
Definition extra_ok (d : forkdb) : Prop := forall r, extra d = Some r -> ri r <> 0.
Definition wf_db (d : forkdb) : Prop := wf_store (store d) /\ extra_ok d.

(* the head (lastBlockSent) is stored under its own number *)
Record wf_state (s : fstate) : Prop := mk_wf_state {
  wst_db : wf_db (db s);
  wst_head : forall hd e, last_sent s = Some hd -> find (bid hd) (store (db s)) = Some e ->
             bnum (eb e) = bnum hd }.

Definition wf_state_b (s : fstate) : bool :=
  wf_store_b (store (db s)) &&
  match extra (db s) with Some r => negb (ri r =? 0) | None => true end &&
  match last_sent s with
  | Some hd => match find (bid hd) (store (db s)) with Some e => bnum (eb e) =? bnum hd | None => true end
  | None => true
  end.

(* preservation by the primitives Forkable uses on the store *)
Definition C09_wf_preserved : Prop :=
  (forall d b, wf_store (store d) -> fits b (store d) -> wf_store (store (fst (add_link d b)))) /\
  (forall l id, wf_store l -> wf_store (set_sent id l)) /\
  (forall d k, wf_store (store d) -> wf_store (store (purge_before_lib d k))) /\
  (forall d r, wf_store (store d) -> wf_store (store (move_lib d r))) /\
  wf_store (store db_empty).

(* the fuel of the walks is sufficient: the out-of-fuel value None is never returned *)
Definition C09_fuel_sufficient : Prop :=
  (forall d start, wf_store (store d) -> complete_segment d start <> None) /\
  (forall d start target, wf_db d -> block_in_chain d start target <> None) /\
  (forall s b, wf_db (db s) -> linkable s b <> None) /\
  (forall d sg c id, wf_store (store d) -> undo_walk (fuel_of d) d sg c id [] <> None).

(* ------------------------------------------------------------------ the complete segment *)

Definition seg_blk (x : seg) : block := eb (sent x).
Definition seg_link (a b : seg) : Prop := bparent (seg_blk b) = sid a.       (* b's parent is a *)
Definition seg_lt (a b : seg) : Prop := bnum (seg_blk a) < bnum (seg_blk b).
(* the id the walk stops at: the first id that is not stored *)
Definition seg_bottom (start : N) (sg : list seg) : N :=
  match sg with [] => start | x :: _ => bparent (seg_blk x) end.

Record segment_of (d : forkdb) (start : ref) (sg : list seg) (reach : bool) : Prop := mk_segment_of {
  (* every element is a stored entry, recorded under its id *)
  so_stored : forall x, In x sg -> find (sid x) (store d) = Some (sent x);
  (* consecutive elements are parent and child *)
  so_linked : Sorted seg_link sg;
  (* it ends at the start block, which carries the number of the start reference; the others carry
     the number of their stored block *)
  so_top : forall pre x, sg = pre ++ [x] ->
           sid x = ri start /\ snum x = rn start /\ forall y, In y pre -> snum y = bnum (seg_blk y);
  (* it is maximal downwards: the id below its first element (the start id when it is empty) is not stored *)
  so_maximal : find (seg_bottom (ri start) sg) (store d) = None;
  (* the flag: the walk visited the LIB id - on the segment or as the first missing id *)
  so_reach : reach = true <-> In (ri (libref d)) (map sid sg ++ [seg_bottom (ri start) sg]) }.

Definition C09_segment_chain : Prop :=
  forall d start,
    (* what the code computes *)
    (forall sg reach, complete_segment d start = Some (sg, reach) -> segment_of d start sg reach) /\
    (* ... and nothing else satisfies the description *)
    (forall sg reach sg' reach', segment_of d start sg reach -> segment_of d start sg' reach' ->
                                 sg' = sg /\ reach' = reach) /\
    (* under a well-formed store it is computed within the fuel and numbers strictly increase *)
    (wf_store (store d) ->
       exists sg reach, complete_segment d start = Some (sg, reach) /\ Sorted seg_lt sg).

(* elements recorded under the id and number of their block *)
Definition seg_std (x : seg) : Prop := sid x = bid (seg_blk x) /\ snum x = bnum (seg_blk x).

(* for the head of a well-formed state *)
Definition C09_head_segment : Prop :=
  forall s hd sg reach, wf_state s -> last_sent s = Some hd ->
    complete_segment (db s) (bref hd) = Some (sg, reach) ->
    Forall seg_std sg /\ Sorted seg_link sg /\ StronglySorted seg_lt sg /\
    NoDup (map sid sg) /\
    (forall x, In x sg -> find (sid x) (store (db s)) = Some (sent x)) /\
    (forall pre x, sg = pre ++ [x] -> sid x = bid hd /\ snum x = bnum hd).

(* ------------------------------------------------------------------ SourceFromBlockNum *)

(* the event a snapshot carries for a segment element *)
Definition snap_event (s : fstate) (hd : block) (x : seg) : event :=
  let b := seg_blk x in
  let libr := libref (db s) in
  mkEv (if bnum b <=? rn libr then SNewIrr else SNew)      (* new+irreversible up to the LIB, New above *)
       b
       (bref b)                                              (* cursor block = the block *)
       (bref hd)                                             (* cursor head = the head *)
       (if bnum b <? rn libr then bref b else libr)         (* cursor LIB = hub LIB capped at the block *)
       None 0 0.

Definition servable (s : fstate) (n : N) (hd : block) (sg pre : list seg) (x : seg) (suf : list seg) : Prop :=
  has_lib (db s) = true /\ last_sent s = Some hd /\
  complete_segment (db s) (bref hd) = Some (sg, true) /\
  sg = pre ++ x :: suf /\ bnum (seg_blk x) = n /\
  (forall y, In y pre -> bnum (seg_blk y) < n) /\ (forall y, In y suf -> n < bnum (seg_blk y)).

Definition from_num_spec (s : fstate) (n : N) : Prop :=
    match blocks_from_num s n with
    | BOk evs =>
        exists hd sg pre x suf,
          servable s n hd sg pre x suf /\
          evs = map (snap_event s hd) (x :: suf) /\           (* the chain from n to head, in order *)
          NoDup (map bid (map eblk evs))                      (* each block once *)
    | BErr =>
        (* no LIB, no head, the segment does not reach the LIB, or no retained canonical block has number n *)
        forall hd sg, has_lib (db s) = true -> last_sent s = Some hd ->
                      complete_segment (db s) (bref hd) = Some (sg, true) ->
                      forall x, In x sg -> bnum (seg_blk x) <> n
    | BPanic | BFuel => False
    end.

Definition C09_from_num : Prop := forall s n, wf_state s -> from_num_spec s n.

(* the cursor LIB of a snapshot event is never above the event's block *)
Definition C09_snapshot_cursor : Prop :=
  forall s hd x, let e := snap_event s hd x in
    rn (elib e) <= bnum (eblk e) /\ ecblk e = bref (eblk e) /\ ehead e = bref hd /\
    (estep e = SNewIrr <-> bnum (eblk e) <= rn (libref (db s))) /\
    (estep e = SNew <-> rn (libref (db s)) < bnum (eblk e)).

(* ------------------------------------------------------------------ LowestBlockNum *)

Definition C09_lowest : Prop :=
  forall h hd x0 sg,
    wf_state (h_f h) -> h_ready h = true ->
    has_lib (db (h_f h)) = true ->          (* see notes: LowestBlockNum itself does not look at HasLIB *)
    last_sent (h_f h) = Some hd ->
    complete_segment (db (h_f h)) (bref hd) = Some (x0 :: sg, true) ->
    hub_lowest h = bnum (seg_blk x0) /\
    (exists evs, blocks_from_num (h_f h) (hub_lowest h) = BOk evs /\
                 map eblk evs = map seg_blk (x0 :: sg)) /\
    (forall n, n < hub_lowest h -> blocks_from_num (h_f h) n = BErr).

(* in every other ready situation (no head, segment not reaching the LIB, empty segment) it is 0 *)
Definition C09_lowest_zero : Prop :=
  forall h, wf_state (h_f h) -> h_ready h = true ->
    (last_sent (h_f h) = None -> hub_lowest h = 0) /\
    (forall hd sg, last_sent (h_f h) = Some hd ->
        complete_segment (db (h_f h)) (bref hd) = Some (sg, false) -> hub_lowest h = 0) /\
    (forall hd, last_sent (h_f h) = Some hd ->
        complete_segment (db (h_f h)) (bref hd) = Some ([], true) -> hub_lowest h = 0).

Definition C09_not_ready : Prop :=
  forall h, h_ready h = false -> hub_lowest h = 0 /\ hub_head h = None.

(* ------------------------------------------------------------------ SourceFromBlockNumWithForks *)

(* the order of the snapshot: by number, then by id *)
Definition nb_le (a b : block) : Prop := bnum a < bnum b \/ (bnum a = bnum b /\ bid a <= bid b).

Definition C09_with_forks : Prop :=
  forall s n,
    (has_lib (db s) = false -> blocks_from_num_with_forks s n = None) /\
    (has_lib (db s) = true ->
       exists l, blocks_from_num_with_forks s n = Some l /\
         (* the retained blocks at or above n, as a multiset *)
         Permutation l (map eb (filter (fun e => n <=? bnum (eb e)) (store (db s)))) /\
         (* in non-decreasing number (ties by id) *)
         StronglySorted nb_le l /\ StronglySorted (fun a b => bnum a <= bnum b) l /\
         (* each exactly once *)
         (wf_store (store (db s)) -> NoDup (map bid l))).

(* ------------------------------------------------------------------ readiness *)

(* BlockInCurrentChain from `cur` towards height `target`: the walk over parent links reaches a block
   numbered `target` (hit), or steps from a block above `target` to one below it (the "hole" answer,
   which names the upper block with the target number and is never empty) *)
Inductive links_to (d : forkdb) (target : N) : N -> Prop :=
| lt_hit : forall cur pn, num_of d (link_of d cur) = Some pn -> pn = target ->
           is_empty (mkR (link_of d cur) pn) = false -> links_to d target cur
| lt_hole : forall cur pn, num_of d (link_of d cur) = Some pn -> pn < target -> links_to d target cur
| lt_step : forall cur pn, num_of d (link_of d cur) = Some pn -> target < pn ->
            links_to d target (link_of d cur) -> links_to d target cur.

Definition chain_hit (d : forkdb) (start : ref) (target : N) : Prop :=
  (rn start = target /\ is_empty start = false) \/ (rn start <> target /\ links_to d target (ri start)).

(* Forkable.Linkable: from b when it is stored; otherwise from the PARENT OF b's stored parent
   (the code reads links[blk.ParentId] and starts the walk there) *)
Definition C09_linkable : Prop :=
  forall s b, wf_db (db s) ->
    (linkable s b = Some true <->
       (find (bid b) (store (db s)) <> None /\ chain_hit (db s) (bref b) (blib b)) \/
       (find (bid b) (store (db s)) = None /\
        exists pe pn, find (bparent b) (store (db s)) = Some pe /\
                      num_of (db s) (bparent (eb pe)) = Some pn /\
                      chain_hit (db s) (mkR (bparent (eb pe)) pn) (blib b))) /\
    (linkable s b = Some true \/ linkable s b = Some false).

(* a live run of the hub: like a real source, stops at the first error *)
Fixpoint hub_run (first kept : N) (h : hub) (l : list (block * pass)) : hub :=
  match l with
  | [] => h
  | (b, p) :: l' =>
      let '(h', _, r) := hub_live first kept h p b in
      match r with ROk => hub_run first kept h' l' | _ => h' end
  end.

Definition C09_ready_latch : Prop :=
  (forall first kept h p b h' evs r,
     hub_live first kept h p b = (h', evs, r) ->
     (* a latch *)
     (h_ready h = true -> h_ready h' = true) /\
     (* set only on a live block at or above the head that links, in the state after it was
        processed, to the LIB height it declares, and only once the forkable has a head *)
     (h_ready h = false -> h_ready h' = true ->
        r = ROk /\ head_num (h_f h) <= bnum b /\
        linkable (h_f h') b = Some true /\ last_sent (h_f h') <> None)) /\
  (forall first kept h l, h_ready h = true -> h_ready (hub_run first kept h l) = true).

(* ------------------------------------------------------------------ reachable states are well formed *)

(* a block universe: one block per id, ids non-zero, a parent is strictly lower.
   `Spec/Universe.wf_b U = true` implies it (C09_wf_universe_b). *)
Record wf_universe (U : list block) : Prop := mk_wf_universe {
  wu_id : forall a b, In a U -> In b U -> bid a = bid b -> a = b;
  wu_nonzero : forall b, In b U -> bid b <> 0;
  wu_parent : forall a p, In a U -> In p U -> bid p = bparent a -> bnum p < bnum a }.

(* the state holds blocks of U only *)
Definition store_in (U : list block) (s : fstate) : Prop :=
  (forall e, In e (store (db s)) -> In (eb e) U) /\ (forall hd, last_sent s = Some hd -> In hd U).

Definition pass_in (U : list block) (p : pass) : Prop :=
  match p with PNil => True | PBlocks l => forall b, In b l -> In b U end.

Definition C09_wf_reachable : Prop :=
  forall U, wf_universe U ->
    (* one ProcessBlock, any configuration (filters, handler failures, LIB modes of the state) *)
    (forall cfg s b s' evs r, wf_state s -> store_in U s -> In b U ->
       fk_step cfg s b = (s', evs, r) -> wf_state s' /\ store_in U s') /\
    (* every history in discovery mode: any order, duplicates, orphans *)
    (forall cfg h, incl h U -> wf_state (feed cfg (fs_init LNone) h) /\ store_in U (feed cfg (fs_init LNone) h)) /\
    (* every run of the hub: live blocks and one-block passes drawn from U *)
    (forall first kept l, (forall b p, In (b, p) l -> In b U /\ pass_in U p) ->
       wf_state (h_f (hub_run first kept hub_init l)) /\ store_in U (h_f (hub_run first kept hub_init l))).

(* in a hub (hold-until-LIB) a head exists only once a LIB is set: the hypothesis `has_lib` of
   C09_lowest holds in every state of a hub run that has a head *)
Definition C09_hub_head_has_lib : Prop :=
  forall first kept l hd,
    last_sent (h_f (hub_run first kept hub_init l)) = Some hd ->
    has_lib (db (h_f (hub_run first kept hub_init l))) = true.

(* the snapshot theorems for every state of every hub run over a well-formed universe: no
   hypothesis on the state is left *)
Definition C09_hub_snapshots : Prop :=
  forall U first kept l, wf_universe U -> (forall b p, In (b, p) l -> In b U /\ pass_in U p) ->
    let h := hub_run first kept hub_init l in
    wf_state (h_f h) /\
    (forall n, from_num_spec (h_f h) n) /\
    (forall hd x0 sg, h_ready h = true -> last_sent (h_f h) = Some hd ->
       complete_segment (db (h_f h)) (bref hd) = Some (x0 :: sg, true) ->
       hub_lowest h = bnum (seg_blk x0) /\
       (exists evs, blocks_from_num (h_f h) (hub_lowest h) = BOk evs /\
                    map eblk evs = map seg_blk (x0 :: sg)) /\
       (forall n, n < hub_lowest h -> blocks_from_num (h_f h) n = BErr)).
