(* C12 — readable statement, full strength: every schedule (list of thread ids, a blocked thread
   stutters), every number of inner sources, every script (= failure pattern) of the inner sources.

   "Shutdown was called" is the state in which the once of the shutter is won.  "Run returns and
   Terminated is reached" is stated, for every reachable state, as
     (closing)     once Shutdown is called and the terminating channel is not closed yet, the thread
                   that won the once is enabled and its step closes the channel;
     (no deadlock) with the channel closed, as long as Run has not returned or Terminated is not
                   reached, some thread is enabled — there is no reachable state in which Run's
                   thread waits for ever;
     (liveness)    with the channel closed, every schedule made of `rank s` fair segments (each
                   gives a turn to every thread enabled at its start: weak fairness) ends with
                   Run returned and Terminated reached, whatever else is scheduled.
   Assumed to return (steps always enabled): handler calls, factory calls, time.Sleep; for the file
   source: OpenObject and the header read succeed.  Inner sources obey the Source contract. *)
From BV Require Import Base.Prelude Model.Lifecycle.

Section Generic.
  Context {state tid : Type}.
  Variable step : state -> tid -> state.
  Variable reach : state -> Prop.                       (* reachable from an initial state *)
  Variables requested terminating fin : state -> bool.  (* once won, not closed | closed | returned && terminated *)

  Definition Returns : Prop :=
    (forall s, reach s -> requested s = true -> exists t, terminating (step s t) = true) /\
    (forall s, reach s -> terminating s = true -> fin s = false -> exists t, step s t <> s) /\
    exists rank : state -> nat,
      forall s, reach s -> terminating s = true ->
      forall sched, fair_rounds step (rank s) s sched -> fin (run step sched s) = true.

  (* no handler call BEGINS after `quiet` holds (quiet: Run returned [and Terminated]; for the multiplexed
     source also the weaker "the terminating channel is closed") *)
  Definition NoCallAfter (quiet : state -> Prop) (hbegun : state -> nat) : Prop :=
    forall s, quiet s -> forall sched, hbegun (run step sched s) = hbegun s.
End Generic.

Definition is_close (x : option sdstage) : bool := match x with Some SClose => true | _ => false end.

(* ---- reachable states *)
Definition et_reach (s : Et.state) : Prop := exists sup sched, s = run (Et.step true) sched (Et.init sup).
Definition jn_reach (lf fa : bool) (s : Jn.state) : Prop :=
  exists fs ls sched, s = run (Jn.step (Jn.mkcfg true lf fa)) sched (Jn.init fs ls).
Definition sb_reach (s : Sb.state) : Prop := exists cap ps sched, s = run Sb.step sched (Sb.init cap ps).
(* multiplexed: `fx` = with (true: the code with repo_patches/C12_fix_mux_no_call_after_shutdown.diff) or without (false)
   the test of the terminating channel in the handler wrapper *)
Definition mx_reach (fx : bool) (s : Mx.state) : Prop := exists n sup sched, s = run (Mx.step fx) sched (Mx.init n sup).
Definition fs_reach (s : Fs.state) : Prop := exists st sa sched, s = run Fs.step sched (Fs.init st sa).

(* ---- c12_returns *)
Definition C12_returns_eternal : Prop :=
  Returns (Et.step true) et_reach (fun s => is_close (Et.xs s)) Et.terminating Et.done.
Definition C12_returns_joining : Prop :=
  forall lf fa, Returns (Jn.step (Jn.mkcfg true lf fa)) (jn_reach lf fa) (fun s => is_close (Jn.sdst s)) Jn.terminating Jn.done.
Definition C12_returns_subscription : Prop :=
  Returns Sb.step sb_reach (fun s => is_close (Sb.sdst s)) Sb.terminating Sb.done.
Definition C12_returns_multiplexed : Prop :=
  forall fx, Returns (Mx.step fx) (mx_reach fx) (fun s => is_close (Mx.sdst s)) Mx.terminating Mx.done.
Definition C12_returns_file : Prop :=
  Returns Fs.step fs_reach (fun s => is_close (Fs.sdst s)) Fs.terminating Fs.done.

(* supporting statement for the file source (which blocking point has which escape): with the Shutdown
   complete, run() is enabled at every blocking point that has a Terminating arm; the only other one is the
   receive on the `blocks` channel of the current file, whose goroutine (once running) is enabled *)
Definition fs_waits_for_file (s : Fs.state) (k : nat) : Prop :=
  Fs.pcr s = Fs.RRange k /\ exists f, nth_error (Fs.files s) k = Some f /\ Fs.f_slot f = None /\ Fs.f_pc f <> Fs.FClosed.
Definition C12_file_blocking_points : Prop :=
  (forall s c, fs_reach s -> Fs.terminated s = true -> Fs.returned s = false ->
     Fs.step s (Fs.TRun c) <> s \/ (exists k, Fs.pcr s = Fs.RRange k /\ nth_error (Fs.files s) k = None) \/
     exists k, fs_waits_for_file s k) /\
  (forall s k f, Fs.terminating s = true -> nth_error (Fs.files s) k = Some f ->
     (Fs.f_pc f = Fs.FOpening \/ Fs.f_pc f = Fs.FStreaming) -> Fs.step s (Fs.TFile k true) <> s).

Definition C12_returns : Prop :=
  C12_returns_eternal /\ C12_returns_joining /\ C12_returns_subscription /\ C12_returns_multiplexed /\
  C12_returns_file.

(* ---- c12_no_call_after *)
Definition C12_no_call_after : Prop :=
  (forall fx, NoCallAfter (Et.step fx) (fun s => Et.returned s = true) Et.hbegun) /\
  (forall c, NoCallAfter (Jn.step c) (fun s => Jn.returned s = true) Jn.hbegun) /\
  NoCallAfter Sb.step (fun s => Sb.returned s = true) Sb.hbegun /\
  NoCallAfter Fs.step (fun s => Fs.returned s = true) Fs.hbegun /\
  (* multiplexed (repaired wrapper): after Run returned and Terminated no handler call begins, whatever the inner
     sources' goroutines still do (no hypothesis on them: an inner source waiting for handlerLock gives up) ... *)
  NoCallAfter (Mx.step true) (fun s => Mx.returned s = true /\ Mx.terminated s = true) Mx.hbegun /\
  (* ... indeed none begins once the terminating channel is closed, in ANY state (reachable or not), under every schedule *)
  NoCallAfter (Mx.step true) (fun s => Mx.terminating s = true) Mx.hbegun /\
  (* ... and it never starts an inner source once its terminating channel is closed *)
  (forall fx s t k i, Mx.terminating s = true -> nth_error (Mx.inners (Mx.step fx s t)) k = Some i -> Mx.started i = true ->
     exists i0, nth_error (Mx.inners s) k = Some i0 /\ Mx.started i0 = true).

(* ---- c12_mutex: no handler call begins while another one is in progress *)
Definition C12_mutex : Prop :=
  forall fx nslots sup sched,
    let s := run (Mx.step fx) sched (Mx.init nslots sup) in Mx.overlap s = false /\ Mx.hactive s <= 1.

(* ---- c12_fail_stops_all *)
Definition C12_fail_stops_all : Prop :=
  (* the goroutine that got the handler error is enabled and its next step calls Shutdown (wins the once or finds it won) *)
  (forall fx s k i b, nth_error (Mx.inners s) k = Some i -> Mx.i_pc i = Mx.IUnl b false -> Mx.sdst (Mx.step fx s (Mx.TIn k)) <> None) /\
  (* once Terminated (reached by C12_returns_multiplexed), every inner source that was ever started is shut down *)
  (forall fx nslots sup sched,
     let s := run (Mx.step fx) sched (Mx.init nslots sup) in
     Mx.terminated s = true ->
     forall k i, nth_error (Mx.inners s) k = Some i -> Mx.started i = true -> Mx.i_term i = true).

(* ---- c12_restart_point: in the chronological log, a factory call gets the last block accepted before it *)
Fixpoint last_accepted (l : list ev) : nat :=   (* l newest first; 0 = BlockRefEmpty *)
  match l with
  | [] => 0
  | EHEnd _ b true :: _ => b
  | _ :: l' => last_accepted l'
  end.
Definition C12_restart_point : Prop :=
  forall fx sup sched post r pre slot,
    Et.log (run (Et.step fx) sched (Et.init sup)) = post ++ EFactory slot r :: pre -> r = last_accepted pre.

(* ---- the code before the fixes: a reachable state, Shutdown complete, Run not returned, no thread enabled *)
Definition C12_eternal_unfixed_hangs : Prop :=
  exists sup sched, let s := run (Et.step false) sched (Et.init sup) in
    Et.terminated s = true /\ Et.returned s = false /\ forall t, Et.step false s t = s.
Definition C12_joining_unfixed_hangs : Prop :=
  exists lf fa fs ls sched, let c := Jn.mkcfg false lf fa in let s := run (Jn.step c) sched (Jn.init fs ls) in
    Jn.terminated s = true /\ Jn.returned s = false /\ forall t, Jn.step c s t = s.

(* ---- the handler wrapper of the multiplexed source before its repair (defect D1 of the hypothesis audit): a reachable
   state in which Run has returned, Terminated is reached and every inner source is shut down, from which a handler call
   BEGINS — after an external Shutdown (1st clause) and after the Shutdown made by a handler FAILURE (2nd clause) *)
Definition mx_late_call (s : Mx.state) : Prop :=
  mx_reach false s /\ Mx.returned s = true /\ Mx.terminated s = true /\
  (forall k i, nth_error (Mx.inners s) k = Some i -> Mx.i_term i = true) /\
  exists sched, Mx.hbegun (run (Mx.step false) sched s) = S (Mx.hbegun s).
Definition C12_mux_unfixed_late_call : Prop :=
  (exists s, mx_late_call s /\ Mx.failed s = false) /\ (exists s, mx_late_call s /\ Mx.failed s = true).
