(* C20 — readable statement (sequential part; the schedule part is Spec/C20_SchedSpec.v).

   "The block-stream server never blocks or fails its producer: each subscriber receives the last
    min(burst, buffered) blocks followed by every block pushed afterwards, in push order, until
    its buffer overflows, at which point only that subscriber's channel is closed, exactly once.
    Any burst value, including negative ones, yields a subscription or an error, never a crash,
    and the buffered window always holds the most recent distinct blocks up to its size."

   The statements quantify over EVERY sequence of operations (PushBlock, subscribe with any burst
   in Z, the hook attach with any channel capacity, unsubscribe, one non-blocking consumer
   receive), every buffer size in Z and both kinds of servers (buffered or not). *)
From BV Require Import Base.Prelude Model.BlockServer.
Local Open Scope Z_scope.

(* ------------------------------------------------------------------ vocabulary *)

Definition lastn {A} (n : nat) (l : list A) : list A := skipn (length l - n) l.

(* the last n elements for a Go int n: all of l when n >= |l|, none when n <= 0 (written so that it
   computes for n near +-2^63 as well; lastz n l = lastn (Z.to_nat n) l is C20_Window.lastz_lastn) *)
Definition lastz {A} (n : Z) (l : list A) : list A :=
  skipn (Z.to_nat (zlen l - Z.max 0 (Z.min n (zlen l)))) l.

Fixpoint pushes_of (ops : list op) : list N :=
  match ops with
  | [] => []
  | OPush x :: r => x :: pushes_of r
  | _ :: r => pushes_of r
  end.

(* number of distinct ids of a list *)
Fixpoint distinct (l : list N) : nat :=
  match l with
  | [] => O
  | x :: r => if memN x r then distinct r else S (distinct r)
  end.

(* The reference window: an id that is still buffered is not buffered twice (a re-push changes
   nothing); otherwise it becomes the newest block and the oldest is dropped beyond `size`. *)
Definition win_step (size : Z) (w : list N) (x : N) : list N :=
  if memN x w then w else lastz size (w ++ [x]).
Definition spec_window (size : Z) (pushes : list N) : list N := fold_left (win_step size) pushes [].

(* the burst a subscriber asking for `b` blocks gets when the window is w: the last min(b,|w|) *)
Definition burst_of (b : Z) (w : list N) : list N := lastz (Z.min b (zlen w)) w.

(* ------------------------------------------------------------------ window *)

Definition is_bad (o : oobs) : bool :=
  match o with ObPanic | ObBlocked => true | _ => false end.

Definition C20_window : Prop :=
  forall (size : Z) (ops : list op),
    let sv := final true size ops in
    let P := pushes_of ops in
    (* the window is the reference window of the pushes: subscribe / unsubscribe / consumers never change it *)
    window sv = spec_window size P /\
    (* distinct blocks, exactly min(size, number of distinct ids pushed) of them *)
    NoDup (window sv) /\
    zlen (window sv) = Z.max 0 (Z.min size (Z.of_nat (distinct P))) /\
    (* with pairwise distinct pushes it is literally the last `size` pushes *)
    (NoDup P -> window sv = lastz size P) /\
    (* the newest pushed block is buffered *)
    (size > 0 -> forall P' x, P = P' ++ [x] -> In x (window sv)) /\
    (* Ready() is exactly "size distinct blocks were seen": it never flips back *)
    ready sv = (Z.of_nat (distinct P) >=? size) /\
    (forall ops', ready sv = true -> ready (final true size (ops ++ ops')) = true).

Definition C20_window_unbuffered : Prop :=
  forall size ops, window (final false size ops) = [] /\ ready (final false size ops) = true.

(* ------------------------------------------------------------------ totality *)

(* no operation of any sequence panics or blocks; every burst in Z yields a subscription *)
Definition C20_total : Prop :=
  forall (buffered : bool) (size : Z) (ops : list op),
    length (trace buffered size ops) = length ops /\
    Forall (fun o => is_bad o = false) (trace buffered size ops) /\
    forall burst : Z, exists sv' h, subscribe (final buffered size ops) burst = SubOk sv' h.

(* ------------------------------------------------------------------ delivery *)

(* What ONE subscriber may depend on: the pushes made while it is subscribed and its own receives. *)
Inductive sev := EvPush (x : N) | EvCons.

Record sview := mkView { v_recv : list N; v_q : list N; v_closed : bool }.

(* reference behaviour of one subscription of capacity cap *)
Definition ref_step (cap : N) (v : sview) (e : sev) : sview :=
  match e with
  | EvPush x =>
      if v_closed v then v
      else if N.ltb (N.of_nat (length (v_q v))) cap then mkView (v_recv v) (v_q v ++ [x]) false
      else mkView (v_recv v) (v_q v) true          (* overflow: block dropped, channel closed *)
  | EvCons =>
      match v_q v with
      | x :: q => mkView (v_recv v ++ [x]) q (v_closed v)
      | [] => v
      end
  end.
Definition ref_sub (cap : N) (v : sview) (evs : list sev) : sview := fold_left (ref_step cap) evs v.

(* projection of a global operation sequence on subscriber k (listed = still subscribed) *)
Fixpoint proj (k : nat) (listed : bool) (ops : list op) : list sev :=
  match ops with
  | [] => []
  | OPush x :: r => if listed then EvPush x :: proj k listed r else proj k listed r
  | OUnsubscribe k' :: r => proj k (listed && negb (Nat.eqb k' k)) r
  | OConsume k' :: r => if Nat.eqb k' k then EvCons :: proj k listed r else proj k listed r
  | _ :: r => proj k listed r
  end.

Fixpoint ev_pushes (evs : list sev) : list N :=
  match evs with
  | [] => []
  | EvPush x :: r => x :: ev_pushes r
  | EvCons :: r => ev_pushes r
  end.

Definition view (s : sub) : sview := mkView (s_recv s) (s_q s) (s_chclosed s).

(* the burst and channel capacity a creating operation gives, in a server whose window is w *)
Definition creation (o : op) (w : list N) : option (list N * N) :=
  match o with
  | OSubscribe b =>
      let B := burst_of b w in          (* the window of a server without buffer is empty *)
      Some (B, Z.to_N (chan_base + zlen B))
  | OAttach c => Some ([], c)
  | _ => None
  end.

(* Whatever happened before (pre), a subscription created by `cre` and followed by any `post`:
   - gets handle k, is created with the burst B = last min(burst, buffered) blocks;
   - its state is the reference behaviour on ITS OWN projection of post (so it depends on no
     other subscriber, and the others do not depend on it);
   - close(channel) ran exactly once if it is closed, never otherwise. *)
Definition C20_delivery : Prop :=
  forall (buffered : bool) (size : Z) (pre post : list op) (cre : op) (B : list N) (cap : N),
    let sv1 := final buffered size pre in
    let k := length (sv_subs sv1) in
    creation cre (window sv1) = Some (B, cap) ->
    exists s,
      nth_error (sv_subs (final buffered size (pre ++ cre :: post))) k = Some s /\
      s_cap s = cap /\
      view s = ref_sub cap (mkView [] B false) (proj k true post) /\
      s_closed s = s_chclosed s /\
      s_ncloses s = (if s_chclosed s then 1%N else 0%N).

(* The reference behaviour, declaratively: everything sent to the subscriber (received ++ still
   queued) is the burst followed by a prefix of the later pushes, in push order; the prefix is
   everything while the channel is open; it is closed only by a push that found ITS queue full,
   and then stays closed with nothing added. *)
Definition C20_ref_meaning : Prop :=
  forall (cap : N) (B : list N) (evs : list sev),
    (N.of_nat (length B) <= cap)%N ->
    let v := ref_sub cap (mkView [] B false) evs in
    (exists n, v_recv v ++ v_q v = B ++ firstn n (ev_pushes evs) /\
               (v_closed v = false -> n = length (ev_pushes evs)) /\
               (v_closed v = true -> (n < length (ev_pushes evs))%nat)) /\
    (N.of_nat (length (v_q v)) <= cap)%N /\
    (v_closed v = true ->
       exists evs1 x evs2, evs = evs1 ++ EvPush x :: evs2 /\
         let v1 := ref_sub cap (mkView [] B false) evs1 in
         v_closed v1 = false /\ N.of_nat (length (v_q v1)) = cap /\
         v_recv v1 ++ v_q v1 = B ++ ev_pushes evs1 /\
         v_recv v ++ v_q v = v_recv v1 ++ v_q v1).

(* ------------------------------------------------------------------ the producer never waits *)

Definition not_consume (j : nat) (o : op) : bool :=
  match o with OConsume k => negb (Nat.eqb k j) | _ => true end.

Definition is_push_obs (o : oobs) : bool := match o with ObPush _ _ => true | _ => false end.

(* Whether or not subscriber j ever consumes: PushBlock returns the same way (never blocked, by
   C20_total), the producer-visible state is the same, every other subscriber has exactly the
   same state, and j itself stays subscribed with the same capacity. *)
Definition C20_nonblocking : Prop :=
  forall (buffered : bool) (size : Z) (ops : list op) (j : nat),
    let a := final buffered size ops in
    let b := final buffered size (filter (not_consume j) ops) in
    sv_buf a = sv_buf b /\ ready a = ready b /\
    filter is_push_obs (trace buffered size ops) =
      filter is_push_obs (trace buffered size (filter (not_consume j) ops)) /\
    length (sv_subs a) = length (sv_subs b) /\
    (forall k, k <> j -> nth_error (sv_subs a) k = nth_error (sv_subs b) k) /\
    (forall sa sb, nth_error (sv_subs a) j = Some sa -> nth_error (sv_subs b) j = Some sb ->
        s_cap sa = s_cap sb /\ s_listed sa = s_listed sb).

(* ------------------------------------------------------------------ before the fixes *)

(* the three defects of the unchanged code, as refutations on the model of that code *)
Definition C20_orig_negative_burst_panics : Prop :=
  exists b burst, burst < 0 /\ burst_plan_orig (Some b) burst = None.
Definition C20_orig_size0_panics : Prop :=
  exists x, push_buffer_orig (Some buf_new) 0 x = BPanic.
Definition C20_orig_window_shrinks : Prop :=
  exists size pushes b, push_all_orig (Some buf_new) size pushes = BOk (Some b) /\
    zlen (blist b) < Z.min size (Z.of_nat (distinct pushes)).
