(* C01, further statements: the handler-failure oracle, the inclusive starting LIB.
   Model: Model/Forkable.v (fk_step / fk_run).  Statements of Spec/C01_Spec.v are reused. *)
From BV Require Import Base.Prelude Model.Block Model.ForkDB Model.Forkable Spec.Consumer Spec.Universe Spec.C01_Spec.
Local Open Scope N_scope.

(* the same configuration with a handler that never fails *)
Definition nofail (cfg : config) : config :=
  mkCfg (c_first cfg) (c_incl cfg) (c_hold cfg) (c_kept cfg) (c_alltrig cfg) (c_filter cfg) None.

(* t is t0 cut right after handler call number k (calls numbered from 0 over the whole trace):
   the steps before the one containing call k are unchanged, that step delivers the prefix of its
   events that ends with call k and returns the handler error, and nothing follows *)
Definition cut_trace (k : N) (t0 t : trace) : Prop :=
  exists t1 pre post r rest,
    t0 = t1 ++ (pre ++ post, r) :: rest /\
    t = t1 ++ [(pre, RHandlerErr)] /\
    pre <> [] /\
    N.of_nat (length (all_events t1 ++ pre)) = k + 1.

(* what the oracle does to a run: nothing when it never fires, otherwise the cut *)
Definition oracle_run (cfg : config) (t0 t : trace) : Prop :=
  match c_fail_at cfg with
  | None => t = t0
  | Some k => if k <? N.of_nat (length (all_events t0)) then cut_trace k t0 t else t = t0
  end.

(* every run of the model, in every mode and on every history, is the oracle's cut of the run of the
   same configuration with a handler that never fails; that run never returns a handler error *)
Definition fk_run_oracle_statement : Prop :=
  forall cfg m h,
    oracle_run cfg (fk_run (nofail cfg) (fs_init m) h) (fk_run cfg (fs_init m) h) /\
    Forall (fun x => snd x <> RHandlerErr) (fk_run (nofail cfg) (fs_init m) h).

(* C01 transfers from the never-failing handler to every oracle: any mode, any history *)
Definition c01_failures_transfer_statement : Prop :=
  forall cfg m h, c01_statement (nofail cfg) m h -> c01_statement cfg m h.

(* the results of a run with an oracle: all Ok, except that the step containing the failing call
   returns the handler error and is the last one *)
Definition results_ok_or_last_err (t : trace) : Prop :=
  Forall (fun x => snd x = ROk) t \/
  exists t1 evs, t = t1 ++ [(evs, RHandlerErr)] /\ Forall (fun x => snd x = ROk) t1.

(* ---- goal 1: the fixed-LIB class of c01_fixed_lib_statement with EVERY handler oracle ---- *)
Definition c01_fixed_lib_failures_statement : Prop :=
  forall cfg r0 h,
    c_incl cfg = false ->
    f_new (c_filter cfg) = true -> f_undo (c_filter cfg) = true ->
    c01_fixed_scope_b r0 h = true ->
    c01_statement cfg (LExcl r0) h /\
    oracle_run cfg (fk_run (nofail cfg) (fs_init (LExcl r0)) h) (fk_run cfg (fs_init (LExcl r0)) h) /\
    results_ok_or_last_err (fk_run cfg (fs_init (LExcl r0)) h).

(* ---- goal 2: the same class with an inclusive starting LIB, every handler oracle ----
   (also proved for the two combinations of mode and includeInitialLIB flag that the constructor
   of the Go code never produces) *)
Definition start_mode (m : libmode) (r0 : ref) : Prop := m = LExcl r0 \/ m = LIncl r0.

Definition c01_fixed_lib_incl_statement : Prop :=
  forall cfg m r0 h,
    start_mode m r0 ->
    f_new (c_filter cfg) = true -> f_undo (c_filter cfg) = true ->
    c01_fixed_scope_b r0 h = true ->
    c01_statement cfg m h /\
    oracle_run cfg (fk_run (nofail cfg) (fs_init m) h) (fk_run cfg (fs_init m) h) /\
    results_ok_or_last_err (fk_run cfg (fs_init m) h) /\
    (c_fail_at cfg = None -> length (fk_run cfg (fs_init m) h) = length h).

(* ---- goal 3: LIB discovery with holdBlocksUntilLIB (mode LNone, c_hold = true) ----
   class: every block sits at or above one height n0 and declares n0 as its LIB; a block at the first
   streamable height has height n0 (otherwise SetLIB would make it the LIB at a height other than the
   declared one); no empty parent id.  Any tree above n0, several blocks of height n0, any arrival order
   (blocks that arrive before the first block of height n0 are held), duplicates, unlinkable blocks. *)
Definition disc_block_b (n0 first : N) (b : block) : bool :=
  negb (bparent b =? 0) && (blib b =? n0) && (n0 <=? bnum b) &&
  (if bnum b =? first then bnum b =? n0 else true).

Definition c01_disc_scope_b (n0 first : N) (h : list block) : bool :=
  wf_b h && forallb (disc_block_b n0 first) h.

Definition c01_fixed_lib_disc_statement : Prop :=
  forall cfg n0 h,
    c_hold cfg = true ->
    f_new (c_filter cfg) = true -> f_undo (c_filter cfg) = true ->
    c01_disc_scope_b n0 (c_first cfg) h = true ->
    c01_statement cfg LNone h /\
    oracle_run cfg (fk_run (nofail cfg) (fs_init LNone) h) (fk_run cfg (fs_init LNone) h) /\
    results_ok_or_last_err (fk_run cfg (fs_init LNone) h) /\
    (c_fail_at cfg = None -> length (fk_run cfg (fs_init LNone) h) = length h).
