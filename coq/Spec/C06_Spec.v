(* C06 — resuming from a cursor out of merged files: readable statements.

   Setting.  `merged` is the canonical chain stored in the merged-block files (ascending numbers,
   every block's parent is the block before it, ids pairwise distinct: `chain_ok`).  A file source
   started from the cursor `c` hands the resolver `file_delivery merged (rn (cu_lib c)) stop bundle`;
   in the property's setting this delivery starts with the cursor-LIB block `L` (`setting`), and
   `canon = L :: rest` below always denotes that delivered canonical chain.  `forked` are the
   one-block files of the forked-blocks store; `file_of forked c id` is the block the resolver
   obtains for an id (first file with that id among those numbered at or above the cursor LIB).

   The consumer's state at the cursor is a branch `hc ++ hf` hanging under `L` (`branch_from`):
   `hc` its blocks that are on the canonical chain, `hf` its pending forked blocks (a block whose
   parent is off the canonical chain is off it too: `C06_held_split`).  For an Undo cursor the
   cursor block itself is the block already undone: it sits on top of that branch but is not held. *)
From BV Require Import Base.Prelude Model.Block Model.Burst Model.CursorResolver Check.Burst_Check.
Local Open Scope N_scope.

(* ------------------------------------------------------------------ vocabulary *)

(* `l` is a parent-linked branch growing from block `p`, oldest first, numbers strictly increasing
   (skipped numbers allowed) *)
Fixpoint branch_from (p : block) (l : list block) : Prop :=
  match l with
  | [] => True
  | b :: l' => bparent b = bid p /\ bnum p < bnum b /\ branch_from b l'
  end.

Definition linked (l : list block) : Prop :=
  match l with [] => True | a :: l' => branch_from a l' end.

Definition chain_ok (l : list block) : Prop := linked l /\ NoDup (ids l).

Definition on_canon (canon : list block) (b : block) : Prop := In b canon.
Definition off_canon (canon : list block) (b : block) : Prop := ~ In (bid b) (ids canon).

(* blocks of an ascending list by number range *)
Definition between (lo hi : N) (l : list block) : list block :=      (* lo <  n <= hi *)
  filter (fun b => (lo <? bnum b) && (bnum b <=? hi)) l.
Definition inside (lo hi : N) (l : list block) : list block :=       (* lo <  n <  hi *)
  filter (fun b => (lo <? bnum b) && (bnum b <? hi)) l.
Definition above (lo : N) (l : list block) : list block :=           (* lo <  n *)
  filter (fun b => lo <? bnum b) l.
Definition from_num (lo : N) (l : list block) : list block :=        (* lo <= n *)
  filter (fun b => lo <=? bnum b) l.
Definition upto (hi : N) (l : list block) : list block :=            (* n <= hi *)
  filter (fun b => bnum b <=? hi) l.

(* the Undo event the resolver sends for forked block `u` with junction `j` *)
Definition undo_event (c : cursor) (j u : block) : event :=
  mkEv SUndo u (bref u) (cu_head c) (cu_lib c) (Some (bref j)) 0 0.

(* the one-block file found for an id *)
Definition file_of (forked : list block) (c : cursor) (id : N) : option block :=
  lookup_blk id (filter (fun x => rn (cu_lib c) <=? bnum x) forked).

(* the delivered canonical chain starts with the cursor-LIB block *)
Definition setting (merged : list block) (c : cursor) (stop bundle : N) (L : block) (rest : list block) : Prop :=
  chain_ok merged /\
  file_delivery merged (rn (cu_lib c)) stop bundle = L :: rest /\
  bref L = cu_lib c.

(* the file source got far enough to see where the cursor block would be *)
Definition reached (canon : list block) (c : cursor) : Prop :=
  exists b, In b canon /\ rn (cu_blk c) <= bnum b.

(* the consumer that holds `base ++ held` (oldest first), the blocks of `base` final: `base` is
   what it holds up to and including the cursor-LIB block (possibly nothing) *)
Definition base_ok (L : block) (base : list block) : Prop :=
  base = [] \/ exists older, base = older ++ [L].
Definition consumer (base held : list block) : cons :=
  mkCons (rev (base ++ held)) (length base) true.
Definition all_final (l : list block) : cons := mkCons (rev l) (length l) true.

(* ------------------------------------------------------------------ file_delivery *)

(* it is a filter: exactly the blocks with start <= number < end of the stop block's bundle *)
Definition C06_delivery_members : Prop :=
  forall merged start stop bundle b,
    In b (file_delivery merged start stop bundle) <->
    In b merged /\ start <= bnum b /\ bnum b < (stop / bundle + 1) * bundle.

(* of a chain it is a contiguous piece (order preserved, nothing in the range left out, nothing
   repeated) and again a chain *)
Definition C06_delivery_segment : Prop :=
  forall merged start stop bundle,
    chain_ok merged ->
    (exists pre post, merged = pre ++ file_delivery merged start stop bundle ++ post) /\
    chain_ok (file_delivery merged start stop bundle).

(* ------------------------------------------------------------------ consumer branches *)

(* a branch under L whose blocks are each either on the chain or (by id) off it is a canonical
   prefix followed by a forked suffix, and the canonical prefix is the piece of the chain that
   follows L *)
Definition C06_held_split : Prop :=
  forall L rest held,
    chain_ok (L :: rest) -> branch_from L held ->
    Forall (fun b => on_canon (L :: rest) b \/ off_canon (L :: rest) b) held ->
    exists hc hf, held = hc ++ hf /\ Forall (on_canon (L :: rest)) hc /\ Forall (off_canon (L :: rest)) hf.

Definition C06_held_canon_segment : Prop :=
  forall L rest hc more,
    chain_ok (L :: rest) -> branch_from L (hc ++ more) -> Forall (on_canon (L :: rest)) hc ->
    L :: rest = L :: hc ++ above (bnum (last hc L)) (L :: rest) /\
    hc = between (bnum L) (bnum (last hc L)) (L :: rest).

(* ------------------------------------------------------------------ resuming *)

(* New (or any non-Undo) cursor whose block is on the chain *)
Definition C06_resume_on_chain : Prop :=
  forall merged forked c stop bundle L rest B,
    setting merged c stop bundle L rest ->
    matches_undo (cu_step c) = false ->
    In B (L :: rest) -> bref B = cu_blk c ->
    from_cursor_run merged forked c stop bundle =
      (map (file_event SIrr) (between (rn (cu_lib c)) (rn (cu_blk c)) (L :: rest)) ++
       map (file_event SNewIrr) (above (rn (cu_blk c)) (L :: rest)), RsOk).

(* Undo cursor whose (already undone) block is on the chain *)
Definition C06_resume_undo_on_chain : Prop :=
  forall merged forked c stop bundle L rest B,
    setting merged c stop bundle L rest ->
    cu_step c = SUndo ->
    In B (L :: rest) -> bref B = cu_blk c ->
    from_cursor_run merged forked c stop bundle =
      (map (file_event SIrr) (inside (rn (cu_lib c)) (rn (cu_blk c)) (L :: rest)) ++
       map (file_event SNewIrr) (from_num (rn (cu_blk c)) (L :: rest)), RsOk).

(* final cursor: step matching Irreversible, block = LIB *)
Definition C06_final_cursor : Prop :=
  forall merged forked c stop bundle L rest,
    setting merged c stop bundle L rest ->
    matches_irr (cu_step c) = true -> cu_blk c = cu_lib c ->
    from_cursor_run merged forked c stop bundle = (map (file_event SNewIrr) rest, RsOk).

(* New (non-Undo) cursor on a forked block: consumer holds hc ++ hf, hf non-empty and ending with
   the cursor block, every block of hf available *)
Definition C06_resume_forked : Prop :=
  forall merged forked c stop bundle L rest hc hf,
    setting merged c stop bundle L rest ->
    cu_step c <> SUndo ->
    branch_from L (hc ++ hf) ->
    Forall (on_canon (L :: rest)) hc -> Forall (off_canon (L :: rest)) hf ->
    hf <> [] -> bref (last hf L) = cu_blk c ->
    (forall w, In w hf -> file_of forked c (bid w) = Some w) ->
    reached (L :: rest) c ->
    let j := last hc L in                                   (* the junction *)
    from_cursor_run merged forked c stop bundle =
      (map (undo_event c j) (rev hf) ++
       map (file_event SIrr) hc ++
       map (file_event SNewIrr) (above (bnum j) (L :: rest)), RsOk)
    /\ hc = between (rn (cu_lib c)) (bnum j) (L :: rest).

(* Undo cursor on a forked block X: consumer holds hc ++ hf (hf possibly empty), X sits on top *)
Definition C06_resume_forked_undo : Prop :=
  forall merged forked c stop bundle L rest hc hf X,
    setting merged c stop bundle L rest ->
    cu_step c = SUndo ->
    branch_from L (hc ++ hf ++ [X]) ->
    Forall (on_canon (L :: rest)) hc -> Forall (off_canon (L :: rest)) (hf ++ [X]) ->
    bref X = cu_blk c ->
    (forall w, In w (hf ++ [X]) -> file_of forked c (bid w) = Some w) ->
    reached (L :: rest) c ->
    let j := last hc L in
    from_cursor_run merged forked c stop bundle =
      (map (undo_event c j) (rev hf) ++
       map (file_event SIrr) hc ++
       map (file_event SNewIrr) (above (bnum j) (L :: rest)), RsOk)
    /\ hc = between (rn (cu_lib c)) (bnum j) (L :: rest).

(* a needed one-block file is absent (or numbered below the cursor LIB, which hides it from the
   resolver): `path` is the forked part of the consumer's branch up to and including the cursor
   block (for an Undo cursor: including the undone block).  The store never answers an id of the
   branch with a different block. *)
Definition C06_missing : Prop :=
  forall merged forked c stop bundle L rest hc path,
    setting merged c stop bundle L rest ->
    branch_from L (hc ++ path) ->
    Forall (on_canon (L :: rest)) hc -> Forall (off_canon (L :: rest)) path ->
    path <> [] -> bref (last path L) = cu_blk c ->
    (forall w, In w path -> file_of forked c (bid w) = Some w \/ file_of forked c (bid w) = None) ->
    (exists m, In m path /\ file_of forked c (bid m) = None) ->
    reached (L :: rest) c ->
    from_cursor_run merged forked c stop bundle = ([], RsResolveErr).

(* when the merged files end below the cursor block nothing at all is delivered (the source waits) *)
Definition C06_not_reached : Prop :=
  forall merged forked c stop bundle L rest,
    setting merged c stop bundle L rest ->
    ~ reached (L :: rest) c ->
    from_cursor_run merged forked c stop bundle = ([], RsOk).

(* ------------------------------------------------------------------ the consumer never sees an
   inconsistent sequence: in every served case folding the delivered events from the consumer's
   state succeeds and ends on the canonical chain after L, everything final *)

Definition C06_consumer_on_chain : Prop :=
  forall merged forked c stop bundle L rest base held,
    setting merged c stop bundle L rest ->
    matches_undo (cu_step c) = false ->
    branch_from L held -> Forall (on_canon (L :: rest)) held -> bref (last held L) = cu_blk c ->
    base_ok L base ->
    snd (from_cursor_run merged forked c stop bundle) = RsOk /\
    cons_fold (consumer base held) (fst (from_cursor_run merged forked c stop bundle))
      = Some (all_final (base ++ rest)).

Definition C06_consumer_undo_on_chain : Prop :=
  forall merged forked c stop bundle L rest base held X,
    setting merged c stop bundle L rest ->
    cu_step c = SUndo ->
    branch_from L (held ++ [X]) -> Forall (on_canon (L :: rest)) (held ++ [X]) -> bref X = cu_blk c ->
    base_ok L base ->
    snd (from_cursor_run merged forked c stop bundle) = RsOk /\
    cons_fold (consumer base held) (fst (from_cursor_run merged forked c stop bundle))
      = Some (all_final (base ++ rest)).

Definition C06_consumer_forked : Prop :=
  forall merged forked c stop bundle L rest base hc hf,
    setting merged c stop bundle L rest ->
    cu_step c <> SUndo ->
    branch_from L (hc ++ hf) ->
    Forall (on_canon (L :: rest)) hc -> Forall (off_canon (L :: rest)) hf ->
    hf <> [] -> bref (last hf L) = cu_blk c ->
    (forall w, In w hf -> file_of forked c (bid w) = Some w) ->
    reached (L :: rest) c ->
    base_ok L base ->
    snd (from_cursor_run merged forked c stop bundle) = RsOk /\
    cons_fold (consumer base (hc ++ hf)) (fst (from_cursor_run merged forked c stop bundle))
      = Some (all_final (base ++ rest)).

Definition C06_consumer_forked_undo : Prop :=
  forall merged forked c stop bundle L rest base hc hf X,
    setting merged c stop bundle L rest ->
    cu_step c = SUndo ->
    branch_from L (hc ++ hf ++ [X]) ->
    Forall (on_canon (L :: rest)) hc -> Forall (off_canon (L :: rest)) (hf ++ [X]) ->
    bref X = cu_blk c ->
    (forall w, In w (hf ++ [X]) -> file_of forked c (bid w) = Some w) ->
    reached (L :: rest) c ->
    base_ok L base ->
    snd (from_cursor_run merged forked c stop bundle) = RsOk /\
    cons_fold (consumer base (hc ++ hf)) (fst (from_cursor_run merged forked c stop bundle))
      = Some (all_final (base ++ rest)).

Definition C06_consumer : Prop :=
  C06_consumer_on_chain /\ C06_consumer_undo_on_chain /\ C06_consumer_forked /\ C06_consumer_forked_undo.

(* ------------------------------------------------------------------ pass-through (target cursor) *)

(* D = what the file source started at `start` delivers *)
Definition C06_through_on_chain : Prop :=
  forall merged forked start c stop bundle B,
    chain_ok merged ->
    let D := file_delivery merged start stop bundle in
    In B D -> bref B = cu_blk c -> rn (cu_lib c) < rn (cu_blk c) ->
    through_cursor_run merged forked start c stop bundle = (map (file_event SNewIrr) D, RsOk).

(* the documented limitation: a cursor block that is not on the chain is not served; the blocks up
   to the cursor LIB have been passed on by then *)
Definition C06_through_forked : Prop :=
  forall merged forked start c stop bundle,
    chain_ok merged ->
    let D := file_delivery merged start stop bundle in
    start <= rn (cu_blk c) ->
    ~ In (ri (cu_blk c)) (ids D) ->
    (exists b, In b D /\ rn (cu_lib c) < bnum b /\ rn (cu_blk c) <= bnum b) ->
    through_cursor_run merged forked start c stop bundle =
      (map (file_event SNewIrr) (upto (rn (cu_lib c)) D), RsNotImplemented).

(* a final target cursor: the cursor block sits at or below its own LIB number (block = LIB for every
   final cursor), so it goes by in the "up to LIB" pass-through; the resolver recognises it there and
   everything is forwarded, in order, as new+irreversible.
   (The code as shipped did not: the cursor block was forwarded without being recognised and the first
   block above the LIB ended the source with the "not implemented" error although the cursor is on the
   chain — found by this proof package, replayed on the real code, fixed in cursor_resolver.go; the
   old behaviour is kept below as `resolver_step_unfixed` with a witness.) *)
Definition C06_through_final_cursor : Prop :=
  forall merged forked start c stop bundle B,
    chain_ok merged ->
    let D := file_delivery merged start stop bundle in
    In B D -> bref B = cu_blk c -> rn (cu_blk c) <= rn (cu_lib c) ->
    through_cursor_run merged forked start c stop bundle = (map (file_event SNewIrr) D, RsOk).

(* a target cursor whose block is below the start block has already passed: it is ignored (the rule of
   ForkableHub.SourceThroughCursor) and every block from the start block on is delivered, once, in
   order, as new+irreversible - whether the cursor is on the chain, forked or final.
   (The code as shipped handed such a stream to the cursor resolver, which ended it on its first block
   with the "not implemented" error although nothing needs resolving: `through_resolver_run`, witness
   below — found by the hypothesis audit, the hypothesis `In B D` of C06_through_on_chain; replayed on the
   real code, fixed in filesource.go.) *)
Definition C06_through_passed : Prop :=
  forall merged forked start c stop bundle,
    rn (cu_blk c) < start ->
    through_cursor_run merged forked start c stop bundle =
      (map (file_event SNewIrr) (file_delivery merged start stop bundle), RsOk).

Definition C06_through_passed_unfixed_refuted : Prop :=
  exists merged start c stop bundle B,
    chain_ok merged /\ In B merged /\ bref B = cu_blk c /\ rn (cu_blk c) < start /\
    file_delivery merged start stop bundle <> [] /\
    through_resolver_run merged [] start c stop bundle = ([], RsNotImplemented).

(* the pass-through part of cursorResolver.ProcessBlock before the fix (pass = true only) *)
Definition resolver_step_unfixed (c : cursor) (s : rstate) (b : block) : rstate * list event * rres :=
  if r_resolved s then (s, [file_event SNewIrr b], RsOk) else
  if bnum b <=? rn (cu_lib c) then (s, [file_event SNewIrr b], RsOk) else
  if bnum b <? rn (cu_blk c) then (mkRS (r_seen s ++ [b]) false, [], RsOk) else
  let seen := r_seen s ++ [b] in
  if bid b =? ri (cu_blk c) then (mkRS seen true, send_between SNewIrr seen (rn (cu_lib c)) (rn (cu_blk c)), RsOk)
  else (mkRS seen false, [], RsNotImplemented).

Fixpoint resolver_run_unfixed (c : cursor) (s : rstate) (l : list block) : list event * rres :=
  match l with
  | [] => ([], RsOk)
  | b :: l' =>
      let '(s', evs, r) := resolver_step_unfixed c s b in
      match r with
      | RsOk => let '(evs', r') := resolver_run_unfixed c s' l' in (evs ++ evs', r')
      | _ => (evs, r)
      end
  end.

Definition C06_through_final_cursor_unfixed_refuted : Prop :=
  exists merged start c stop bundle B,
    chain_ok merged /\
    In B (file_delivery merged start stop bundle) /\ bref B = cu_blk c /\ rn (cu_blk c) <= rn (cu_lib c) /\
    snd (resolver_run_unfixed c rs_init (file_delivery merged start stop bundle)) = RsNotImplemented.
