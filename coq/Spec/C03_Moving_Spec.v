(* C03 when the LIB MOVES (addition to Spec/C03_Spec.v): the statement for the class of c01_moving_lib_partial
   (Spec/C01_Moving_Spec.v) with a handler that never fails.  The reference is Spec/ForkChoice.v (fc_step): it
   moves its LIB to the tip's ancestor at the tip's declared LIB number when that ancestor has been received
   and lies above the current LIB; it never forgets a block, whereas the model purges under the LIB. *)
From BV Require Import Base.Prelude Model.Block Model.ForkDB Model.Forkable Model.ForkableLookups
  Spec.Consumer Spec.Universe Spec.ForkChoice Spec.C01_Spec Spec.C01_Moving_Spec Spec.C01_Roots_Spec Spec.C03_Spec
  Check.Fk_Check Check.Fk_Props_Check.
Local Open Scope N_scope.

(* a configured starting LIB r0 (exclusive or inclusive, any includeInitialLIB flag) coherent with the
   history (moving_scope_b, which contains the full lib_ok_b); the LIB moves freely (jumps, branches that
   disagree on finality, LIB = head, reorganisation and LIB move in one step); every retention, first
   streamable block, all-blocks-trigger or not, Irreversible / Stalled filter bits.
   - c03_statement: the checker's comparison c03_follow accepts the model's own observation: after every
     block the consumer tip id, the HeadInfo id and (when Irreversible events are delivered) the id of the
     last block announced final are those of the reference;
   - c03_follows: the same on blocks rather than ids, plus: the consumer stack is the parent path from the
     tip down to the starting LIB;
   - c03_noise: a block that leaves the reference's tip and LIB unchanged delivers nothing;
   - c03_retention_statement: the run is the same for every keptFinalBlocks value, although the two runs purge
     different blocks;
   - c03_noise_deletion: a block the reference ignores completely can be deleted from the history: exactly
     its (empty) entry disappears from the run. *)
Definition c03_moving_lib_statement : Prop :=
  forall cfg r0 m h,
    rooted_mode r0 m -> c_fail_at cfg = None ->
    f_new (c_filter cfg) = true -> f_undo (c_filter cfg) = true ->
    moving_scope_b r0 h = true ->
    let t := fk_run cfg (fs_init m) h in
    c03_statement cfg m h /\
    c03_follows cfg (ri r0) (fc_init m) [] None h t /\
    c03_noise cfg (fc_init m) h t /\
    c03_retention_statement cfg m h /\
    (forall h1 b h2, h = h1 ++ b :: h2 -> c03_noise_deletion cfg m h1 b h2).

(* the same for the larger class moving_scope2_b of Spec/C01_Roots_Spec.v: blocks with an EMPTY parent id
   (roots) allowed, fed any number of times *)
Definition c03_moving_lib_roots_statement : Prop :=
  forall cfg r0 m h,
    rooted_mode r0 m -> c_fail_at cfg = None ->
    f_new (c_filter cfg) = true -> f_undo (c_filter cfg) = true ->
    moving_scope2_b r0 h = true ->
    let t := fk_run cfg (fs_init m) h in
    c03_statement cfg m h /\
    c03_follows cfg (ri r0) (fc_init m) [] None h t /\
    c03_noise cfg (fc_init m) h t /\
    c03_retention_statement cfg m h /\
    (forall h1 b h2, h = h1 ++ b :: h2 -> c03_noise_deletion cfg m h1 b h2).

(* the reference means what the property says about the LIB: when the tip moves to b (b new, not below the
   LIB, triggering, linked to the LIB) the LIB becomes b's received ancestor-or-self at the number b declares
   if that lies above the current LIB; in every other case the LIB is unchanged (exclusive-LIB mode) *)
Definition c03_reference_lib_meaning : Prop :=
  forall first alltrig fc b,
    let fc' := fc_step first false alltrig fc b in
    let below := (bnum b <? rn (fc_lib fc)) && match fc_tip fc with Some _ => true | None => false end in
    let is_new := match lookup (bid b) (fc_recv fc) with None => true | Some _ => false end in
    let higher := alltrig || match fc_tip fc with None => true | Some t => bnum t <? bnum b end in
    let links := negb (bid b =? ri (fc_lib fc)) &&
                 links_to_lib (S (length (b :: fc_recv fc))) first (b :: fc_recv fc) (fc_lib fc) b in
    fc_lib fc' =
      if negb below && is_new && higher && links then
        match ancestor_at (S (length (b :: fc_recv fc))) (b :: fc_recv fc) b (blib b) with
        | Some a => if rn (fc_lib fc) <? bnum a then bref a else fc_lib fc
        | None => fc_lib fc
        end
      else fc_lib fc.
