(* C04 — every delivered event carries a cursor describing the consumer position exactly: statements
   (the Forkable part of the property; the model is Model/Forkable.v, fk_step / fk_run).
   The hub-burst and file-source parts of C04 are checked by Check/C04_More.v and are not restated here. *)
From BV Require Import Base.Prelude Model.Block Model.ForkDB Model.Forkable Spec.Consumer Spec.Universe Spec.C01_Spec.
Local Open Scope N_scope.

(* ---------------------------------------------------------------- the full statement *)

(* the cursor monitor of Spec/Consumer.v accepts the run: for every event the cursor block is the
   event's block, the cursor head is the incoming block of the step, the cursor LIB is the last block
   announced irreversible so far (or the starting LIB) and never exceeds the height of a New or
   Irreversible block, and the junction named by an Undo event is the block the consumer's stack rests on
   once the whole batch of undos is applied (the starting LIB when the stack is empty then).
   The LIB clause is evaluated only when Irreversible events are delivered (f_irr), exactly as the
   checker c04_prop does. *)
Definition c04_statement (cfg : config) (m : libmode) (h : list block) : Prop :=
  c04_b (f_irr (c_filter cfg)) m h (fk_run cfg (fs_init m) h) = true.

Definition c04_scope (cfg : config) (m : libmode) (h : list block) : Prop :=
  (match m with LNone => c_hold cfg = true | _ => True end) /\
  f_new (c_filter cfg) = true /\ f_undo (c_filter cfg) = true /\
  wf_b h = true /\ lib_ok_b m h = true.

(* FULL STRENGTH (all LIB modes, moving LIB, failing handlers): stated, not proved in this generality;
   the checker c04_prop evaluates exactly this monitor on the implementation's observation of every
   generated history *)
Definition c04_full : Prop := forall cfg m h, c04_scope cfg m h -> c04_statement cfg m h.

(* ---------------------------------------------------------------- the events of one step, written out *)

(* one undo or redo batch: blocks bs delivered with step st, numbered idx, idx+1, ... out of count *)
Fixpoint batch_events (st : step) (head lib : ref) (junc : option ref) (count idx : N) (bs : list block) : list event :=
  match bs with
  | [] => []
  | x :: rest => mkEv st x (bref x) head lib junc idx count :: batch_events st head lib junc count (idx + 1) rest
  end.

(* blocks delivered for the first time *)
Definition fresh_events (head lib : ref) (bs : list block) : list event :=
  map (fun x => mkEv SNew x (bref x) head lib None 0 0) bs.

(* the junction the undo events of a step name: the block the consumer stack rests on after the
   batch; when the stack is empty after the batch it is the starting LIB r0 if a block carrying the
   LIB's id has been received before, and absent otherwise (the code looks the junction id up in the
   fork database, BlockForID, and the LIB block need not be there) *)
Definition junction_of (r0 : ref) (lib_received : bool) (undone kept : cstack) : option ref :=
  match undone with
  | [] => None
  | _ :: _ => match kept with
              | top :: _ => Some (bref top)
              | [] => if lib_received then Some r0 else None
              end
  end.

(* What one ProcessBlock call delivers while the LIB stays r0.  S, S' : consumer stack (newest first)
   before and after; b the incoming block.  The events are, in this order: the undo batch (the blocks
   `undone` popped from the stack, newest first), the redo batch (blocks that had been delivered
   before and are delivered again), then the never-delivered blocks up to b. *)
Definition c04_step (r0 : ref) (lib_received : bool) (S : cstack) (b : block) (evs : list event) (S' : cstack) : Prop :=
  exists kept undone redone fresh,
    S = undone ++ kept /\ S' = rev (redone ++ fresh) ++ kept /\
    evs = batch_events SUndo (bref b) r0 (junction_of r0 lib_received undone kept) (N.of_nat (length undone)) 0 undone
          ++ batch_events SNew (bref b) r0 None (N.of_nat (length redone)) 0 redone
          ++ fresh_events (bref b) r0 fresh /\
    Forall (fun x => rn r0 < bnum x) (redone ++ fresh) /\
    apply_all (ri r0) S evs = Some S'.

Definition lib_received (r0 : ref) (seen : list block) : bool := existsb (fun x => bid x =? ri r0) seen.

(* a whole run: every call returns normally and delivers events of the shape above; `seen` = the
   blocks fed before (newest first) *)
Fixpoint c04_run (r0 : ref) (seen : list block) (S : cstack) (h : list block) (t : trace) : Prop :=
  match h, t with
  | [], [] => True
  | b :: h', (evs, r) :: t' =>
      r = ROk /\ exists S', c04_step r0 (lib_received r0 seen) S b evs S' /\ c04_run r0 (b :: seen) S' h' t'
  | _, _ => False
  end.

(* the field rules alone, event by event (a consequence of c04_run that does not mention stacks) *)
Definition c04_event_fields (r0 : ref) (b : block) (e : event) : Prop :=
  ecblk e = bref (eblk e) /\ ehead e = bref b /\ elib e = r0 /\
  (estep e = SNew \/ estep e = SUndo) /\
  (estep e = SNew -> rn (elib e) < bnum (eblk e) /\ ejunc e = None).

Fixpoint c04_fields (r0 : ref) (h : list block) (t : trace) : Prop :=
  match h, t with
  | b :: h', (evs, _) :: t' => Forall (c04_event_fields r0 b) evs /\ c04_fields r0 h' t'
  | _, _ => True
  end.

(* ---------------------------------------------------------------- the part that is proved *)

(* exclusive starting LIB r0 that the history never moves, no injected handler failure (the class of
   c01_fixed_lib_statement, Spec/C01_Spec.v); everything else universally quantified *)
Definition c04_fixed_lib_statement : Prop :=
  forall cfg r0 h,
    c_fail_at cfg = None -> c_incl cfg = false ->
    f_new (c_filter cfg) = true -> f_undo (c_filter cfg) = true ->
    c01_fixed_scope_b r0 h = true ->
    let t := fk_run cfg (fs_init (LExcl r0)) h in
    c04_run r0 [] [] h t /\ c04_fields r0 h t /\ c04_statement cfg (LExcl r0) h.
