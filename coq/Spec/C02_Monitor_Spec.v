(* C02: what acceptance by the finality monitor c02_b (Spec/Consumer.v) MEANS, as declarative statements
   over a trace.  c02_b is evaluated by the check on every observed implementation trace of a history
   in the property's class; c02_monitor_sound (Properties/C02_Monitor.v) proves acceptance implies these.
   Not restated here (the monitor checks it, the soundness theorem does not cover it): "each announced
   block is the oldest pending block of the consumer's chain". *)
From BV Require Import Base.Prelude Model.Block Model.Forkable Spec.Consumer Spec.C04_Monitor_Spec.
Local Open Scope N_scope.

Definition is_irr (e : event) : bool := match estep e with SIrr => true | _ => false end.
Definition is_stalled (e : event) : bool := match estep e with SStalled => true | _ => false end.
Definition irr_blocks (l : list event) : list block := map eblk (filter is_irr l).
Definition irr_ids (l : list event) : list N := map bid (irr_blocks l).
Definition stalled_ids (l : list event) : list N := map (fun e => bid (eblk e)) (filter is_stalled l).

(* the blocks announced irreversible, in order: the first may be the starting LIB itself, every other
   one is a child of the previous one (the first: of the starting LIB) — gap-free, parent-linked *)
Fixpoint final_chain (last : ref) (first : bool) (l : list block) : Prop :=
  match l with
  | [] => True
  | b :: l' => ((first = true /\ bid b = ri last) \/ bparent b = ri last) /\ final_chain (bref b) false l'
  end.

(* the last block announced irreversible in l, or the starting LIB *)
Definition last_irr (root : ref) (l : list event) : ref :=
  fold_left (fun r e => if is_irr e then bref (eblk e) else r) l root.

Definition C02_final_chain (root : ref) (h : list block) (t : trace) : Prop :=
  final_chain root true (irr_blocks (map snd (with_incoming h t))).

(* at every position of the stream *)
Definition C02_pointwise (root : ref) (h : list block) (t : trace) : Prop :=
  forall l1 inc e l2, with_incoming h t = l1 ++ (inc, e) :: l2 ->
    let before := map snd l1 in
    match estep e with
    | SIrr =>
        (* bounded by the LIB number declared by the incoming block (the starting LIB itself is exempt);
           a block reported stalled is never announced final *)
        ((irr_ids before = [] /\ bid (eblk e) = ri root) \/ bnum (eblk e) <= blib inc) /\
        ~ In (bid (eblk e)) (stalled_ids before)
    | SUndo =>
        (* finality is never revoked *)
        ~ In (bid (eblk e)) (irr_ids before)
    | SStalled =>
        (* never final, reported at most once, at or below the final height, not on the consumer's chain *)
        ~ In (bid (eblk e)) (irr_ids before) /\ ~ In (bid (eblk e)) (stalled_ids before) /\
        bnum (eblk e) <= rn (last_irr root before) /\
        (forall st, apply_all (ri root) [] before = Some st -> forall x, In x st -> bid x <> bid (eblk e))
    | _ => True
    end.

Definition C02_monitor_sound : Prop :=
  forall m h t, c02_b m h t = true ->
    C02_final_chain (root_ref m t) h t /\ C02_pointwise (root_ref m t) h t.
