(* C07 - final blocks only BEFORE the fix "each final block once" (kept for documentation; the model of the code as it
   is now is Model/Joining.v, whose final-blocks-only filter is stateful: chain_fin).
   stream.finalBlocksFilterHandler was stateless: it forwarded every Irreversible / new+irreversible event.  When the join
   happens at a file block ABOVE the hub's LIB - the merged files hold blocks the (lagging) hub does not yet consider
   final - the live hub later announces as Irreversible the blocks between its LIB and the join point, which the files
   have already delivered as new+irreversible: final blocks were delivered twice, out of order.  Found by the proof of the
   final-blocks-only clause of C07 (it needed the hypothesis files_final), replayed on the real stream.New + ForkableHub
   by the main session, repaired in stream/stream.go (repo_patches/C07_fix_final_only_once.diff); the corpus scenario
   "corpus/final-only-join-above-hub-lib" of the C07 check is the witness below with the blocks the harness needs. *)
From BV Require Import Base.Prelude Model.Block Model.ForkDB Model.Forkable Model.ForkableLookups
  Model.Burst Model.Hub Model.CursorResolver Model.Joining
  Spec.Consumer Spec.Universe Check.Burst_Check Check.C07_Check Spec.C06_Spec Spec.C07_Spec Spec.C09_Spec Spec.C07_Compose_Spec.
Local Open Scope N_scope.

(* Stream.Run BEFORE the fix: the stateless phases for every filter *)
Definition stream_run_stateless (c : jcfg) (w : world) (ps : list (N * N)) (merged_end : N) (merged forked : list block) : list event * jerr :=
  let head := match hub_head (w_hub w) with Some (r, _) => rn r | None => 0 end in
  let start := abs_start (j_first c) (j_start c) head in
  if negb (j_stop c =? 0) && (j_stop c <? start) then ([], JInvalidArg) else
  let cur := if j_mode c =? 0 then None else j_cursor c in
  if (j_filter c =? 1) && match cur with Some cu => negb (on_final_block cu) | None => false end
  then ([], JInvalidArg) else
  let fuel := (40 * (length (w_rest w) + length merged + 20))%nat in
  match live_try c (w_hub w) start with
  | BOk burst => live_phase fuel c w burst 0 ps []
  | BFuel | BPanic => ([], JFuel)
  | BErr =>
      let stop_for_files := if j_stop c =? 0 then 1000000000000 else j_stop c in
      let '(fevs, r) :=
        if j_mode c =? 0 then (map (file_event SNewIrr) (file_delivery merged start stop_for_files (j_bundle c)), RsOk)
        else match j_cursor c with
             | None => ([], RsOk)
             | Some cu => if j_mode c =? 1 then from_cursor_run merged forked cu stop_for_files (j_bundle c)
                          else through_cursor_run merged forked start cu stop_for_files (j_bundle c)
             end in
      let fend := match r with
                  | RsOk => file_end c merged_end
                  | RsResolveErr => JInvalidArg
                  | RsNotImplemented => JOther
                  | RsFuel => JFuel end in
      file_phase fuel c w (hub_lowest (w_hub w)) fevs fend 0 ps []
  end.

(* Every world hypothesis of the C07 theorems (number mode, final blocks only, no stop block), and with the stateless
   filter a block is delivered after its child: linear chain 2..14, block n declares n-4 final; merged files hold 2..11;
   the hub is empty when the stream starts at 5; after 6 delivered events (5..10) blocks 8..12 arrive (ready, LIB 8);
   the file block 11 joins (burst New 11, New 12); 13 and 14 arrive: Irreversible 9, Irreversible 10.
   Delivered: 5 6 7 8 9 10 9 10.  On the same input the fixed model delivers 5..10, and the stateless stream with the
   default filter is fine. *)
Definition C07_final_only_refuted : Prop :=
  exists (U : list block) (c : jcfg) (w : world) (ps : list (N * N)) (merged_end : N) (canon forked : list block),
    wf_b U = true /\ lib_ok_b LNone U = true /\
    hub_of_universe U c w /\
    chain_ok canon /\ incl canon U /\
    eventual_tip c w canon /\
    j_mode c = 0 /\ j_filter c = 1 /\ j_stop c = 0 /\
    0 < j_bundle c /\ Forall (fun b => bnum b < file_bound) (filter (fun b => bnum b <? merged_end) canon) /\
    (exists b, In b canon /\ bnum b = run_start c w) /\
    let merged := filter (fun b => bnum b <? merged_end) canon in
    let res := stream_run_stateless c w ps merged_end merged forked in
    snd res = JNil /\ final_fold None (fst res) = false /\
    (* the fixed model *)
    final_fold None (fst (stream_run c w ps merged_end merged forked)) = true /\
    fst (stream_run c w ps merged_end merged forked) <> fst res.

(* ------------------------------------------------------------------ before the fix "none at or below the cursor" *)

(* Stream.Run with the stateful final-blocks-only filter starting from an EMPTY memory whatever the start mode (the model
   between the two fixes; Model/Joining.stream_run now starts it at the cursor block in cursor mode: start_mem) *)
Definition stream_run_nomem (c : jcfg) (w : world) (ps : list (N * N)) (merged_end : N) (merged forked : list block) : list event * jerr :=
  let head := match hub_head (w_hub w) with Some (r, _) => rn r | None => 0 end in
  let start := abs_start (j_first c) (j_start c) head in
  if negb (j_stop c =? 0) && (j_stop c <? start) then ([], JInvalidArg) else
  let cur := if j_mode c =? 0 then None else j_cursor c in
  if (j_filter c =? 1) && match cur with Some cu => negb (on_final_block cu) | None => false end
  then ([], JInvalidArg) else
  let fuel := (40 * (length (w_rest w) + length merged + 20))%nat in
  match live_try c (w_hub w) start with
  | BOk burst => if j_filter c =? 1 then live_phase_fin fuel c w None burst 0 ps []
                 else live_phase fuel c w burst 0 ps []
  | BFuel | BPanic => ([], JFuel)
  | BErr =>
      let stop_for_files := if j_stop c =? 0 then 1000000000000 else j_stop c in
      let '(fevs, r) :=
        if j_mode c =? 0 then (map (file_event SNewIrr) (file_delivery merged start stop_for_files (j_bundle c)), RsOk)
        else match j_cursor c with
             | None => ([], RsOk)
             | Some cu => if j_mode c =? 1 then from_cursor_run merged forked cu stop_for_files (j_bundle c)
                          else through_cursor_run merged forked start cu stop_for_files (j_bundle c)
             end in
      let fend := match r with
                  | RsOk => file_end c merged_end
                  | RsResolveErr => JInvalidArg
                  | RsNotImplemented => JOther
                  | RsFuel => JFuel end in
      if j_filter c =? 1 then file_phase_fin fuel c w None (hub_lowest (w_hub w)) fevs fend 0 ps []
      else file_phase fuel c w (hub_lowest (w_hub w)) fevs fend 0 ps []
  end.

(* Final blocks only FROM A CURSOR: c07_prop checks `final_fold (Some (id of the cursor block))` - the first delivered
   block extends the cursor block.  With the filter's memory starting empty this was FALSE: when the cursor is ahead of
   the hub's LIB (the consumer got its last final block from merged files that the lagging hub does not yet consider
   final) and the hub serves the cursor itself, the hub later announces as Irreversible blocks at or below the cursor
   block.  Found while proving the final-blocks-only clause, replayed on the real stream.New + ForkableHub by the main
   session (hub head 14, LIB 10, cursor {irreversible, 12, LIB 12}: delivered irreversible 11, irreversible 12),
   repaired (repo_patches/C07_fix_final_only_from_cursor.diff).  Every world hypothesis of the C07 theorems holds; the
   cursor is on a final canonical block (IsOnFinalBlock); the fixed model delivers nothing at or below the cursor. *)
Definition C07_final_cursor_refuted : Prop :=
  exists (U : list block) (c : jcfg) (w : world) (ps : list (N * N)) (merged_end : N) (canon forked : list block) (cu : cursor) (L : block),
    wf_b U = true /\ lib_ok_b LNone U = true /\
    hub_of_universe U c w /\
    chain_ok canon /\ incl canon U /\
    eventual_tip c w canon /\
    j_mode c = 1 /\ j_cursor c = Some cu /\ j_filter c = 1 /\ j_stop c = 0 /\ 0 < j_bundle c /\
    on_final_block cu = true /\ In L canon /\ bref L = cu_blk cu /\ bref L = cu_lib cu /\
    let merged := filter (fun b => bnum b <? merged_end) canon in
    let res := stream_run_nomem c w ps merged_end merged forked in
    snd res = JNil /\ final_fold (Some (ri (cu_blk cu))) (fst res) = false /\
    (* blocks at or below the cursor block are delivered *)
    (exists e, In e (fst res) /\ bnum (eblk e) <= rn (cu_blk cu)) /\
    (* the fixed model *)
    final_fold (Some (ri (cu_blk cu))) (fst (stream_run c w ps merged_end merged forked)) = true /\
    Forall (fun e => rn (cu_blk cu) < bnum (eblk e)) (fst (stream_run c w ps merged_end merged forked)).
