(* C07 — file-to-live handoff: readable statements about Model/Joining.v.

   Proved here (Properties/C07.v): the building blocks of the join logic —
     C07_join_only_on_first_delivery, C07_file_prefix_then_live, C07_live_phase_fifo,
     C07_num_handoff_partial.
   NOT proved: C07_seamless_full (end of this file), the property as stated; the comment there says
   what is missing. *)
From BV Require Import Base.Prelude Model.Block Model.ForkDB Model.Forkable Model.ForkableLookups
  Model.Burst Model.Hub Model.CursorResolver Model.Joining Check.Burst_Check Check.C07_Check Spec.C06_Spec.
Local Open Scope N_scope.

(* ------------------------------------------------------------------ vocabulary *)

(* what the handler chain (step filter, stop block) lets through to the user, and where it stops *)
Definition delivered (c : jcfg) (l : list event) : list event := filter (fun e => fst (chain c e)) l.
Definition stops (c : jcfg) (e : event) : bool := snd (chain c e).
Definition no_stop (c : jcfg) (l : list event) : Prop := Forall (fun e => stops c e = false) l.

(* the events of `l` delivered up to and including the first event that reaches the stop block;
   the flag says whether it was reached *)
Fixpoint upto_stop (c : jcfg) (l : list event) : list event * bool :=
  match l with
  | [] => ([], false)
  | e :: l' =>
      if stops c e then ((if fst (chain c e) then [e] else []), true)
      else ((if fst (chain c e) then [e] else []) ++ fst (upto_stop c l'), snd (upto_stop c l'))
  end.

(* fileSourceHandler's join attempt on file event e: the burst obtained from the hub, if any *)
Definition join_try (c : jcfg) (w : world) (lowest : N) (e : event) : option (list event) :=
  let n := bnum (eblk e) in
  if (lowest <=? n) && matches_new (estep e) then
    match (if j_mode c =? 2
           then match j_cursor c with Some cu => hub_through_cursor (h_f (w_hub w)) n cu | None => BErr end
           else blocks_from_num (h_f (w_hub w)) n) with
    | BOk evs =>
        (* fix: the join is made on the identity of the file block (in target-cursor mode: when the cursor block is
           below the file block) *)
        let passed := match j_cursor c with Some cu => rn (cu_blk cu) <? n | None => false end in
        let same := ((j_mode c =? 2) && negb passed)
                    || match evs with b0 :: _ => bid (eblk b0) =? bid (eblk e) | [] => false end in
        if h_ready (w_hub w) && same then Some evs else None
    | _ => None
    end
  else None.

(* position of the file phase: the hub world, lowestLiveBlockNum, number of events handed to the
   user so far, pauses not yet taken *)
Record fpos := mkFP { fp_w : world; fp_lowest : N; fp_count : N; fp_ps : list (N * N) }.

(* how a file event that does not join moves the position *)
Definition fnext (c : jcfg) (p : fpos) (e : event) : fpos :=
  let lowest' := if (fp_lowest p <=? bnum (eblk e)) && matches_new (estep e)
                 then hub_lowest (w_hub (fp_w p)) else fp_lowest p in
  if fst (chain c e) then
    let '(ps', w', _) := apply_pauses c (fp_count p + 1) (fp_ps p) (fp_w p) in
    mkFP w' lowest' (fp_count p + 1) ps'
  else mkFP (fp_w p) lowest' (fp_count p) (fp_ps p).

Definition fafter (c : jcfg) (p : fpos) (l : list event) : fpos := fold_left (fnext c) l p.

(* no event of l joins *)
Fixpoint no_join (c : jcfg) (p : fpos) (l : list event) : Prop :=
  match l with
  | [] => True
  | e :: l' => join_try c (fp_w p) (fp_lowest p) e = None /\ no_join c (fnext c p e) l'
  end.

Definition file_phase_at (fuel : nat) (c : jcfg) (p : fpos) (fevs : list event) (fend : jerr) (out : list event) :=
  file_phase fuel c (fp_w p) (fp_lowest p) fevs fend (fp_count p) (fp_ps p) out.
Definition live_phase_at (fuel : nat) (c : jcfg) (p : fpos) (queue : list event) (out : list event) :=
  live_phase fuel c (fp_w p) queue (fp_count p) (fp_ps p) out.

(* events the hub emits for the first k blocks still to arrive, in arrival order *)
Definition pushed (c : jcfg) (k : nat) (w : world) : list event := snd (push_n c k w).
Definition push_all (c : jcfg) (w : world) : list event := pushed c (length (w_rest w)) w.

(* ------------------------------------------------------------------ join only on a first delivery *)

Definition C07_join_only_on_first_delivery : Prop :=
  (* a join replaces only an event that matches New, numbered at or above the live lower bound *)
  (forall c w lowest e burst,
     join_try c w lowest e = Some burst ->
     matches_new (estep e) = true /\ lowest <= bnum (eblk e) /\ h_ready (w_hub w) = true) /\
  (* hence the Undo / Irreversible / Stalled events (and the New ones below the bound) that come
     before the first New-matching event at or above the bound go through the handler chain only *)
  (forall fuel c p pre rest fend out,
     Forall (fun e => matches_new (estep e) = false \/ bnum (eblk e) < fp_lowest p) pre ->
     no_stop c pre ->
     fp_lowest (fafter c p pre) = fp_lowest p /\
     file_phase_at fuel c p (pre ++ rest) fend out =
       file_phase_at fuel c (fafter c p pre) rest fend (out ++ delivered c pre) /\
     exists tail, fst (file_phase_at fuel c p (pre ++ rest) fend out) = out ++ delivered c pre ++ tail).

(* ------------------------------------------------------------------ file prefix, then live *)

Definition C07_file_prefix_then_live : Prop :=
  (* the file events before the joining event e go through the chain, e itself is not delivered, and
     the stream continues as the live phase started with the burst obtained for e *)
  (forall fuel c p pre e rest fend out burst,
     no_join c p pre -> no_stop c pre ->
     join_try c (fp_w (fafter c p pre)) (fp_lowest (fafter c p pre)) e = Some burst ->
     file_phase_at fuel c p (pre ++ e :: rest) fend out =
       live_phase_at fuel c (fafter c p pre) burst (out ++ delivered c pre) /\
     fst (file_phase_at fuel c p (pre ++ e :: rest) fend out) =
       out ++ delivered c pre ++ fst (live_phase_at fuel c (fafter c p pre) burst [])) /\
  (* no join and no stop: the chain-filtered file events, ending as the file source ends *)
  (forall fuel c p fevs fend out,
     no_join c p fevs -> no_stop c fevs ->
     file_phase_at fuel c p fevs fend out = (out ++ delivered c fevs, fend)) /\
  (* the stop block is reached during the file phase *)
  (forall fuel c p pre e rest fend out,
     no_join c p (pre ++ [e]) -> no_stop c pre -> stops c e = true ->
     file_phase_at fuel c p (pre ++ e :: rest) fend out = (out ++ delivered c (pre ++ [e]), JStop)).

(* ------------------------------------------------------------------ the live phase is a FIFO *)

(* whatever the pauses and the fuel: the live phase delivers, after `out`, the chain-filtered events
   of   queue ++ (events of the first k pushed blocks, in push order)   up to the stop block, for
   some k; when it ends "waiting at head" every block has been pushed and every event delivered *)
Definition C07_live_phase_fifo : Prop :=
  forall fuel c w queue count ps out,
    exists k,
      let S := queue ++ pushed c k w in
      let res := live_phase fuel c w queue count ps out in
      match snd res with
      | JNil => pushed c k w = push_all c w /\ snd (upto_stop c S) = false /\
                fst res = out ++ delivered c S
      | JStop => snd (upto_stop c S) = true /\ fst res = out ++ fst (upto_stop c S)
      | JFuel => exists S1 S2, S = S1 ++ S2 /\ snd (upto_stop c S1) = false /\ fst res = out ++ delivered c S1
      | _ => False
      end.

(* ------------------------------------------------------------------ handoff, number mode *)

(* number mode, no pauses, step filter letting new+irreversible through, stop block not below the
   join: the file source delivers D = pre ++ bn :: post, bn the first block numbered >= lowest, and
   the ready hub serves bn's number with a burst that starts with bn itself (join on identity).  Then exactly the canonical blocks in [start, number of bn) are
   delivered from the files, bn is not, and the stream continues with the hub's burst for that
   number (whose first event carries that number: C07_burst_starts_at) *)
Definition C07_num_handoff_partial : Prop :=
  forall fuel c w lowest merged start stopf pre bn post fend count out burst,
    j_mode c = 0 -> filter_pass c SNewIrr = true ->
    chain_ok merged ->
    file_delivery merged start stopf (j_bundle c) = pre ++ bn :: post ->
    Forall (fun b => bnum b < lowest) pre -> lowest <= bnum bn ->
    (j_stop c = 0 \/ bnum bn <= j_stop c) ->
    h_ready (w_hub w) = true ->
    blocks_from_num (h_f (w_hub w)) (bnum bn) = BOk burst ->
    (* the join is made on identity: the hub's canonical block of that height is bn itself *)
    (exists b0 tl, burst = b0 :: tl /\ bid (eblk b0) = bid bn) ->
    file_phase fuel c w lowest (map (file_event SNewIrr) (pre ++ bn :: post)) fend count [] out =
      live_phase fuel c w burst (count + N.of_nat (length pre)) [] (out ++ map (file_event SNewIrr) pre) /\
    pre = filter (fun b => (start <=? bnum b) && (bnum b <? bnum bn)) merged.

(* the hub's answer for number n starts with the block its chain has at number n *)
Definition C07_burst_starts_at : Prop :=
  forall s n burst,
    blocks_from_num s n = BOk burst ->
    exists x e tl, burst = e :: tl /\ snum x = n /\ eblk e = eb (sent x) /\ ecblk e = bref (eb (sent x)).

(* ------------------------------------------------------------------ the full statement (NOT proved)

   Reading of the property text over stream_run.  `canon` is the eventual canonical chain (oldest
   first), `merged` its part below `merged_end`, `forked` the forked-blocks store, `w` the hub as the
   stream finds it together with the blocks still to arrive.
   Agreement of hub and files ("consensus-consistent history, files and hub together cover the chain"):
     - whenever the hub, now or after any number of further arrivals, answers a number at or above
       its lowest block with a burst, the blocks it marks new+irreversible are on `canon`, and once
       all arrivals are in, the burst is `canon` from that number on;
     - the hub window starts at or below the end of the merged files.
   Conclusion: folding the delivered events (new+irreversible read as New, undos below the first
   delivered block aside: `cons_fold_aside`) from the consumer state implied by the start point
   succeeds; if the stream ends waiting at the head (JNil) the consumer holds exactly `canon` from the
   start point on — every canonical block once, in order, every pending forked block undone before.
   Start point: number mode: the first canonical block >= start, consumer empty; cursor mode: the
   consumer holds the C06 branch `held` above the cursor LIB; target-cursor mode: as number mode.

   What is missing for a proof:
     1. the hub-side burst theorems (C05/C09 packages): blocks_from_num / blocks_from_cursor /
        hub_through_cursor return the hub's chain from the requested point with the right steps, and
        fold through the consumer from the matching state;
     2. C01-C03 for hub_live: the events of pushed blocks fold through the consumer that holds the
        hub's chain (undo/new discipline of the live part, here only shown to be delivered FIFO);
     3. the composition: C06's output (Properties/C06.v) cut at the joining event by
        C07_file_prefix_then_live, glued to the burst of 1 — for cursor modes the join may fall inside
        the resolver's new+irreversible tail, which needs "the burst for number n continues the
        canonical chain at n" from 1 under the agreement hypothesis;
     4. fuel: stream_run's fuel bound is enough (events per pushed block are bounded by the hub size). *)

Definition as_new (e : event) : event :=
  match estep e with SNewIrr => mkEv SNew (eblk e) (ecblk e) (ehead e) (elib e) None 0 0 | _ => e end.

Definition hub_agrees (c : jcfg) (w : world) (canon : list block) (merged_end : N) : Prop :=
  hub_lowest (w_hub w) <= merged_end /\
  (forall k n evs, blocks_from_num (h_f (w_hub (fst (push_n c k w)))) n = BOk evs ->
     forall e, In e evs -> estep e = SNewIrr -> In (eblk e) canon) /\
  (forall n evs, blocks_from_num (h_f (w_hub (fst (push_n c (length (w_rest w)) w)))) n = BOk evs ->
     map eblk evs = from_num n canon).

Definition C07_seamless_full : Prop :=
  forall (c : jcfg) (w : world) (ps : list (N * N)) (merged_end : N) (canon forked : list block),
    chain_ok canon -> hub_agrees c w canon merged_end ->
    j_filter c = 0 -> j_stop c = 0 ->
    let merged := filter (fun b => bnum b <? merged_end) canon in
    let res := stream_run c w ps merged_end merged forked in
    let head := match hub_head (w_hub w) with Some (r, _) => rn r | None => 0 end in
    let start := abs_start (j_first c) (j_start c) head in
    (* from a block number, or through a target cursor on the chain *)
    ((j_mode c = 0 \/ (j_mode c = 2 /\ exists cu B, j_cursor c = Some cu /\ In B canon /\ bref B = cu_blk cu)) ->
     (exists b, In b canon /\ bnum b = start) ->
     exists c', cons_fold_aside cons0 (map as_new (fst res)) = Some c' /\
                (snd res = JNil -> rev (cs_stack c') = from_num start canon)) /\
    (* from a cursor: the consumer holds base ++ hc ++ hf as in C06 *)
    (forall cu L rest hc hf,
       j_mode c = 1 -> j_cursor c = Some cu ->
       from_num (rn (cu_lib cu)) canon = L :: rest -> bref L = cu_lib cu ->
       branch_from L (hc ++ hf) -> Forall (on_canon canon) hc -> Forall (off_canon canon) hf ->
       (cu_step cu <> SUndo -> bref (last (hc ++ hf) L) = cu_blk cu) ->
       (cu_step cu = SUndo -> exists X, bref X = cu_blk cu /\ branch_from L (hc ++ hf ++ [X])) ->
       (forall x, In x hf -> file_of forked cu (bid x) = Some x \/ exists k, In x (map eb (store (db (h_f (w_hub (fst (push_n c k w)))))))) ->
       exists c', cons_fold_aside (mkCons (rev (hc ++ hf)) 0 false) (map as_new (fst res)) = Some c' /\
                  (snd res = JNil -> rev (cs_stack c') = rest)).

(* the name used in DESIGN.md *)
Definition c07_seamless_full : Prop := C07_seamless_full.
