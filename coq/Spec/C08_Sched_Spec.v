(* C08 — readable statement, schedule part: every schedule of the hub's goroutines
   (Model/HubSched.v: the producer under the Forkable's write lock, requesters under its read lock and
   the subscribers mutex, free-running consumers) is equivalent to a sequence of atomic operations.

   The atomic operations.  Model/HubSubs.v has three: process a block ([push_block] = the Forkable's
   step followed by [fan_out] of each of its events), serve a request ([subscribe]) and a consumer
   taking everything pending ([drain_nth]).  Consumers are not excluded by any lock, and a consumer
   takes ONE item per receive, so what is atomic in the code is finer on two sides:
     XBlock b   the Forkable's step on b (hub state; the events of b become pending)
     XFan e     [fan_out] of the next pending event to every registered subscription
     XSub r     [subscribe]
     XRecv k    the consumer of subscription k takes the oldest pending item
   with the rule ([xvalid]) that XBlock and XSub occur only while no event is pending: no request is
   served between the Forkable's step on a block and the fan-out of its last event.  A sequence of the
   three operations of HubSubs is the special case in which the XFan of one block are contiguous and
   receives come in full drains ([C08_seq_embeds]); a block is NOT atomic with respect to receives
   (a consumer that keeps up with the events of one block is not dropped even when the block has more
   events than the channel holds: Properties/C08_Sched.v, c08_block_not_atomic_for_receives).

   Order.  XSub is ordered at the append to h.subscribers (not at the read-lock acquisition: the
   position in the subscriber list is the order of the appends), XBlock at the Forkable's step, XRecv at
   the receive, XFan e around the receives made while e is being offered: those on subscriptions not
   yet offered e before it, the others after it ([serial] in the model).

   All statements quantify over EVERY schedule (list tid), every script of the producer, every list of
   requests, every initial hub state, in the FIXED code (subscribersLock present).

   SCOPE (V2, finding W1-C08-2): the producer's Forkable step is Model/Hub.v [hub_live] (events only while
   the hub is ready); the statements describe the real hub for a READY initial hub h0.  For any h0, with
   the events of Model/HubAll.v [hub_live_all]: Spec/C08_All_Spec.v section 2 (Model/HubSchedG.v); for a
   ready h0 the two models make the same runs (C08_sched_all_ready_same). *)
From BV Require Import Base.Prelude Model.Block Model.ForkDB Model.Forkable Model.ForkableLookups
  Model.Burst Model.Hub Model.HubSubs Model.HubSched Spec.C08_Spec.
Local Open Scope N_scope.

(* ================================================================ 1. the serial machine *)

Record xstate := mkX {
  x_sh : shub;                     (* hub and subscriptions (registration order), as in HubSubs *)
  x_got : list (list qitem);       (* what each consumer has received *)
  x_pend : list event              (* events of the block being processed not fanned out yet *)
}.

(* the consumer of subscription n takes the oldest pending item (nothing when none is pending) *)
Fixpoint recv_nth (n : nat) (subs : list msub) : list msub * list qitem :=
  match subs with
  | [] => ([], [])
  | s :: rest =>
      match n with
      | O => match ms_queue s with
             | [] => (s :: rest, [])
             | x :: q => (mkSub q (ms_cap s) (ms_dropped s) :: rest, [x])
             end
      | S n' => let '(rest', q) := recv_nth n' rest in (s :: rest', q)
      end
  end.

Definition xstep (first kept : N) (st : xstate) (o : xop) : xstate :=
  match o with
  | XBlock b =>
      let '(h', evs) := hub_push first kept (sh_hub (x_sh st)) b in
      mkX (mkSH h' (sh_subs (x_sh st))) (x_got st) (x_pend st ++ evs)
  | XFan e =>
      mkX (mkSH (sh_hub (x_sh st)) (fan_out (sh_subs (x_sh st)) e)) (x_got st) (tl (x_pend st))
  | XSub r =>
      let '(sh', ok) := subscribe (x_sh st) r in
      mkX sh' (if ok then x_got st ++ [[]] else x_got st) (x_pend st)
  | XRecv k =>
      let '(subs', q) := recv_nth k (sh_subs (x_sh st)) in
      mkX (mkSH (sh_hub (x_sh st)) subs') (add_got k q (x_got st)) (x_pend st)
  end.

Definition xrun (first kept : N) (st : xstate) (ops : list xop) : xstate :=
  fold_left (xstep first kept) ops st.

(* well-formed sequences: a block is taken, and a request served, only when no event is pending;
   the event fanned out is the oldest pending one *)
Definition xok (st : xstate) (o : xop) : Prop :=
  match o with
  | XBlock _ | XSub _ => x_pend st = []
  | XFan e => exists rest, x_pend st = e :: rest
  | XRecv _ => True
  end.

Fixpoint xvalid (first kept : N) (st : xstate) (ops : list xop) : Prop :=
  match ops with
  | [] => True
  | o :: ops' => xok st o /\ xvalid first kept (xstep first kept st o) ops'
  end.

Definition xstart (sh : shub) : xstate := mkX sh (map (fun _ => []) (sh_subs sh)) [].

Definition xview (st : xstate) (i : nat) := view_at (sh_subs (x_sh st)) (x_got st) i.

Definition blocks (ops : list xop) : list block :=
  flat_map (fun o => match o with XBlock b => [b] | _ => [] end) ops.
Definition fans (ops : list xop) : list event :=
  flat_map (fun o => match o with XFan e => [e] | _ => [] end) ops.

(* ================================================================ 2. theorems about serial sequences
   (the theorems of Spec/C08_Spec.v again, for the finer operations) *)

(* the hub, the events fanned out and the events pending are those of the hub alone fed with the
   blocks: no request, no receive, no drop occurs in them *)
Definition C08_serial_hub : Prop :=
  forall first kept sh0 ops,
    xvalid first kept (xstart sh0) ops ->
    let st := xrun first kept (xstart sh0) ops in
    sh_hub (x_sh st) = hub_after first kept (sh_hub sh0) (blocks ops) /\
    fans ops ++ x_pend st = push_events first kept (sh_hub sh0) (blocks ops).

(* one subscription: pushes and single receives *)
Inductive lop := LPush (e : event) | LRecv.

Definition sub_recv (v : msub * list qitem) : msub * list qitem :=
  match ms_queue (fst v) with
  | [] => v
  | x :: q => (mkSub q (ms_cap (fst v)) (ms_dropped (fst v)), snd v ++ [x])
  end.

Definition lstep (v : msub * list qitem) (o : lop) : msub * list qitem :=
  match o with
  | LPush e => (sub_push (fst v) e, snd v)
  | LRecv => sub_recv v
  end.
Definition lrun (v : msub * list qitem) (ops : list lop) := fold_left lstep ops v.

Definition lown (i : nat) (ops : list xop) : list lop :=
  flat_map (fun o => match o with
                     | XFan e => [LPush e]
                     | XRecv k => if Nat.eqb k i then [LRecv] else []
                     | _ => []
                     end) ops.

(* what a subscription has is the run of a lone subscriber over the events fanned out since its
   registration and its own receives *)
Definition C08_serial_lone : Prop :=
  forall first kept sh0 pre r post burst,
    let x1 := xrun first kept (xstart sh0) pre in
    request_burst (sh_hub (x_sh x1)) r = Some burst ->
    let i := length (sh_subs (x_sh x1)) in
    xview (xrun first kept (xstart sh0) (pre ++ XSub r :: post)) i
    = Some (lrun (new_sub burst, []) (lown i post)).

(* exactly once, in order: received ++ pending = burst ++ every event fanned out since, while not
   dropped; a drop happens at one XFan that finds capacity = 100 + |burst| items pending, and leaves a
   prefix *)
Definition C08_serial_exactly_once : Prop :=
  forall first kept sh0 pre r post burst,
    let x1 := xrun first kept (xstart sh0) pre in
    request_burst (sh_hub (x_sh x1)) r = Some burst ->
    let i := length (sh_subs (x_sh x1)) in
    exists s got,
      xview (xrun first kept (xstart sh0) (pre ++ XSub r :: post)) i = Some (s, got) /\
      ms_cap s = 100 + N.of_nat (length burst) /\
      (ms_dropped s = false -> got ++ ms_queue s = burst ++ map QEv (fans post)) /\
      (ms_dropped s = true ->
         exists post1 e post2 s1 got1,
           post = post1 ++ XFan e :: post2 /\
           xview (xrun first kept (xstart sh0) (pre ++ XSub r :: post1)) i = Some (s1, got1) /\
           ms_dropped s1 = false /\
           N.of_nat (length (ms_queue s1)) = ms_cap s1 /\
           got ++ ms_queue s = got1 ++ ms_queue s1 /\
           got ++ ms_queue s = burst ++ map QEv (fans post1)).

(* the receives of subscription j, at whatever moments or never, are invisible to every other one *)
Definition xerase (j : nat) (ops : list xop) : list xop :=
  filter (fun o => match o with XRecv k => negb (Nat.eqb k j) | _ => true end) ops.

Definition C08_serial_isolation : Prop :=
  forall first kept st ops1 ops2 i j, i <> j -> xerase j ops1 = xerase j ops2 ->
    xview (xrun first kept st ops1) i = xview (xrun first kept st ops2) i.

(* the sequences of Spec/C08_Spec.v are the special case: a block with its fan-outs contiguous, a
   drain as that many receives *)
Fixpoint embed (first kept : N) (st : hstate) (ops : list op) : list xop :=
  match ops with
  | [] => []
  | o :: ops' =>
      (match o with
       | OPush b => XBlock b :: map XFan (snd (hub_push first kept (sh_hub (hs_sh st)) b))
       | OSub r => [XSub r]
       | ODrain k => repeat (XRecv k)
                       (match nth_error (sh_subs (hs_sh st)) k with Some s => length (ms_queue s) | None => O end)
       end) ++ embed first kept (step first kept st o) ops'
  end.

Definition C08_seq_embeds : Prop :=
  forall first kept sh0 ops,
    let xops := embed first kept (start sh0) ops in
    let st := run first kept (start sh0) ops in
    xvalid first kept (xstart sh0) xops /\
    xrun first kept (xstart sh0) xops = mkX (hs_sh st) (hs_got st) [].

(* ================================================================ 3. schedules *)

Definition reachable (first kept : N) (h0 : hub) (script : list block) (reqs : list sub_req) (st : cstate) : Prop :=
  exists sched, st = crun true first kept (cinit h0 script reqs) sched.

Definition sub_at (st : cstate) (i : nat) : msub :=
  match nth_error (g_reqs st) i with
  | Some c => match r_sub c with Some s => s | None => mkSub [] 0 false end
  | None => mkSub [] 0 false
  end.
Definition got_at (st : cstate) (i : nat) : list qitem :=
  match nth_error (g_reqs st) i with Some c => r_got c | None => [] end.

(* the subscription of requester i, with the event in flight offered to it as well when the loop of
   processBlock has not reached it yet (between two events: the subscription as it is) *)
Definition sub_done (st : cstate) (i : nat) : msub :=
  match inflight st with
  | Some (e, todo) => if memb i todo then sub_push (sub_at st i) e else sub_at st i
  | None => sub_at st i
  end.

Definition pend_of (st : cstate) : list event :=
  match g_ppc st with
  | PEvents evs | PFan _ _ evs | PDrop _ _ _ evs => evs
  | _ => []
  end.

(* the state of the goroutines as a state of the serial machine: the hub, the subscriptions in the
   order of their registration, what each consumer has received, the events still to fan out *)
Definition sview (st : cstate) : xstate :=
  mkX (mkSH (g_hub st) (map (sub_done st) (g_order st))) (map (got_at st) (g_order st)) (pend_of st).

(* program order: the operations of each thread within the serialisation *)
Definition tid_eqb (a b : tid) : bool :=
  match a, b with
  | TProd, TProd => true
  | TReq i, TReq j => Nat.eqb i j
  | TCons i, TCons j => Nat.eqb i j
  | _, _ => false
  end.

Definition ops_of (t : tid) (l : list (tid * xop)) : list xop :=
  map snd (filter (fun p => tid_eqb (fst p) t) l).

(* what the producer does for a script, from hub state h *)
Fixpoint prod_program (first kept : N) (h : hub) (script : list block) : list xop :=
  match script with
  | [] => []
  | b :: rest => XBlock b :: map XFan (snd (hub_push first kept h b))
                 ++ prod_program first kept (fst (hub_push first kept h b)) rest
  end.

Definition linearized (c : req) : bool :=
  match r_pc c with RWritten | RUnlocking | RDone => true | _ => false end.

Definition program_order (first kept : N) (h0 : hub) (script : list block) (st : cstate) : Prop :=
  let l := serial st in
  (* the producer: block after block in script order, each followed by its events in order *)
  (exists rest, prod_program first kept h0 script = ops_of TProd l ++ rest) /\
  (* a requester: its one request, once appended (or refused) *)
  (forall i, ops_of (TReq i) l =
             match nth_error (g_reqs st) i with
             | Some c => if linearized c then [XSub (r_req c)] else []
             | None => []
             end) /\
  (* a consumer: one receive on its own subscription per item received *)
  (forall i, ops_of (TCons i) l = repeat (XRecv (index_of i (g_order st))) (length (got_at st i))).

(* c08_sched_serializable *)
Definition C08_sched_serializable : Prop :=
  forall first kept h0 script reqs sched,
    let st := crun true first kept (cinit h0 script reqs) sched in
    let ops := map snd (serial st) in
    xvalid first kept (xstart (mkSH h0 [])) ops /\
    xrun first kept (xstart (mkSH h0 [])) ops = sview st /\
    program_order first kept h0 script st.

(* ---------------------------------------------------------------- the lock invariants *)

Definition in_read_cs (c : req) : bool :=
  match r_pc c with RLocked | RHook | RMutex | RRead _ | RWritten | RUnlocking => true | _ => false end.
Definition in_mutex_cs (c : req) : bool :=
  match r_pc c with RMutex | RRead _ | RWritten => true | _ => false end.
Definition in_write_cs (st : cstate) : bool :=
  match g_ppc st with PLocked _ | PEvents _ | PFan _ _ _ | PDrop _ _ _ _ => true | _ => false end.

(* the producer's critical section excludes every requester's; two requesters are never both between
   subscribersLock.Lock() and Unlock(); and while the producer is inside, the mutex is free *)
Definition C08_sched_mutual_exclusion : Prop :=
  forall first kept h0 script reqs st, reachable first kept h0 script reqs st ->
    (in_write_cs st = true ->
       g_mutex st = None /\ forall i c, nth_error (g_reqs st) i = Some c -> in_read_cs c = false) /\
    (forall i j ci cj, nth_error (g_reqs st) i = Some ci -> nth_error (g_reqs st) j = Some cj ->
       in_mutex_cs ci = true -> in_mutex_cs cj = true -> i = j).

(* "burst + append" is atomic with respect to the producer: from the lookup to the return of
   SourceFromXxx the burst held by the requester is the burst of the CURRENT hub state, and no event
   is pending or in flight *)
Definition C08_sched_burst_append_atomic : Prop :=
  forall first kept h0 script reqs st i c, reachable first kept h0 script reqs st ->
    nth_error (g_reqs st) i = Some c -> in_read_cs c = true ->
    in_write_cs st = false /\ pend_of st = [] /\
    match r_pc c with
    | RLocked => r_sub c = None
    | RHook | RMutex | RRead _ | RWritten =>
        exists burst, request_burst (g_hub st) (r_req c) = Some burst /\
                      r_sub c = Some (new_sub burst) /\ r_got c = []
    | _ => True
    end.

(* the subscriber list never loses an element: it holds exactly the registered subscriptions that
   were not dropped (the one being dropped leaves it at the producer's next step), in registration
   order; a requester that obtained a source is registered *)
Definition keeps (st : cstate) (i : nat) : bool :=
  negb (ms_dropped (sub_at st i)) ||
  match g_ppc st with PDrop _ k _ _ => Nat.eqb i k | _ => false end.

Definition C08_sched_no_lost_registration : Prop :=
  forall first kept h0 script reqs st, reachable first kept h0 script reqs st ->
    g_subs st = filter (keeps st) (g_order st) /\
    NoDup (g_order st) /\
    forall i c, nth_error (g_reqs st) i = Some c ->
      (In i (g_order st) <-> linearized c = true /\ r_sub c <> None).

(* ---------------------------------------------------------------- the property, per schedule *)

(* c08_sched_registration_atomic + c08_sched_exactly_once: the requester registered as p-th
   subscription.  Its XSub splits the serialisation into pre / post: the blocks of pre are a prefix of
   the script and ALL their events were fanned out before the registration (none of a later block);
   its burst is the burst of the hub after exactly these blocks; what its consumer received followed
   by what is queued is the burst followed by every event fanned out since, in order, exactly once,
   and these are the hub's events for the following blocks of the script. *)
Definition C08_sched_registration_atomic : Prop :=
  forall first kept h0 script reqs sched p i,
    let st := crun true first kept (cinit h0 script reqs) sched in
    nth_error (g_order st) p = Some i ->
    exists c pre post burst rest,
      nth_error (g_reqs st) i = Some c /\
      map snd (serial st) = pre ++ XSub (r_req c) :: post /\
      length (sh_subs (x_sh (xrun first kept (xstart (mkSH h0 [])) pre))) = p /\
      script = blocks pre ++ blocks post ++ rest /\
      let h1 := hub_after first kept h0 (blocks pre) in
      request_burst h1 (r_req c) = Some burst /\
      fans pre = push_events first kept h0 (blocks pre) /\
      fans post ++ pend_of st = push_events first kept h1 (blocks post).

Definition C08_sched_exactly_once : Prop :=
  forall first kept h0 script reqs sched p i,
    let st := crun true first kept (cinit h0 script reqs) sched in
    nth_error (g_order st) p = Some i ->
    exists c pre post burst,
      nth_error (g_reqs st) i = Some c /\
      map snd (serial st) = pre ++ XSub (r_req c) :: post /\
      request_burst (hub_after first kept h0 (blocks pre)) (r_req c) = Some burst /\
      let s := sub_done st i in
      let x0 := xstart (mkSH h0 []) in
      ms_cap s = 100 + N.of_nat (length burst) /\
      (ms_dropped s = false -> r_got c ++ ms_queue s = burst ++ map QEv (fans post)) /\
      (ms_dropped s = true ->
         exists post1 e post2 s1 got1,
           post = post1 ++ XFan e :: post2 /\
           xview (xrun first kept x0 (pre ++ XSub (r_req c) :: post1)) p = Some (s1, got1) /\
           ms_dropped s1 = false /\
           N.of_nat (length (ms_queue s1)) = ms_cap s1 /\
           r_got c ++ ms_queue s = burst ++ map QEv (fans post1)).

(* c08_sched_isolation: what subscription p has after the schedule is what it has in the serial
   execution from which every receive of another subscription q is removed (its consumer never
   reads, and it is dropped when its channel fills up) *)
Definition C08_sched_isolation : Prop :=
  forall first kept h0 script reqs sched p q i,
    let st := crun true first kept (cinit h0 script reqs) sched in
    nth_error (g_order st) p = Some i -> p <> q ->
    xview (xrun first kept (xstart (mkSH h0 [])) (xerase q (map snd (serial st)))) p
    = Some (sub_done st i, got_at st i).

(* ---------------------------------------------------------------- progress *)

Definition finished (st : cstate) : Prop :=
  g_ppc st = PIdle /\ g_script st = [] /\
  forall i c, nth_error (g_reqs st) i = Some c ->
    r_pc c = RDone /\ forall s, r_sub c = Some s -> ms_queue s = [].

(* c08_sched_no_deadlock: some thread can take a step unless the producer has processed its script,
   every request has returned and every channel is empty.  The producer is never blocked by a
   subscriber: inside its critical section its next step is always enabled (push does not wait, the
   mutex is free); waiting for the write lock it is enabled as soon as no reader is inside, and
   otherwise a requester inside is enabled. *)
Definition C08_sched_no_deadlock : Prop :=
  forall first kept h0 script reqs st, reachable first kept h0 script reqs st ->
    (finished st \/ exists t, cstep true first kept st t <> st) /\
    (in_write_cs st = true -> cstep true first kept st TProd <> st) /\
    (g_ppc st = PIdle -> g_script st <> [] -> cstep true first kept st TProd <> st) /\
    (forall b, g_ppc st = PWait b ->
       (g_readers st = O -> cstep true first kept st TProd <> st) /\
       (g_readers st <> O -> exists i c, nth_error (g_reqs st) i = Some c /\ in_read_cs c = true /\
                                         cstep true first kept st (TReq i) <> st)).

(* "never alters delivery to the hub": after every schedule the blocks processed are a prefix of the
   script, the hub is the hub alone fed with them, and the events fanned out or still pending are its
   events, in order: no subscription, receive or drop occurs in them *)
Definition C08_sched_hub_unaffected : Prop :=
  forall first kept h0 script reqs sched,
    let st := crun true first kept (cinit h0 script reqs) sched in
    let ops := map snd (serial st) in
    (exists rest, script = blocks ops ++ rest) /\
    g_hub st = hub_after first kept h0 (blocks ops) /\
    fans ops ++ pend_of st = push_events first kept h0 (blocks ops).

(* end to end: once everything has finished (script processed, every request returned, every channel
   drained) a registered subscription that was not dropped has received exactly its burst — the
   burst of the hub after the blocks [before] its registration — followed by every event of every
   later block of the script; a dropped one a strict prefix of that *)
Definition C08_sched_complete_delivery : Prop :=
  forall first kept h0 script reqs sched p i,
    let st := crun true first kept (cinit h0 script reqs) sched in
    finished st -> nth_error (g_order st) p = Some i ->
    exists c s before after burst,
      nth_error (g_reqs st) i = Some c /\ r_sub c = Some s /\
      script = before ++ after /\
      let h1 := hub_after first kept h0 before in
      request_burst h1 (r_req c) = Some burst /\
      (ms_dropped s = false -> r_got c = burst ++ map QEv (push_events first kept h1 after)) /\
      (ms_dropped s = true ->
         exists evs1 e evs2, push_events first kept h1 after = evs1 ++ e :: evs2 /\
                             r_got c = burst ++ map QEv evs1).

(* ---------------------------------------------------------------- the unfixed code *)

(* without subscribersLock (fixed = false) a schedule of two requesters loses a registration: both
   return a source, one of them is not in h.subscribers and never receives a later event *)
Definition C08_unfixed_lost_registration : Prop :=
  exists first kept h0 script reqs sched i c s,
    let st := crun false first kept (cinit h0 script reqs) sched in
    nth_error (g_reqs st) i = Some c /\ r_pc c = RDone /\ r_sub c = Some s /\ ms_dropped s = false /\
    g_ppc st = PIdle /\ g_script st = [] /\ script <> [] /\
    ~ In i (g_subs st) /\
    (exists burst, request_burst h0 (r_req c) = Some burst /\ r_got c ++ ms_queue s = burst) /\
    push_events first kept h0 script <> [].
