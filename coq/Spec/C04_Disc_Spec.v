(* C04 in DISCOVERY mode (addition to Spec/C04_Spec.v and Spec/C04_Moving_Spec.v): no LIB is configured
   (forkable.New without WithExclusiveLIB / WithInclusiveLIB) and blocks are held until a LIB is known
   (holdBlocksUntilLIB, the way the ForkableHub configures its Forkable).

   The Forkable stores blocks without delivering anything until a block b declares as LIB number the height of
   a stored ancestor a (or is its own LIB, or is the first streamable block): that call ESTABLISHES the LIB a
   (SetLIB).  It delivers New for the never-delivered blocks from the child of a up to b (cursor LIB = a) and then
   Irreversible for a itself; from then on the stream is the stream of a Forkable rooted at a.

   The cursor monitor c04_b of Spec/Consumer.v reads the root of a discovery-mode stream from the trace:
   root_ref LNone t = the cursor LIB of the first delivered event. *)
From BV Require Import Base.Prelude Model.Block Model.ForkDB Model.Forkable Spec.Consumer Spec.Universe
  Spec.C01_Spec Spec.C01_Moving_Spec Spec.C01_Roots_Spec Spec.C04_Spec Spec.C04_Moving_Spec
  Check.Fk_Check Check.Fk_Props_Check.
Local Open Scope N_scope.

(* ---------------------------------------------------------------- the shape of a discovery-mode run *)

(* `seen` = the blocks fed before (newest first).  Every call returns normally.  As long as no LIB is known a
   call delivers NOTHING.  The first call that delivers something establishes the LIB r0 = the cursor LIB of its
   first event, and from that call on (itself included) the run has the per-step shape c04m_run of
   Spec/C04_Moving_Spec.v for the root r0, starting with LIB r0 and an empty consumer stack: the establishing
   call is a step without Undo events whose New events carry cursor LIB r0 and lie at or above r0 (strictly above,
   except r0's own block when the incoming block is its own LIB), whose only Irreversible event (when
   Irreversible steps are delivered) is the announcement of r0's block with cursor LIB r0, and which reports
   nothing stalled; the junction of later Undo batches that empty the stack is r0 when a block carrying r0's
   id was fed before (the LIB block is in the fork database), else absent. *)
Fixpoint c04d_run (firr : bool) (seen : list block) (h : list block) (t : trace) : Prop :=
  match h, t with
  | [], [] => True
  | b :: h', (evs, r) :: t' =>
      (r = ROk /\ evs = [] /\ c04d_run firr (b :: seen) h' t') \/
      (exists r0 e rest, evs = e :: rest /\ elib e = r0 /\ c04m_run r0 firr seen r0 [] h t)
  | _, _ => False
  end.

(* ---------------------------------------------------------------- the part that is proved *)

(* discovery mode with hold-until-LIB, includeInitialLIB off (forkable.New never sets it without a LIB), New and
   Undo in the filter, a history of the class disc_scope2_b of Spec/C01_Roots_Spec.v (well-formed, LIB declarations
   in the class lib_ok_b LNone: the declared number is the height of an ancestor-or-self in the history or lies
   under the whole ancestry; blocks with an empty parent id allowed; any tree, arrival order, duplicates, LIB jumps).
   The cursor monitor accepts the run for EVERY handler oracle; with a handler that never fails the run has the
   shape above. *)
Definition c04_discovery_statement : Prop :=
  forall cfg h,
    c_hold cfg = true -> c_incl cfg = false ->
    f_new (c_filter cfg) = true -> f_undo (c_filter cfg) = true ->
    disc_scope2_b h = true ->
    c04_statement cfg LNone h /\
    (c_fail_at cfg = None -> c04d_run (f_irr (c_filter cfg)) [] h (fk_run cfg (fs_init LNone) h)).

(* ---------------------------------------------------------------- on the observations of the check *)

(* the generated discovery-mode cases that meet every hypothesis of c04_discovery_statement (the filter of the
   evidence counter "cases_meeting_theorem_hypotheses") *)
Definition c04_disc_thm_scope (k : fk_case) : bool :=
  match k_mode k with
  | LNone => c_hold (k_cfg k) && negb (c_incl (k_cfg k)) && filt_nu k && disc_scope2_b (k_hist k)
  | _ => false
  end.

(* c04_full on those cases, in the form the check evaluates it: every observation that corresponds to the model
   (events and results of every call, any handler oracle) passes the checker's c04_prop *)
Definition c04_discovery_observed : Prop :=
  forall k, c04_disc_thm_scope k = true -> fk_corresponds k = true -> c04_prop k = true.

(* What remains between this, c04_moving_lib_roots_statement and c04_full (Spec/C04_Spec.v):
   - a configured starting LIB that is incoherent with the history, histories outside lib_ok_b;
   - LNone with c_incl = true (not a configuration forkable.New produces);
   - the hub-burst / file-source clauses of C04 (Check/C04_More.v). *)
