(* C10 — File source delivery is ordered, contiguous, complete under any preprocess timing.
   Readable statements, full strength: every layout, every thread count, every schedule of the
   interleaving model Model/Pipeline.v (= every relative timing of the launch reader, the file
   readers, the drain goroutines, the preprocess goroutines, run() and an outside Shutdown).
   The model follows filesource.go with the two C11 fix patches applied ([fixed C]). *)
From BV Require Import Base.Prelude Model.FileSeq Model.Pipeline.
Local Open Scope N_scope.

Definition prefix {A} (a b : list A) : Prop := exists r, b = a ++ r.

(* a block paired with the preprocessor result computed for that same block *)
Definition pairs (pre : blk -> N) (l : list blk) : list pblk := map (fun b => (b, pre b)) l.

(* every block names its predecessor as parent (an empty id disables the test, as in the code) *)
Fixpoint linked_from (last : N) (l : list blk) : Prop :=
  match l with
  | [] => True
  | b :: l' => (last = 0 \/ b_par b = last) /\ linked_from (b_id b) l'
  end.

(* ---- c10_seq : what the reference sequence is ---- *)
Definition C10_seq : Prop :=
  forall L : layout,
    let d := expected_blocks L in
    let E := candidates L in
    (* stored order, each stored block at most once, nothing that passes the tests skipped: the
       candidates are the stored blocks of the files read, in stored order, that are at or above
       the start block and not below the base of their bundle (legacy leading block) *)
    E = map snd (filter (fun ib => keep L (fst ib) (snd ib)) (stored L)) /\
    Forall (fun b => l_start L <= b_num b) E /\
    (* the deliveries are a parent-linked prefix of the candidates ... *)
    prefix d E /\ linked_from 0 d /\
    (* ... which stops early only in front of the first block that does not name its
       predecessor as parent *)
    match expected_outcome L with
    | ONonSeq => exists b r, E = d ++ b :: r /\ d <> [] /\
                             b_id (last d blk0) <> 0 /\ b_par b <> b_id (last d blk0)
    | OStop => E = d /\ stopped L = true
    | OTail => E = d /\ stopped L = false
    end /\
    (* the stop marker comes after the first bundle whose successor starts above the stop block,
       i.e. every stored block up to the stop block is a candidate before it *)
    (stopped L = true ->
       l_stop L <> 0 /\ (0 < nsend L)%nat /\ l_stop L < base_of L (nsend L) /\
       forall j, (S j < nsend L)%nat -> base_of L (S j) <= l_stop L) /\
    (stopped L = false -> nsend L = nfiles L).

(* ---- c10_order ---- *)

(* safety, every schedule, with or without an outside Shutdown (and, for C11, with a fault):
   the handler-call sequence is a prefix of the reference sequence, every block paired with the
   preprocessor result of that same block *)
Definition C10_order_safety : Prop :=
  forall pre C sched, fixed C ->
    prefix (s_calls (run pre C sched (init C))) (pairs pre (expected_blocks (c_lay C))).

(* every schedule can be continued to quiescence, and any continuation by enough fair rounds
   (every thread scheduled once with each select choice per round) is quiescent *)
Definition C10_order_quiesces : Prop :=
  forall pre C sched, fixed C ->
    exists n, forall m, (n <= m)%nat ->
      quiescent pre C (run pre C (sched ++ rounds C m) (init C)).

(* completeness at quiescence when nothing fails and nobody shuts the source down: everything
   was delivered, and the run ended the way the reference says (stop-block-reached only after
   every candidate was delivered; without a stop block in reach the source is still waiting
   for the next bundle: Run has not returned and no error is set) *)
Definition C10_order_complete : Prop :=
  forall pre C sched, fixed C -> c_fault C = FNone -> c_ext C = false ->
    let s := run pre C sched (init C) in
    quiescent pre C s ->
    s_calls s = pairs pre (expected_blocks (c_lay C)) /\
    match expected_outcome (c_lay C) with
    | OStop => returned s = true /\ s_err s = Some EStop
    | ONonSeq => returned s = true /\ s_err s = Some ENonSeq
    | OTail => returned s = false /\ s_err s = None
    end.

Definition C10_order : Prop := C10_order_safety /\ C10_order_quiesces /\ C10_order_complete.

(* ---- c10_continuity ---- *)
(* if the candidates contain a block b that does not name its predecessor (the last block of
   the linked prefix d) as parent, then under every schedule the deliveries stay within d (b is
   never delivered), and an undisturbed run ends with the non-sequential error after exactly d *)
Definition C10_continuity : Prop :=
  forall pre C sched d b r, fixed C ->
    candidates (c_lay C) = d ++ b :: r ->
    linked_from 0 d -> d <> [] ->
    b_id (last d blk0) <> 0 -> b_par b <> b_id (last d blk0) ->
    let s := run pre C sched (init C) in
    prefix (s_calls s) (pairs pre d) /\
    (c_fault C = FNone -> c_ext C = false -> quiescent pre C s ->
       returned s = true /\ s_err s = Some ENonSeq /\ s_calls s = pairs pre d).
