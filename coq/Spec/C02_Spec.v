(* C02 — finality is sound, ordered, gap-free, never revoked; stalled blocks are dead: statements.
   The model under these statements is Model/Forkable.v (fk_step / fk_run); the finality monitor is
   fin_mon / c02_b of Spec/Consumer.v, the one the checker evaluates on the implementation's trace. *)
From BV Require Import Base.Prelude Model.Block Model.ForkDB Model.Forkable Spec.Consumer Spec.Universe
  Spec.C01_Moving_Spec.
Local Open Scope N_scope.

(* what C02 says about one history: the monitor accepts the whole trace.  Per event it checks:
   Irreversible: the block is the root LIB itself (first announcement only) or a child of the last
     block announced final (gap-free parent-linked chain extending the starting LIB); it was never
     reported stalled; its number is at most the LIB number declared by the incoming block; it is the
     oldest pending (not yet final) block of the consumer's stack;
   Undo: the block was never announced final (finality is never revoked), and it is the top of the stack;
   New: its parent is the top of the stack (or the root rule);
   Stalled: never announced final, not reported stalled before, not on the consumer's stack, number at
     or below the height of the last final block. *)
Definition c02_statement (cfg : config) (m : libmode) (h : list block) : Prop :=
  c02_b m h (fk_run cfg (fs_init m) h) = true.

(* the property's quantifier *)
Definition c02_scope (cfg : config) (m : libmode) (h : list block) : Prop :=
  (match m with LNone => c_hold cfg = true | _ => True end) /\
  f_new (c_filter cfg) = true /\ f_undo (c_filter cfg) = true /\ f_irr (c_filter cfg) = true /\
  wf_b h = true /\ lib_ok_b m h = true.

(* FULL STRENGTH (not proved in this generality; the checker c02_prop evaluates exactly this monitor on
   every generated history against the implementation's observation) *)
Definition c02_full : Prop := forall cfg m h, c02_scope cfg m h -> c02_statement cfg m h.

(* The part that is proved: a configured starting LIB r0 (exclusive or inclusive, any includeInitialLIB
   flag) coherent with the history (moving_scope_b); any handler oracle (never failing, or failing at
   any call: the trace is then cut at the failing call).  The LIB moves freely: jumps of many blocks,
   branches that disagree on finality, LIB = head, reorganisation and LIB jump in the same step, any
   retention. *)
Definition c02_moving_lib_statement : Prop :=
  forall cfg r0 m h,
    rooted_mode r0 m ->
    f_new (c_filter cfg) = true -> f_undo (c_filter cfg) = true -> f_irr (c_filter cfg) = true ->
    moving_scope_b r0 h = true ->
    c02_statement cfg m h.

(* discovery mode (hold-until-LIB): the first announcement is the discovered LIB block itself (the root
   announcement), which need not be on the consumer's stack *)
Definition c02_discovery_statement : Prop :=
  forall cfg h,
    c_hold cfg = true -> c_incl cfg = false ->
    f_new (c_filter cfg) = true -> f_undo (c_filter cfg) = true -> f_irr (c_filter cfg) = true ->
    disc_scope_b h = true ->
    c02_statement cfg LNone h.
