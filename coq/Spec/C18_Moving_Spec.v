(* C18 at STREAM level (addition to Spec/C18_Spec.v): the lookups of the Forkable against the stream it delivered.

   Property text (C18, second sentence).  "Its canonical lookup at a height present on the consumer's chain
   returns exactly that chain's block, its head information equals the last block delivered as New, and its
   lowest servable number is the first block of the contiguous retained chain ending at the head."
   (First sentence, "it always returns, by hash and by number, every block it received at or above the LIB on
   any fork": stated here without store-level hypotheses, for the whole kept window LIB - kept.)

   Where.  After EVERY input block that ProcessBlock accepted (returned nil), for every history of the class
   `moving_scope2_b r0 h` of Spec/C01_Roots_Spec.v (well-formed, LIB declarations in the class lib_ok_b, configured
   LIB coherent with the history: any tree, any arrival order, duplicates, unlinkable blocks, roots = blocks with an
   empty parent id, blocks under the LIB, LIB jumps of any size, reorganisation and LIB move in one step), both
   modes with a configured LIB (exclusive / inclusive), EVERY configuration with the New and Undo steps in the
   filter: any retention `c_kept` (0 included), any first streamable block, includeInitialLIB on or off,
   all-blocks-trigger on or off, Irreversible / Stalled filtered or not, and ANY handler oracle (the statements
   speak about the states reached through calls that returned ROk; a failing call ends the stream).

   The consumer.  S is the stack the C01 consumer (Spec/Consumer.v: apply_all) holds after the events
   delivered so far: newest block first, its bottom is the first block ever delivered as New.  Final
   blocks stay on S: S is the WHOLE chain of the consumer, from its first block to the head. *)
From BV Require Import Base.Prelude Model.Block Model.ForkDB Model.Forkable Model.ForkableLookups Model.Burst
  Spec.Consumer Spec.Universe Spec.C01_Spec Spec.C01_Moving_Spec Spec.C01_Roots_Spec Spec.C18_Spec
  Check.Fk_Check Check.Fk_Props_Check.
Local Open Scope N_scope.

(* ---------------------------------------------------------------- observation points *)

(* feeding the blocks `pre` to state s, every call returning ROk, delivers the events `evs` and ends in s' *)
Inductive reaches (cfg : config) : fstate -> list block -> list event -> fstate -> Prop :=
| reach_nil s : reaches cfg s [] [] s
| reach_step s b s1 evs pre evs' s' :
    fk_step cfg s b = (s1, evs, ROk) -> reaches cfg s1 pre evs' s' -> reaches cfg s (b :: pre) (evs ++ evs') s'.

Definition c18_scope (cfg : config) (r0 : ref) (m : libmode) (h : list block) : Prop :=
  rooted_mode r0 m /\ f_new (c_filter cfg) = true /\ f_undo (c_filter cfg) = true /\ moving_scope2_b r0 h = true.

(* P holds at every observation point of the history h: a prefix `pre` of h was fed, every call returned ROk,
   `s` is the state of the Forkable and S the consumer's stack (it exists: the events obey the discipline) *)
Definition at_every_point (cfg : config) (r0 : ref) (m : libmode) (h : list block)
           (P : fstate -> cstack -> Prop) : Prop :=
  forall pre rest evs s, h = pre ++ rest -> reaches cfg (fs_init m) pre evs s ->
    exists S, apply_all (ri r0) [] evs = Some S /\ P s S.

(* the block is in the buffer *)
Definition retained (s : fstate) (c : block) : Prop := get_block_by_hash s (bid c) = true.

(* ---------------------------------------------------------------- 2. head information *)

(* HeadInfo / HeadNum / lastBlockSent are the top of the consumer's stack: the last block delivered as New that
   was not undone (after a reorganisation: the last New of the new branch); before the first delivery there is
   no head *)
Definition head_clause (s : fstate) (S : cstack) : Prop :=
  last_sent s = match S with top :: _ => Some top | [] => None end /\
  head_info s = match S with top :: _ => Some (bref top, blib top) | [] => None end /\
  head_num s = match S with top :: _ => bnum top | [] => 0 end.

Definition C18_moving_head : Prop :=
  forall cfg r0 m h, c18_scope cfg r0 m h -> at_every_point cfg r0 m h head_clause.

(* ---------------------------------------------------------------- 1. canonical lookup *)

(* BlockInCurrentChain transcribed onto the list of blocks it meets.  `anc`: the retained ancestors of the
   current block `cur`, newest first; `floor`: the number the walk attributes to the first id that is NOT retained
   (only the LIB registered by InitLIB has a number without being stored) *)
Fixpoint canon_below (floor : option N) (anc : list block) (cur : N) (n : N) : N :=
  match anc with
  | [] => match floor with
          | Some pn => if pn =? n then 0 else if pn <? n then cur else 0
          | None => 0
          end
  | pr :: rest => if bnum pr =? n then bid pr else if bnum pr <? n then cur else canon_below floor rest (bid pr) n
  end.

(* seg: the retained chain of the head, newest first *)
Definition canon_walk (floor : option N) (seg : list block) (n : N) : N :=
  match seg with
  | [] => 0
  | hd :: anc => if bnum hd =? n then bid hd else canon_below floor anc (bid hd) n
  end.

(* a parent-linked run of blocks, oldest first, whose first block sits on `below` *)
Fixpoint parent_linked (below : N) (l : list block) : Prop :=
  match l with
  | [] => True
  | b :: l' => bparent b = below /\ parent_linked (bid b) l'
  end.

Definition stored_block (s : fstate) (x : block) : Prop :=
  exists e, find (bid x) (store (db s)) = Some e /\ eb e = x.

(* "the contiguous retained chain ending at the head", oldest first: parent-linked stored blocks, the last one is
   the head, the parent of the first one is not in the buffer *)
Definition retained_chain (s : fstate) (seg : list block) : Prop :=
  match seg with
  | [] => False
  | x0 :: _ => last_sent s = Some (last seg x0) /\ parent_linked (bparent x0) seg /\
               Forall (stored_block s) seg /\ get_block_by_hash s (bparent x0) = false
  end.

Definition canonical_clause (kept : N) (s : fstate) (S : cstack) : Prop :=
  let libn := rn (libref (db s)) in
  (* (a) a height of the consumer's chain inside the kept window (LIB - kept and above; in particular every
         height above the LIB and the kept final blocks): exactly that chain's block *)
  (forall c, In c S -> libn - kept <= bnum c -> retained s c /\ canonical_block_at s (bnum c) = bid c) /\
  (* (a') without reference to the window: whenever the block and everything above it on the chain are retained *)
  (forall c, In c S -> (forall c', In c' S -> bnum c <= bnum c' -> retained s c') ->
             canonical_block_at s (bnum c) = bid c) /\
  (* (b) QUIRK, skipped numbers: a height above the LIB that no block of the chain has returns the NEXT block of
         the chain above it (BlockInCurrentChain: "in case of skipped blocks, return the block above"), also
         directly above the LIB *)
  (forall c2 n, In c2 S -> libn < n -> n < bnum c2 -> (forall c, In c S -> n <= bnum c -> bnum c2 <= bnum c) ->
                canonical_block_at s n = bid c2) /\
  (* (c) QUIRK, above the head: the head itself - unless the head is the LIB block and its parent is not
         retained (then nothing) *)
  (forall top S' n, S = top :: S' -> bnum top < n ->
     canonical_block_at s n = if (libn <? bnum top) || get_block_by_hash s (bparent top) then bid top else 0) /\
  (* (d) at or under the LIB and under the lowest servable number: nothing *)
  (forall lo n, S <> [] -> lowest_block_num s = Some lo -> n < lo -> n <= libn -> canonical_block_at s n = 0) /\
  (* (e) before the first delivery: nothing *)
  (S = [] -> forall n, canonical_block_at s n = 0) /\
  (* (f) the complete answer, for every height: the walk over the retained chain of the head *)
  (forall seg x0 n, retained_chain s seg -> hd_error seg = Some x0 ->
     canonical_block_at s n = canon_walk (num_of (db s) (bparent x0)) (rev seg) n).

Definition C18_moving_canonical : Prop :=
  forall cfg r0 m h, c18_scope cfg r0 m h -> at_every_point cfg r0 m h (canonical_clause (c_kept cfg)).

(* ---------------------------------------------------------------- 3. lowest servable block *)

Definition lowest_clause (s : fstate) (S : cstack) : Prop :=
  (* before the first delivery *)
  (S = [] -> lowest_block_num s = Some 0) /\
  (* the retained chain of the head exists and is unique; LowestBlockNum is the number of its first block;
     blocksFromNum serves exactly from every number on it - the whole rest of the chain, in order - and nothing
     else (in particular nothing under the lowest servable number) *)
  (S <> [] -> exists seg x0, retained_chain s seg /\ hd_error seg = Some x0 /\
     (forall seg', retained_chain s seg' -> seg' = seg) /\
     lowest_block_num s = Some (bnum x0) /\
     (forall pre x suf, seg = pre ++ x :: suf ->
        exists evs, blocks_from_num s (bnum x) = BOk evs /\ map eblk evs = x :: suf) /\
     (forall n, (forall x, In x seg -> bnum x <> n) -> blocks_from_num s n = BErr) /\
     (* every block of the consumer's chain that is retained together with everything above it is on it *)
     (forall c, In c S -> (forall c', In c' S -> bnum c <= bnum c' -> retained s c') -> In c seg /\ bnum x0 <= bnum c)) /\
  (* it is the lowest retained block of the consumer's chain whenever the parent of that block is not in the buffer
     (always, once a final block was purged; otherwise only blocks at or under the starting LIB that were fed
     before the first delivery can extend the retained chain under the consumer's chain) *)
  (forall c, In c S -> (forall c', In c' S -> bnum c <= bnum c' -> retained s c') ->
             get_block_by_hash s (bparent c) = false -> lowest_block_num s = Some (bnum c)).

Definition C18_moving_lowest : Prop :=
  forall cfg r0 m h, c18_scope cfg r0 m h -> at_every_point cfg r0 m h lowest_clause.

(* which blocks of the consumer's chain are retained: inside the kept window all of them; once the LIB has moved
   nothing at all (on any fork) under LIB - kept *)
Definition window_clause (kept : N) (r0 : ref) (s : fstate) (S : cstack) : Prop :=
  (forall c, In c S -> rn (libref (db s)) - kept <= bnum c -> retained s c) /\
  (libref (db s) <> r0 -> bounded (db s) kept) /\
  rn r0 <= rn (libref (db s)).

Definition C18_moving_window : Prop :=
  forall cfg r0 m h, c18_scope cfg r0 m h -> at_every_point cfg r0 m h (window_clause (c_kept cfg) r0).

(* ---------------------------------------------------------------- 4. by hash / by number, on any fork *)

(* a block of the history that ProcessBlock did not drop (it was not under the LIB of a started stream) is found by
   GetBlockByHash and listed by AllBlocksAt at EVERY later observation point at which its number lies in the
   kept window of the current LIB - whatever fork it is on, delivered or not, linkable or not *)
Definition C18_moving_found : Prop :=
  forall cfg r0 m h, c18_scope cfg r0 m h ->
  forall pre1 b pre2 rest evs1 s1 evs s2 evs2 s3,
    h = pre1 ++ b :: pre2 ++ rest ->
    reaches cfg (fs_init m) pre1 evs1 s1 ->
    fk_step cfg s1 b = (s2, evs, ROk) ->
    below_lib s1 b = false ->
    reaches cfg s2 pre2 evs2 s3 ->
    cutoff (db s3) (c_kept cfg) <= bnum b ->
    get_block_by_hash s3 (bid b) = true /\ exists l, all_blocks_at s3 (bnum b) = Some l /\ In (bid b) l.

(* ---------------------------------------------------------------- the states of fk_states are observation points *)

(* position k of states_of (Spec/C18_Spec.v) is the state after the first k blocks; when the first k calls
   returned ROk it is an observation point (with a handler that never fails: every state of fk_states) *)
Definition C18_states_reached : Prop :=
  forall cfg s0 h k sk,
    nth_error (states_of cfg s0 h) k = Some sk ->
    Forall (fun x => snd x = ROk) (firstn k (fk_run cfg s0 h)) ->
    reaches cfg s0 (firstn k h) (all_events (firstn k (fk_run cfg s0 h))) sk.

(* ---------------------------------------------------------------- 5. the monitor of the check accepts *)

(* the cases that meet every hypothesis: a configured LIB (exclusive or inclusive), New / Undo / Irreversible in the
   filter, a history of the class moving_scope2_b (roots allowed), and recorded queries that cover the ids and the heights of the
   history (the monitor can only judge what was asked) *)
Definition c18_moving_thm_scope (k : fk_case) : bool :=
  match k_mode k with
  | LExcl r0 | LIncl r0 =>
      filt_nu k && filt_irr k && moving_scope2_b r0 (k_hist k) &&
      forallb (fun b => memN (bid b) (k_qi k) && memN (bnum b) (k_qh k)) (k_hist k)
  | LNone => false
  end.

(* [C18_full] of Spec/C18_Spec.v on those cases: every observation that corresponds to the model - events, results,
   head information and ALL recorded lookups after every block, any handler oracle - passes the boolean form of all
   five clauses of C18 that the check evaluates on the implementation (c18_prop: bound after a LIB move, retention by
   hash and by number at or above the LIB, canonical lookup on the consumer's chain, head information = last New,
   lowest servable number = first block of the contiguous retained chain, no lookup crash) *)
Definition C18_moving_lib : Prop :=
  forall k, c18_moving_thm_scope k = true -> fk_corresponds k = true -> c18_prop k = true.

(* in particular the model's own run with all lookups recorded: it corresponds to itself *)
Fixpoint model_obs (cfg : config) (s : fstate) (h : list block) (qh qi : list N) : list obs :=
  match h with
  | [] => []
  | b :: rest =>
      let '(s', evs, r) := fk_step cfg s b in
      mkObs evs r (head_info s') (head_num s') (Some (model_look s' qh qi)) ::
      match r with ROk => model_obs cfg s' rest qh qi | _ => [] end
  end.

Definition model_case (cfg : config) (m : libmode) (h : list block) (qh qi : list N) : fk_case :=
  mkFkCase cfg m h (model_obs cfg (fs_init m) h qh qi) qh qi.

Definition C18_moving_own_run : Prop :=
  forall cfg m h qh qi,
    c18_moving_thm_scope (model_case cfg m h qh qi) = true ->
    fk_corresponds (model_case cfg m h qh qi) = true /\ c18_prop (model_case cfg m h qh qi) = true.

(* ---------------------------------------------------------------- the full stream-level clauses of C18 *)

Definition C18_moving_full : Prop :=
  C18_moving_head /\ C18_moving_canonical /\ C18_moving_lowest /\ C18_moving_window /\ C18_moving_found.
