(* C05 - resuming from a cursor on the live hub equals never having disconnected.
   Statements about the EXISTING model Model/Burst.v (blocksFromCursor) relative to the head's
   complete segment `sg` (oldest first; the "retained canonical chain", see Spec/C09_Spec.v) and a
   cursor c.  The consumer is the one of Check/Burst_Check.v (`cons`, `cons_apply`, `cons_fold`):
   stack newest first, `cs_nf` final blocks at its bottom.

   What is proved here is the part of the property that is local to ONE state of the Forkable: what
   the burst is, and where it leads a consumer whose stack has the shape a cursor describes.  The
   property's main clause (`C05_resume_full` below) additionally needs the invariant that connects a
   cursor delivered earlier in the same history to the consumer's state at that cursor and to the
   retained store at the reconnection instant; see the comment at `C05_resume_full`. *)
From Coq Require Import Sorted Permutation.
From BV Require Import Base.Prelude Model.Block Model.ForkDB Model.Forkable Model.ForkableLookups
  Model.Burst Model.Hub Spec.Consumer Spec.Universe Check.Fk_Check Check.Burst_Check Spec.C09_Spec.
Local Open Scope N_scope.

(* what C09_head_segment gives for the head's segment of a well-formed state *)
Record good_seg (sg : list seg) : Prop := mk_good_seg {
  gs_std : Forall seg_std sg;                 (* recorded under the id and number of their block *)
  gs_link : Sorted seg_link sg;               (* consecutive elements are parent and child *)
  gs_inc : StronglySorted seg_lt sg;          (* numbers strictly increase *)
  gs_nodup : NoDup (map sid sg) }.

Definition seg_stored (d : forkdb) (sg : list seg) : Prop :=
  forall x, In x sg -> find (sid x) (store d) = Some (sent x).

(* ------------------------------------------------------------------ the fast path *)

Definition is_undo (c : cursor) : bool := matches_undo (cu_step c).
(* numbered above the cursor LIB *)
Definition above_clib (c : cursor) (x : seg) : bool := rn (cu_lib c) <? snum x.
(* the consumer at cursor c does not hold x: above the cursor block, or the cursor block itself when
   the cursor says it was undone (the fix) *)
Definition not_held (c : cursor) (x : seg) : bool :=
  (rn (cu_blk c) <? snum x) || (is_undo c && (snum x =? rn (cu_blk c))).
(* final for the hub now *)
Definition final_now (s : fstate) (x : seg) : bool := snum x <=? rn (libref (db s)).

Definition fast_keep (s : fstate) (c : cursor) (x : seg) : bool :=
  above_clib c x && (final_now s x || not_held c x).
Definition fast_step (s : fstate) (c : cursor) (x : seg) : step :=
  if final_now s x then (if not_held c x then SNewIrr else SIrr) else SNew.
Definition fast_event (s : fstate) (hd : block) (c : cursor) (x : seg) : event :=
  let b := seg_blk x in
  mkEv (fast_step s c x) b (bref b) (bref hd) (if final_now s x then bref b else libref (db s)) None 0 0.

Definition C05_fast_path_shape : Prop :=
  forall s hd sg c, good_seg sg ->
    (* the events: one per kept element, in segment order *)
    from_cursor_fast s hd sg c = map (fast_event s hd c) (filter (fast_keep s c) sg) /\
    (* each block at most once *)
    NoDup (map bid (map eblk (from_cursor_fast s hd sg c))) /\
    (* this is the answer exactly when cursor block and cursor LIB are both on the segment *)
    (forall fuel, block_in (ri (cu_blk c)) sg = true -> block_in (ri (cu_lib c)) sg = true ->
                  from_cursor_loop (S fuel) s hd sg c = BOk (from_cursor_fast s hd sg c)).

(* the segment elements the consumer at c holds above the cursor LIB, and all elements above it *)
Definition held_seg (c : cursor) (sg : list seg) : list seg :=
  filter (fun x => above_clib c x && negb (not_held c x)) sg.
Definition above_seg (c : cursor) (sg : list seg) : list seg := filter (above_clib c) sg.

(* P (oldest first) is what the consumer holds below: if not empty its top is the parent of l's first *)
Definition stack_links (P : list block) (l : list seg) : Prop :=
  match rev P, l with p :: _, x :: _ => bparent (seg_blk x) = bid p | _, _ => True end.

Definition C05_fast_path_consumer : Prop :=
  forall s hd sg c P any,
    good_seg sg ->
    (* when the consumer holds nothing above the cursor LIB, what it holds below must link *)
    (held_seg c sg = [] -> stack_links P (above_seg c sg)) ->
    let nfin := length (filter (final_now s) (above_seg c sg)) in
    cons_fold (mkCons (rev (P ++ map seg_blk (held_seg c sg))) (length P) any)
              (from_cursor_fast s hd sg c)
    = Some (mkCons (rev (P ++ map seg_blk (above_seg c sg)))          (* the whole chain above the cursor LIB *)
                   (length P + nfin)                                   (* exactly those up to the hub LIB final *)
                   (any || negb (Nat.eqb nfin 0))).

(* ------------------------------------------------------------------ the forked path *)

(* the branch below id: stored blocks, newest first, down to the first one whose parent is on sg;
   that parent is the junction *)
Inductive branch_to (d : forkdb) (sg : list seg) : N -> list seg -> N -> Prop :=
| bt_last : forall id e, find id (store d) = Some e -> block_in (bparent (eb e)) sg = true ->
            branch_to d sg id [mkSeg id (bnum (eb e)) e] (bparent (eb e))
| bt_step : forall id e l j, find id (store d) = Some e -> block_in (bparent (eb e)) sg = false ->
            branch_to d sg (bparent (eb e)) l j ->
            branch_to d sg id (mkSeg id (bnum (eb e)) e :: l) j.
(* ... or a block on the way is not stored *)
Inductive branch_broken (d : forkdb) (sg : list seg) : N -> Prop :=
| bb_here : forall id, find id (store d) = None -> branch_broken d sg id
| bb_step : forall id e, find id (store d) = Some e -> block_in (bparent (eb e)) sg = false ->
            branch_broken d sg (bparent (eb e)) -> branch_broken d sg id.

(* the cursor block itself is skipped for an Undo cursor *)
Definition already (c : cursor) (u : seg) : bool := (sid u =? ri (cu_blk c)) && step_eqb (cu_step c) SUndo.
Definition undos_of (c : cursor) (path : list seg) : list seg := filter (fun u => negb (already c u)) path.

Definition undo_event (hd : block) (c : cursor) (jref : ref) (u : seg) : event :=
  mkEv SUndo (seg_blk u) (bref (seg_blk u)) (bref hd) (cu_lib c) (Some jref) 0 0.

(* the cursor the recursion continues with: New at the junction *)
Definition junction_cursor (hd : block) (c : cursor) (jref : ref) : cursor :=
  mkCursor SNew jref (bref hd) (cu_lib c).

Definition C05_forked_path : Prop :=
  forall s hd sg c,
    wf_store (store (db s)) -> seg_stored (db s) sg ->
    (* exactly one of the two situations *)
    ((exists path j, branch_to (db s) sg (ri (cu_blk c)) path j) \/ branch_broken (db s) sg (ri (cu_blk c))) /\
    (forall path j, branch_to (db s) sg (ri (cu_blk c)) path j -> ~ branch_broken (db s) sg (ri (cu_blk c))) /\
    (* the walk *)
    (forall path j, branch_to (db s) sg (ri (cu_blk c)) path j ->
       undo_walk (fuel_of (db s)) (db s) sg c (ri (cu_blk c)) [] = Some (Some (undos_of c path, j)) /\
       (* the path starts at the cursor block, which is the only element an Undo cursor skips *)
       (exists x rest, path = x :: rest /\ sid x = ri (cu_blk c) /\
                       undos_of c path = if step_eqb (cu_step c) SUndo then rest else path) /\
       block_in j sg = true) /\
    (branch_broken (db s) sg (ri (cu_blk c)) ->
       undo_walk (fuel_of (db s)) (db s) sg c (ri (cu_blk c)) [] = Some None) /\
    (* the burst, when the cursor LIB is on the segment and the cursor block is not *)
    (block_in (ri (cu_lib c)) sg = true -> block_in (ri (cu_blk c)) sg = false ->
       (forall path j, branch_to (db s) sg (ri (cu_blk c)) path j ->
          exists je, find j (store (db s)) = Some je /\
            let jref := mkR j (bnum (eb je)) in
            from_cursor_loop (fuel_of (db s)) s hd sg c =
              BOk (map (undo_event hd c jref) (undos_of c path) ++
                   from_cursor_fast s hd sg (junction_cursor hd c jref))) /\
       (branch_broken (db s) sg (ri (cu_blk c)) -> from_cursor_loop (fuel_of (db s)) s hd sg c = BErr)).

(* the consumer through a forked burst: it holds, above what it holds of the segment up to the
   junction, the undone branch; the burst pops the branch newest first and then brings it to the
   head.  (`held_seg`/`above_seg` are taken at the junction cursor, whose LIB is the cursor's.) *)
Definition C05_resume_partial : Prop :=
  forall s hd sg c path j je P any,
    wf_store (store (db s)) -> seg_stored (db s) sg -> good_seg sg ->
    block_in (ri (cu_lib c)) sg = true -> block_in (ri (cu_blk c)) sg = false ->
    branch_to (db s) sg (ri (cu_blk c)) path j -> find j (store (db s)) = Some je ->
    let jc := junction_cursor hd c (mkR j (bnum (eb je))) in
    (held_seg jc sg = [] -> stack_links P (above_seg jc sg)) ->
    let nfin := length (filter (final_now s) (above_seg c sg)) in
    exists evs,
      from_cursor_loop (fuel_of (db s)) s hd sg c = BOk evs /\
      cons_fold (mkCons (rev (P ++ map seg_blk (held_seg jc sg) ++ map seg_blk (rev (undos_of c path))))
                        (length P) any) evs
      = Some (mkCons (rev (P ++ map seg_blk (above_seg c sg))) (length P + nfin)
                     (any || negb (Nat.eqb nfin 0))).

(* ------------------------------------------------------------------ serving obligation, no source *)

(* every stored block off the segment whose parent is off the segment too has its parent stored *)
Definition no_orphans (d : forkdb) (sg : list seg) : Prop :=
  forall e, In e (store d) -> block_in (key e) sg = false -> block_in (bparent (eb e)) sg = false ->
            find (bparent (eb e)) (store d) <> None.

Definition C05_serves : Prop :=
  forall s hd sg c,
    wf_state s -> has_lib (db s) = true -> last_sent s = Some hd ->
    complete_segment (db s) (bref hd) = Some (sg, true) ->
    (* the cursor LIB is on the retained canonical chain (and the cursor carries its number) *)
    (exists x, In x sg /\ sid x = ri (cu_lib c) /\ snum x = rn (cu_lib c)) ->
    (* the branch of the cursor block reaches the chain without leaving the store ... *)
    ~ branch_broken (db s) sg (ri (cu_blk c)) ->
    exists evs, blocks_from_cursor s c = BOk evs.

(* ... which holds when the cursor block is retained and the store has no orphans off the chain *)
Definition C05_serves_no_orphans : Prop :=
  forall d sg id, no_orphans d sg -> block_in id sg = false -> find id (store d) <> None ->
                  ~ branch_broken d sg id.

Definition C05_no_lib_no_source : Prop :=
  forall s c,
    (has_lib (db s) = false -> blocks_from_cursor s c = BErr) /\
    (forall hd sg, last_sent s = Some hd -> complete_segment (db s) (bref hd) = Some (sg, false) ->
                   blocks_from_cursor s c = BErr) /\
    (forall hd, last_sent s = Some hd -> complete_segment (db s) (bref hd) = Some ([], true) ->
                blocks_from_cursor s c = BErr) /\
    (forall hd s0 sg, last_sent s = Some hd -> complete_segment (db s) (bref hd) = Some (s0 :: sg, true) ->
                      rn (cu_lib c) < snum s0 -> blocks_from_cursor s c = BErr) /\
    (* a cursor LIB that is not on the retained chain is never served *)
    (forall hd sg, last_sent s = Some hd -> complete_segment (db s) (bref hd) = Some (sg, true) ->
                   block_in (ri (cu_lib c)) sg = false -> forall evs, blocks_from_cursor s c <> BOk evs).

(* with a well-formed state the answer in that last case is the error (no fuel exhaustion, no panic) *)
Definition C05_foreign_lib_err : Prop :=
  forall s c hd sg, wf_state s -> last_sent s = Some hd ->
    complete_segment (db s) (bref hd) = Some (sg, true) ->
    block_in (ri (cu_lib c)) sg = false -> blocks_from_cursor s c = BErr.

(* ------------------------------------------------------------------ the full statement *)

Definition ev_cursor (e : event) : cursor := mkCursor (estep e) (ecblk e) (ehead e) (elib e).

(* The property's main clause, over histories (NOT proved here; stated at full strength).
   It follows from C05_fast_path_consumer / C05_resume_partial and this invariant of the Forkable
   stream in hub configuration (the "key lemma" of DESIGN C04, to be proved with the C01-C04
   package over `fk_step`): for every delivered New/Undo event k and every later instant m whose
   burst is served,
     (i)   the consumer at k, with the blocks up to the cursor LIB counted final, has the stack
           P ++ [segment elements of st_m in (cursor LIB, junction]] ++ rev(branch from the cursor block
           (for an Undo cursor: its parent) to the junction), where the segment is the head's complete
           segment at m, the branch is `branch_to` at m, and P is final and ends with the cursor LIB block
           or is empty - i.e. exactly the initial consumer of C05_resume_partial (or of
           C05_fast_path_consumer when the cursor block is canonical at m);
     (ii)  the never-disconnected consumer at m has the stack P ++ [segment elements above the
           cursor LIB] with exactly the elements up to the hub LIB final - the final consumer of those
           theorems;
     (iii) the states reached by fk_step from fs_init are `wf_state` (C09_wf_preserved gives the
           store part for each primitive). *)
Definition C05_resume_full : Prop :=
  forall first kept (h : list block) (k m : nat) ek ck cm evs,
    wf_b h = true -> lib_ok_b LNone h = true ->
    let cfg := hub_config first kept in
    let tr := fk_run cfg (fs_init LNone) h in
    let upto n := concat (map fst (firstn n tr)) in
    nth_error (upto (length tr)) k = Some ek -> (estep ek = SNew \/ estep ek = SUndo) ->
    (k < length (upto m))%nat ->
    cons_fold cons0 (firstn (S k) (upto (length tr))) = Some ck ->
    cons_fold cons0 (upto m) = Some cm ->
    blocks_from_cursor (state_after cfg (fs_init LNone) h m) (ev_cursor ek) = BOk evs ->
    let ck' := mkCons (cs_stack ck)
                      (length (filter (fun b => bnum b <=? rn (elib ek)) (cs_stack ck))) true in
    exists c', cons_fold ck' evs = Some c' /\
               map bid (cs_stack c') = map bid (cs_stack cm) /\ cs_nf c' = cs_nf cm.
