(* C13 — readable statement: stream bounds and filters.

   Property text.  "A stream with stop block S delivers no event for a block above S, delivers block S
   itself when it exists, and then ends with the stop-block-reached error, whether S is reached in
   files or live.  Its step filter only removes events: the default filter passes exactly New,
   new-and-irreversible and Undo events, final-blocks-only exactly Irreversible and
   new-and-irreversible ones, a custom filter exactly the matching ones, in unchanged order.  A negative
   start block resolves to head minus that distance, never below the first streamable block, a start
   after the stop is rejected as an invalid argument, and final-blocks-only refuses a cursor that is
   not on a final block."

   The model (Model/Joining.v) has the handler chain of stream.createSource as the function [chain]
   (step filter outermost, then the stop-block handler, then the user handler), and Stream.Run as
   [stream_run] over the joined file/live source.

   * [C13_filter_exact], [C13_handler_chain], [C13_start]: full strength, unconditional.
   * [C13_stream_output]: for EVERY input of [stream_run]: the safety half of the stop clause and the
     filter clause on the real output, plus the factorisation "the output is the handler chain run
     over the events the sources handed to it".  The liveness half ("delivers block S itself when it
     exists") is proved at handler level ([C13_handler_chain]: the first passing event at or above S
     is delivered iff its number is S).  That the events handed to the chain are the complete
     canonical stream (nothing lost at the file-to-live handoff) is the subject of C07 and is not
     proved here; the stream-level full statement is [C13_stop_full]. *)
From Coq Require Import Sorting.Sorted.
From BV Require Import Base.Prelude Model.Block Model.ForkDB Model.Forkable Model.ForkableLookups
  Model.Burst Model.Hub Model.CursorResolver Model.Joining.
Local Open Scope N_scope.

Definition passes (c : jcfg) (e : event) : bool := filter_pass c (estep e).
Definition enum (e : event) : N := bnum (eblk e).

(* ---------------------------------------------------------------- filters *)

(* custom filter: StepType.Matches, i.e. the bit encodings New=1 Undo=2 Irreversible=16 Stalled=32
   NewIrreversible=17 intersect the mask *)
Definition C13_filter_exact : Prop :=
  forall c s,
    (j_filter c = 0 -> (filter_pass c s = true <-> s = SNew \/ s = SNewIrr \/ s = SUndo)) /\
    (j_filter c = 1 -> (filter_pass c s = true <-> s = SIrr \/ s = SNewIrr)) /\
    (j_filter c <> 0 -> j_filter c <> 1 ->
       (filter_pass c s = true <-> N.land (step_bits s) (j_custom c) <> 0)).

(* ---------------------------------------------------------------- the handler chain over a sequence *)

(* the events the user handler receives, and whether the chain ended with stop-block-reached: events
   are handed to [chain] one by one until it returns the error *)
Fixpoint chain_run (c : jcfg) (l : list event) : list event * bool :=
  match l with
  | [] => ([], false)
  | e :: l' =>
      if snd (chain c e) then ((if fst (chain c e) then [e] else []), true)
      else ((if fst (chain c e) then e :: fst (chain_run c l') else fst (chain_run c l')),
            snd (chain_run c l'))
  end.

Definition C13_handler_chain : Prop :=
  forall c l,
    let pass := filter (passes c) l in
    (* without stop block: exactly the passing events, in order, and no stop *)
    (j_stop c = 0 -> chain_run c l = (pass, false)) /\
    (j_stop c <> 0 ->
       (* no passing event at or above S: the same *)
       ((forall e, In e pass -> enum e < j_stop c) -> chain_run c l = (pass, false)) /\
       (* otherwise: the passing events before the first one at or above S, that one iff its number
          is S, nothing after it, and stop-block-reached *)
       (forall p1 e p2, pass = p1 ++ e :: p2 -> (forall x, In x p1 -> enum x < j_stop c) ->
          j_stop c <= enum e ->
          chain_run c l = (p1 ++ (if enum e =? j_stop c then [e] else []), true))).

(* ---------------------------------------------------------------- Stream.Run *)

Definition C13_stream_output : Prop :=
  forall c w ps merged_end merged forked out r,
    stream_run c w ps merged_end merged forked = (out, r) ->
    (* the filter only removes: whatever is delivered passes it *)
    Forall (fun e => passes c e = true) out /\
    (* stop block S: nothing above S; an event at or above S is for S itself, is the last one
       delivered, and the run ends with stop-block-reached *)
    (j_stop c <> 0 ->
       Forall (fun e => enum e <= j_stop c) out /\
       (forall out1 e out2, out = out1 ++ e :: out2 -> j_stop c <= enum e ->
          out2 = [] /\ enum e = j_stop c /\ r = JStop)) /\
    (r = JStop -> j_stop c <> 0) /\
    (* the output is the handler chain run over the events the file and live sources handed to it
       (fed), whether S was reached in files or live; stop-block-reached is returned exactly when the
       chain stopped or the file source reported the end of the range containing S *)
    (exists fed,
       out = fst (chain_run c fed) /\
       (snd (chain_run c fed) = true -> r = JStop) /\
       (r = JStop -> snd (chain_run c fed) = true \/
                     (j_stop c / j_bundle c + 1) * j_bundle c <= merged_end)).

(* ---------------------------------------------------------------- start block and argument checks *)

Definition stream_head (w : world) : N :=
  match hub_head (w_hub w) with Some (r, _) => rn r | None => 0 end.

Definition C13_start : Prop :=
  (* resolution: never below the first streamable block; head - distance, saturating at 0 *)
  (forall first start head,
     first <= abs_start first start head /\
     ((0 <= start)%Z -> abs_start first start head = N.max first (Z.to_N start)) /\
     ((start < 0)%Z -> abs_start first start head = N.max first (head - Z.to_N (- start)))) /\
  (* a (resolved) start after the stop block is an invalid argument; nothing is delivered *)
  (forall c w ps merged_end merged forked,
     j_stop c <> 0 -> j_stop c < abs_start (j_first c) (j_start c) (stream_head w) ->
     stream_run c w ps merged_end merged forked = ([], JInvalidArg)) /\
  (* final-blocks-only with a cursor that is not on a final block: invalid argument *)
  (forall c w ps merged_end merged forked cu,
     j_filter c = 1 -> j_mode c <> 0 -> j_cursor c = Some cu -> on_final_block cu = false ->
     stream_run c w ps merged_end merged forked = ([], JInvalidArg)) /\
  (* Cursor.IsOnFinalBlock *)
  (forall cu, on_final_block cu = true <->
              rn (cu_blk cu) = rn (cu_lib cu) /\ (cu_step cu = SIrr \/ cu_step cu = SNewIrr)).

(* whenever Stream.Run answers "invalid argument" (the two checks above, or a cursor that cannot be
   resolved against the files) nothing has been delivered *)
Definition C13_invalid_arg_empty : Prop :=
  forall c w ps merged_end merged forked out,
    stream_run c w ps merged_end merged forked = (out, JInvalidArg) -> out = [].

(* ---------------------------------------------------------------- full stop clause at stream level *)

Definition with_stop (c : jcfg) (s : N) : jcfg :=
  mkJ (j_first c) (j_kept c) (j_bundle c) (j_mode c) (j_start c) (j_cursor c) s (j_filter c) (j_custom c).

(* NOT PROVED HERE.  The stream with stop block S delivers exactly what the handler chain with stop S
   lets through of the output of the SAME stream without stop block — in particular block S itself
   whenever the stream without stop delivers it, whether from files or live.  (What the stream without
   stop delivers is C07's statement.  The file source reads merged blocks in number order; the
   statement needs that order.  It also needs a cursor, if any, at or below S: with a cursor ABOVE the
   stop block the files are read only up to the bundle of S, the cursor is never resolved, and the run
   ends with stop-block-reached having delivered nothing — see notes_proof_C13.md.) *)
Definition C13_stop_full : Prop :=
  forall c w ps merged_end merged forked,
    j_stop c <> 0 ->
    StronglySorted (fun a b => bnum a < bnum b) merged ->
    (j_mode c = 0 \/ exists cu, j_cursor c = Some cu /\ rn (cu_blk cu) <= j_stop c) ->
    snd (stream_run c w ps merged_end merged forked) <> JInvalidArg ->
    fst (stream_run c w ps merged_end merged forked)
    = fst (chain_run c (fst (stream_run (with_stop c 0) w ps merged_end merged forked))).
