(* C13, the stop clause over whole runs (addition to Spec/C13_Spec.v).

   C13_stop_full of Spec/C13_Spec.v quantifies over EVERY world, filter and cursor; in that generality it does
   not hold in the model (notes_proof_S2.md): the run without stop block reads merged files beyond the bundle
   of S and may join the hub there; with a filter that lets neither New nor new+irreversible through, or with
   a hub that is not a state of a hub run, events for blocks at or below S can follow that the run WITH stop
   block never sees (its file source ends with the bundle of S).  The statements below carry the hypotheses
   under which the clause is proved. *)
From Coq Require Import Sorting.Sorted.
From BV Require Import Base.Prelude Model.Block Model.ForkDB Model.Forkable Model.ForkableLookups
  Model.Burst Model.Hub Model.CursorResolver Model.Joining
  Spec.Consumer Spec.Universe Check.Burst_Check Check.C07_Check Spec.C06_Spec Spec.C07_Spec Spec.C09_Spec
  Spec.C13_Spec Spec.C07_Compose_Spec.
Local Open Scope N_scope.

(* From a block number; the hub is a state of a hub run over a universe of the Forkable class; the step
   filter lets New and new+irreversible through (the default filter; custom masks containing New); any
   schedule, any position of S (in the files, on a bundle boundary, in the hub window, on a skipped number).
   The stream with stop block S delivers exactly what the handler chain with stop S lets through of the
   output of the same stream without stop block, and when that chain reaches S the stream ends with
   stop-block-reached - whether S is reached in files or live. *)
Definition C13_stop_num : Prop :=
  forall (U : list block) (c : jcfg) (w : world) (ps : list (N * N)) (merged_end : N) (merged forked : list block),
    wf_b U = true -> lib_ok_b LNone U = true -> hub_of_universe U c w ->
    j_stop c <> 0 -> j_stop c <= file_bound ->
    StronglySorted (fun a b => bnum a < bnum b) merged -> Forall (fun b => bnum b < merged_end) merged ->
    j_mode c = 0 -> filter_pass c SNew = true -> filter_pass c SNewIrr = true ->
    snd (stream_run c w ps merged_end merged forked) <> JInvalidArg ->
    let out0 := fst (stream_run (with_stop c 0) w ps merged_end merged forked) in
    fst (stream_run c w ps merged_end merged forked) = fst (chain_run c out0) /\
    (snd (chain_run c out0) = true -> snd (stream_run c w ps merged_end merged forked) = JStop).

(* what "cut at S" means for the output out0 of the stream without stop block: e1 is its first event at or
   above S; the stream with stop block delivers what comes before, e1 itself iff it is numbered S, nothing
   more, and ends with stop-block-reached *)
Definition stop_cut (c : jcfg) (out0 : list event) (res : list event * jerr) : Prop :=
  exists p1 e1 p2,
    out0 = p1 ++ e1 :: p2 /\ (forall x, In x p1 -> enum x < j_stop c) /\ j_stop c <= enum e1 /\
    fst res = p1 ++ (if enum e1 =? j_stop c then [e1] else []) /\ snd res = JStop.

(* as soon as the stream without stop block delivers an event at or above S *)
Definition C13_stop_cut : Prop :=
  forall (U : list block) (c : jcfg) (w : world) (ps : list (N * N)) (merged_end : N) (merged forked : list block),
    wf_b U = true -> lib_ok_b LNone U = true -> hub_of_universe U c w ->
    j_stop c <> 0 -> j_stop c <= file_bound ->
    StronglySorted (fun a b => bnum a < bnum b) merged -> Forall (fun b => bnum b < merged_end) merged ->
    j_mode c = 0 -> filter_pass c SNew = true -> filter_pass c SNewIrr = true ->
    snd (stream_run c w ps merged_end merged forked) <> JInvalidArg ->
    let out0 := fst (stream_run (with_stop c 0) w ps merged_end merged forked) in
    (exists e, In e out0 /\ j_stop c <= enum e) ->
    stop_cut c out0 (stream_run c w ps merged_end merged forked).

(* "delivers block S itself when it exists, then ends with stop-block-reached, whether S is reached in files
   or live": C07 (the stream without stop block holds the merged blocks from start, or canon from start)
   composed with the cut.  World hypotheses as in C07_seamless_num; bS is the canonical block numbered S.
   When the stream without stop block ends waiting it holds bS as soon as S lies in the merged files or the
   stream has joined the hub; then the stream with stop block is that stream cut at S. *)
Definition C13_stop_reached : Prop :=
  forall (U : list block) (c : jcfg) (w : world) (ps : list (N * N)) (merged_end : N) (canon forked : list block),
    wf_b U = true -> lib_ok_b LNone U = true -> hub_of_universe U c w ->
    chain_ok canon -> incl canon U ->
    let merged := filter (fun b => bnum b <? merged_end) canon in
    eventual_tip c w canon ->
    j_mode c = 0 -> j_filter c = 0 -> 0 < j_bundle c -> Forall (fun b => bnum b < file_bound) merged ->
    j_stop c <> 0 -> j_stop c <= file_bound ->
    let start := run_start c w in
    start <= j_stop c -> (exists b, In b canon /\ bnum b = start) ->
    forall bS, In bS canon -> bnum bS = j_stop c ->
    let res0 := stream_run (with_stop c 0) w ps merged_end merged forked in
    let res := stream_run c w ps merged_end merged forked in
    snd res0 = JNil ->
    exists c', cons_fold_aside cons0 (map as_new (fst res0)) = Some c' /\
      (rev (cs_stack c') = from_num start merged \/ from_num start (rev (cs_stack c')) = from_num start canon) /\
      (j_stop c < merged_end \/ from_num start (rev (cs_stack c')) = from_num start canon ->
       In bS (cs_stack c') /\ stop_cut c (fst res0) res).

(* From a cursor: the same, provided the files read up to the bundle of S reach the cursor block (the resolver
   decides within them; otherwise the stream with stop block ends before the resolver has decided and the one
   without goes on to undo / announce blocks at or below S: c13_stop_full_refuted).  The join asks the hub for a
   block number as in number mode. *)
Definition C13_stop_cursor : Prop :=
  forall (U : list block) (c : jcfg) (w : world) (ps : list (N * N)) (merged_end : N) (merged forked : list block) (cu : cursor),
    wf_b U = true -> lib_ok_b LNone U = true -> hub_of_universe U c w ->
    j_stop c <> 0 -> j_stop c <= file_bound ->
    StronglySorted (fun a b => bnum a < bnum b) merged -> Forall (fun b => bnum b < merged_end) merged ->
    j_mode c = 1 -> j_cursor c = Some cu ->
    filter_pass c SNew = true -> filter_pass c SNewIrr = true ->
    reached (file_delivery merged (rn (cu_lib cu)) (j_stop c) (j_bundle c)) cu ->
    snd (stream_run c w ps merged_end merged forked) <> JInvalidArg ->
    let out0 := fst (stream_run (with_stop c 0) w ps merged_end merged forked) in
    fst (stream_run c w ps merged_end merged forked) = fst (chain_run c out0) /\
    (snd (chain_run c out0) = true -> snd (stream_run c w ps merged_end merged forked) = JStop).
