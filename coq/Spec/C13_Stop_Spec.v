(* C13, the stop clause over whole runs (addition to Spec/C13_Spec.v).

   C13_stop_full of Spec/C13_Spec.v quantifies over EVERY world, filter and cursor; in that generality it does
   not hold in the model (notes_proof_S2.md): the run without stop block reads merged files beyond the bundle
   of S and may join the hub there; with a filter that lets neither New nor new+irreversible through, or with
   a hub that is not a state of a hub run, events for blocks at or below S can follow that the run WITH stop
   block never sees (its file source ends with the bundle of S).  The statements below carry the hypotheses
   under which the clause is proved. *)
From Coq Require Import Sorting.Sorted.
From BV Require Import Base.Prelude Model.Block Model.ForkDB Model.Forkable Model.ForkableLookups
  Model.Burst Model.Hub Model.CursorResolver Model.Joining
  Spec.Consumer Spec.Universe Check.Burst_Check Check.C07_Check Spec.C06_Spec Spec.C07_Spec Spec.C09_Spec
  Spec.C13_Spec Spec.C07_Compose_Spec.
Local Open Scope N_scope.

(* From a block number; the hub is a state of a hub run over a universe of the Forkable class; the step
   filter lets New and new+irreversible through (the default filter; custom masks containing New); any
   schedule, any position of S (in the files, on a bundle boundary, in the hub window, on a skipped number).
   The stream with stop block S delivers exactly what the handler chain with stop S lets through of the
   output of the same stream without stop block, and when that chain reaches S the stream ends with
   stop-block-reached - whether S is reached in files or live. *)
Definition C13_stop_num : Prop :=
  forall (U : list block) (c : jcfg) (w : world) (ps : list (N * N)) (merged_end : N) (merged forked : list block),
    wf_b U = true -> lib_ok_b LNone U = true -> hub_of_universe U c w ->
    j_stop c <> 0 -> j_stop c <= file_bound ->
    StronglySorted (fun a b => bnum a < bnum b) merged -> Forall (fun b => bnum b < merged_end) merged ->
    j_mode c = 0 -> filter_pass c SNew = true -> filter_pass c SNewIrr = true ->
    snd (stream_run c w ps merged_end merged forked) <> JInvalidArg ->
    let out0 := fst (stream_run (with_stop c 0) w ps merged_end merged forked) in
    fst (stream_run c w ps merged_end merged forked) = fst (chain_run c out0) /\
    (snd (chain_run c out0) = true -> snd (stream_run c w ps merged_end merged forked) = JStop).
