(* C05 over HISTORIES: cursors minted by the same history.  (Addition to Spec/C05_Spec.v, whose
   C05_resume_full is the full statement.)

   Vocabulary, as in C05_resume_full: the Forkable of a hub (discovery mode, hold-until-LIB, retention
   `kept`, all steps delivered, handler never failing) is fed the history h;
     tr            = its trace, one entry per block;
     upto n        = the events of the first n calls;
     ck            = the consumer (Check/Burst_Check.v: cons, stack newest first, cs_nf final blocks at the
                     bottom) that applied every event up to and including event k, a New or Undo event ek;
     cm            = the consumer that applied every event of the first m calls (never disconnected);
     the burst     = blocks_from_cursor, in the state after m calls, for the cursor of ek;
     ck'           = ck with what its cursor says about finality: the blocks it holds up to the cursor LIB
                     height are final. *)
From Coq Require Import Sorted.
From BV Require Import Base.Prelude Model.Block Model.ForkDB Model.Forkable Model.ForkableLookups
  Model.Burst Model.Hub Spec.Consumer Spec.Universe Check.Fk_Check Check.Burst_Check Spec.C09_Spec Spec.C05_Spec Spec.C05_Through_Spec
  Spec.C01_Spec Spec.C01_Moving_Spec.
Local Open Scope N_scope.

(* ------------------------------------------------------------------ goal: the clause over histories *)

(* The hypotheses of C05_resume_full (every well-formed history in the class lib_ok_b, any first streamable block,
   any retention); the conclusion is stronger than the one of C05_resume_full: the burst leaves the consumer in the
   very state of the never-disconnected consumer - the stacks are equal block by block, not only id by id. *)
Definition C05_resume_history : Prop :=
  forall first kept (h : list block) (k m : nat) ek ck cm evs,
    wf_b h = true -> lib_ok_b LNone h = true ->
    let cfg := hub_config first kept in
    let tr := fk_run cfg (fs_init LNone) h in
    let upto n := concat (map fst (firstn n tr)) in
    nth_error (upto (length tr)) k = Some ek -> (estep ek = SNew \/ estep ek = SUndo) ->
    (k < length (upto m))%nat ->
    cons_fold cons0 (firstn (S k) (upto (length tr))) = Some ck ->
    cons_fold cons0 (upto m) = Some cm ->
    blocks_from_cursor (state_after cfg (fs_init LNone) h m) (ev_cursor ek) = BOk evs ->
    let ck' := mkCons (cs_stack ck)
                      (length (filter (fun b => bnum b <=? rn (elib ek)) (cs_stack ck))) true in
    cons_fold ck' evs = Some cm.

(* the consumers of the statement always exist: no call fails, the consumer accepts every prefix of the
   events, and the states the burst is asked in are well formed (so every request is answered by a
   burst or by "no source", Spec/C05_Through_Spec.C05_total) *)
Definition C05_history_total : Prop :=
  forall first kept (h : list block),
    wf_b h = true -> lib_ok_b LNone h = true ->
    let cfg := hub_config first kept in
    let tr := fk_run cfg (fs_init LNone) h in
    length tr = length h /\ Forall (fun x => snd x = ROk) tr /\
    (forall n, exists c, cons_fold cons0 (firstn n (all_events tr)) = Some c) /\
    (forall m, wf_state (state_after cfg (fs_init LNone) h m)).

(* ------------------------------------------------------------------ goal: a cursor of the stream meets the
   hypotheses of the single-state theorems *)

(* what c05_fast_path_consumer_partial / c05_forked_path / c05_resume_partial / c05_serves /
   c05_through_forked assume about a cursor, its consumer and a state s whose never-disconnected consumer has
   the stack Sm with nf final blocks; hd, sg = the head and its complete segment in s; P (oldest first) = what
   the consumer at the cursor holds up to the cursor LIB, Q = what it holds above *)
Definition C05_meets (s : fstate) (Sm : list block) (nf : nat) (e : event) (ck : cons) (P Q : list block)
           (hd : block) (sg : list seg) : Prop :=
  let cur := ev_cursor e in
  wf_state s /\ good_seg sg /\ seg_stored (db s) sg /\
  (* the cursor LIB is on the retained chain with its number *)
  (exists x, In x sg /\ sid x = ri (cu_lib cur) /\ snum x = rn (cu_lib cur)) /\
  (* the cursor block, if retained, is stored under the number the cursor carries (cursor_numbered) *)
  (forall e0, find (ri (cu_blk cur)) (store (db s)) = Some e0 -> bnum (eb e0) = rn (cu_blk cur)) /\
  (* the consumer at the cursor; the blocks it holds up to the cursor LIB height are exactly P *)
  cs_stack ck = rev (P ++ Q) /\
  length (filter (fun b => bnum b <=? rn (elib e)) (cs_stack ck)) = length P /\
  (* the never-disconnected consumer: P, then the whole retained chain above the cursor LIB; final = P and the
     blocks up to the hub LIB *)
  rev (P ++ map seg_blk (above_seg cur sg)) = Sm /\
  (length P + length (filter (final_now s) (above_seg cur sg)))%nat = nf /\
  (* cursor block on the retained chain (fast path): the consumer holds, above P, the segment elements in
     (cursor LIB, cursor block] (cursor block excluded for an Undo cursor) *)
  (block_in (ri (cu_blk cur)) sg = true ->
     map seg_blk (held_seg cur sg) = Q /\ (held_seg cur sg = [] -> stack_links P (above_seg cur sg))) /\
  (* cursor block off the chain: for the branch down to the junction j, the consumer holds above P the segment
     elements in (cursor LIB, junction] and then the undone branch; the cursor LIB is not above the junction *)
  (block_in (ri (cu_blk cur)) sg = false ->
     forall path j je, branch_to (db s) sg (ri (cu_blk cur)) path j -> find j (store (db s)) = Some je ->
       let jc := junction_cursor hd cur (mkR j (bnum (eb je))) in
       Q = map seg_blk (held_seg jc sg) ++ map seg_blk (rev (undos_of cur path)) /\
       (held_seg jc sg = [] -> stack_links P (above_seg jc sg)) /\
       rn (cu_lib cur) <= bnum (eb je)).

(* every New / Undo event k of the stream, at every later instant m at which the hub has a head whose segment
   reaches the LIB and still contains the cursor LIB (otherwise: no source, c05_no_lib_no_source) *)
Definition C05_cursor_meets_hypotheses : Prop :=
  forall first kept (h : list block) (k m : nat) ek ck hd sg,
    wf_b h = true -> lib_ok_b LNone h = true ->
    let cfg := hub_config first kept in
    let tr := fk_run cfg (fs_init LNone) h in
    let upto n := concat (map fst (firstn n tr)) in
    let s := state_after cfg (fs_init LNone) h m in
    nth_error (upto (length tr)) k = Some ek -> (estep ek = SNew \/ estep ek = SUndo) ->
    (k < length (upto m))%nat ->
    cons_fold cons0 (firstn (S k) (upto (length tr))) = Some ck ->
    last_sent s = Some hd -> complete_segment (db s) (bref hd) = Some (sg, true) ->
    block_in (ri (elib ek)) sg = true ->
    exists cm P Q,
      cons_fold cons0 (upto m) = Some cm /\ cs_any cm = true /\
      C05_meets s (cs_stack cm) (cs_nf cm) ek ck P Q hd sg /\
      ecblk ek = bref (eblk ek) /\ In (eblk ek) h.

(* ------------------------------------------------------------------ goal: the serving obligation over histories *)

(* A cursor minted by the stream is served at every later instant at which its LIB is still on the retained
   canonical chain (the hub has a head whose complete segment reaches the LIB and contains the cursor LIB id).
   Nothing is asked about the cursor block: PurgeBeforeLIB removes by number, so as long as the cursor LIB block
   is retained every block the consumer held above it is retained too, and the branch of the cursor block
   reaches the chain.  Together with c05_no_lib_no_source (no head, segment not reaching the LIB or cursor LIB off
   the chain => no source) this is an equivalence. *)
Definition C05_serves_history : Prop :=
  forall first kept (h : list block) (k m : nat) ek hd sg,
    wf_b h = true -> lib_ok_b LNone h = true ->
    let cfg := hub_config first kept in
    let tr := fk_run cfg (fs_init LNone) h in
    let upto n := concat (map fst (firstn n tr)) in
    let s := state_after cfg (fs_init LNone) h m in
    nth_error (upto (length tr)) k = Some ek -> (estep ek = SNew \/ estep ek = SUndo) ->
    (k < length (upto m))%nat ->
    last_sent s = Some hd -> complete_segment (db s) (bref hd) = Some (sg, true) ->
    block_in (ri (elib ek)) sg = true ->
    exists evs, blocks_from_cursor s (ev_cursor ek) = BOk evs.

(* ------------------------------------------------------------------ goal: final-only consumers *)

(* The cursor of an Irreversible event k (a consumer that only follows final blocks and crashed right after the
   announcement of block f = eblk ek), at every later instant at which f is still on the retained canonical chain:
   the hub serves it, and the irreversible events of the burst (Irreversible and New+Irreversible steps) are exactly
   the final blocks the never-disconnected consumer holds after f: finals_of cm = P ++ F0 with P ending with f
   (P = [] only for the announcement of a discovered LIB block that was never delivered as New: then every final
   block of the consumer comes after it). *)
Definition C05_final_history : Prop :=
  forall first kept (h : list block) (k m : nat) ek cm hd sg,
    wf_b h = true -> lib_ok_b LNone h = true ->
    let cfg := hub_config first kept in
    let tr := fk_run cfg (fs_init LNone) h in
    let upto n := concat (map fst (firstn n tr)) in
    let s := state_after cfg (fs_init LNone) h m in
    nth_error (upto (length tr)) k = Some ek -> estep ek = SIrr ->
    (k < length (upto m))%nat ->
    cons_fold cons0 (upto m) = Some cm ->
    last_sent s = Some hd -> complete_segment (db s) (bref hd) = Some (sg, true) ->
    block_in (ri (ecblk ek)) sg = true ->
    exists evs P F0,
      blocks_from_cursor s (ev_cursor ek) = BOk evs /\
      ecblk ek = bref (eblk ek) /\ elib ek = bref (eblk ek) /\
      finals_of cm = P ++ F0 /\ (P = [] \/ exists P', P = P' ++ [eblk ek]) /\
      map eblk (irr_events evs) = F0.
