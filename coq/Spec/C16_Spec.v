(* C16 — readable statement.
   "Any sequence of blocks written with the block writer is read back by the block reader as the
    same sequence followed by end-of-file, and a one-block file name built from a block parses
    back to the same number, LIB number and 16-character-truncated id and parent id.  Truncated
    or corrupted data yields an error or a correct prefix of the blocks, never a crash and never
    an altered block; fetching a block by number and id from a one-block or merged store returns
    that block or not-found."

   Protobuf (proto.Marshal / proto.Unmarshal of pbbstream.Block and BlockMeta) is external code:
   it is the Section variables penc / pdec / pdec_meta; the hypotheses [codec_ok] appear in the
   theorem statements (Properties/C16.v).  "Never a crash" is, for the model, totality of the
   Gallina functions and the fact that the fuel of the read loop is never exhausted; for the
   implementation it is checked on every generated fault by the correspondence run. *)
From BV Require Import Base.Prelude Base.Decimal Model.CursorCodec Model.Dbin Model.OneBlockName.
Local Open Scope N_scope.

Definition prefix_of {A} (a b : list A) : Prop := exists r, b = a ++ r.

(* ================================================================== block files *)

Section Codec.
  Variable penc : blk -> option str.          (* proto.Marshal(block); None = error *)
  Variable pdec : str -> option blk.          (* proto.Unmarshal(message, new(Block)) *)
  Variable pdec_meta : str -> option bmeta.   (* UnmarshalOptions{DiscardUnknown}.Unmarshal(message, new(BlockMeta)) *)
  Variable first : N.                         (* GetProtocolFirstStreamableBlock *)
  Variable accept_solana : bool.              (* ACCEPT_SOLANA_LEGACY_BLOCK_FORMAT is set *)

  (* the only facts about protobuf that are used *)
  Definition codec_ok : Prop :=
    (forall b m, penc b = Some m -> pdec m = Some b) /\
    (forall b m, penc b = Some m -> pdec_meta m = Some (meta_of b)).

  (* the decoder closures DBinBlockReader.Read / ReadAsBlockMeta pass to readMessage *)
  Definition upgrade : blk -> option blk := support_legacy first accept_solana.
  Definition dec_block (m : str) : option blk :=
    match pdec m with Some b => upgrade b | None => None end.
  Definition dec_meta (m : str) : option bmeta :=
    match pdec_meta m with Some x => support_legacy_meta first x | None => None end.

  (* a block the writer can write: it marshals, to a non-empty message shorter than 4 GiB.
     (The only block with an empty encoding is the one whose every field is the default and
     that has no payload; dbin's reader reports a zero-length message as an error.) *)
  Definition writable (b : blk) : Prop :=
    exists m, penc b = Some m /\ m <> [] /\ lenN m < two32.

  (* the file header carries the payload type URL of the FIRST block *)
  Definition ctype_of (bs : list blk) : str :=
    match bs with b :: _ => url_of b | [] => [] end.

  (* the quantifier: non-empty sequences (an empty sequence writes no byte at all) whose first
     block has a payload type URL of 1..65535 bytes; every later block may be a legacy block
     without payload *)
  Definition seq_ok (bs : list blk) : Prop :=
    bs <> [] /\ ctype_of bs <> [] /\ lenN (ctype_of bs) <= 65535 /\ Forall writable bs.

  Definition file_of (bs : list blk) : str := fst (write_all penc bs).
  Definition read_blocks (f : str) := read_file dec_block f.
  Definition read_metas (f : str) := read_file dec_meta f.

  (* what a reader must deliver for bs: every block after the legacy upgrade (the identity on
     blocks that have a payload), up to the first legacy block the reader refuses (NEAR,
     Solana), where it must stop with an error *)
  Definition expected (bs : list blk) : list blk * outcome := decode_run upgrade bs.
  Definition expected_meta (bs : list blk) : list bmeta * outcome :=
    decode_run (fun b => support_legacy_meta first (meta_of b)) bs.

  Definition modern (b : blk) : Prop := b_payload b <> None.

  (* offset in the file at which the frame of block number k (from 1) ends *)
  Definition msgs_of (bs : list blk) : list str :=
    map (fun b => match penc b with Some m => m | None => [] end) bs.
  Definition boundary (bs : list blk) (k : nat) : nat :=
    length (file_bytes (ctype_of bs) (firstn k (msgs_of bs))).

  (* -------- write then read *)
  Definition C16_roundtrip : Prop :=
    forall bs, seq_ok bs ->
      snd (write_all penc bs) = WOk /\
      file_of bs = file_bytes (ctype_of bs) (msgs_of bs) /\
      read_blocks (file_of bs) = (Some (mkHdr 1 (ctype_of bs)), fst (expected bs), snd (expected bs)) /\
      read_metas (file_of bs) = (Some (mkHdr 1 (ctype_of bs)), fst (expected_meta bs), snd (expected_meta bs)) /\
      (Forall modern bs -> expected bs = (bs, OEOF)).

  (* -------- EVERY truncation point: a prefix of the blocks, then a clean end-of-file exactly
     when the cut falls on a block boundary (and then precisely the blocks before the cut were
     delivered), otherwise an error; never a different block *)
  Definition C16_truncation : Prop :=
    forall bs n, seq_ok bs ->
      let r := read_blocks (firstn n (file_of bs)) in
      prefix_of (rf_items r) (fst (expected bs)) /\
      (rf_outcome r = OEOF \/ rf_outcome r = OErr \/ rf_outcome r = OHdr) /\
      (rf_outcome r = OEOF ->
         exists k, (k <= length bs)%nat /\ length (firstn n (file_of bs)) = boundary bs k /\
                   rf_items r = fst (expected (firstn k bs)) /\
                   (snd (expected (firstn k bs)) = OEOF)).

  (* -------- damage at or after offset p (a corrupted byte, several, a cut, appended garbage):
     every block whose frame ends at or before p is delivered unchanged, and the read terminates *)
  Definition C16_prefix_intact : Prop :=
    forall bs k f', seq_ok bs -> (k <= length bs)%nat ->
      firstn (boundary bs k) f' = firstn (boundary bs k) (file_of bs) ->
      let r := read_blocks f' in
      rf_header r = Some (mkHdr 1 (ctype_of bs)) /\
      firstn k (rf_items r) = firstn k (fst (expected bs)) /\
      rf_outcome r <> OFuel.

  (* the single-byte-corruption instance of the above *)
  Definition C16_corruption_prefix_intact : Prop :=
    forall bs k p v, seq_ok bs -> (k <= length bs)%nat -> (boundary bs k <= p)%nat ->
      let r := read_blocks (corrupt (file_of bs) p v) in
      firstn k (rf_items r) = firstn k (fst (expected bs)) /\ rf_outcome r <> OFuel.

  (* -------- one corrupted header byte: an error, or the same sequence *)
  Definition header_corruption_at (bs : list blk) (p : nat) (v : N) : Prop :=
    let clean := read_blocks (file_of bs) in
    let r := read_blocks (corrupt (file_of bs) p v) in
    (rf_outcome r = OHdr /\ rf_items r = []) \/
    (rf_outcome r = OErr /\ prefix_of (rf_items r) (rf_items clean)) \/
    (rf_items r = rf_items clean /\ rf_outcome r = rf_outcome clean).

  Definition C16_header_corruption_full : Prop :=
    forall bs p v, seq_ok bs -> (p < header_len (ctype_of bs))%nat -> v <> nth p (file_of bs) 0 ->
      header_corruption_at bs p v.

  (* PROVED PART.  Gap to the full statement: the three header bytes that tell the reader where
     the first message starts — the version byte changed to 0 (offset 4) and the two bytes of the
     content-type length (offsets 5, 6).  Changing them moves the start of the message stream;
     the format has no synchronisation marker or checksum, so the reader then parses frames from
     a wrong offset, which is refuted for crafted payloads by
     [C16_header_length_corruption_alters] below. *)
  Definition C16_header_corruption_partial : Prop :=
    forall bs p v, seq_ok bs -> (p < header_len (ctype_of bs))%nat -> v <> nth p (file_of bs) 0 ->
      ((p < 4)%nat \/ (p = 4%nat /\ v <> 0) \/ (7 <= p)%nat) ->
      header_corruption_at bs p v.
End Codec.

(* "written with the block writer" = every Write call returned nil.  Since the writer refuses an empty
   encoding (fix C16-writer-empty-encoding) this GIVES the first three conjuncts of seq_ok and the
   non-empty half of `writable`: what remains an assumption of the round-trip theorems is only the 4 GiB
   bound on one encoded block. *)
Definition C16_written_is_seq_ok : Prop :=
  forall (penc : blk -> option str) bs, bs <> [] -> snd (write_all penc bs) = WOk ->
    ctype_of bs <> [] /\ lenN (ctype_of bs) <= 65535 /\
    Forall (fun b => exists m, penc b = Some m /\ m <> []) bs.

(* the writer as shipped accepted the empty encoding (frame 00 00 00 00, which the reader reports as
   a damaged file, losing every later block: c16_msg_nonempty_needed in Properties/Cxx_Audit.v) *)
Definition C16_unfixed_writer_accepts_empty : Prop :=
  exists (penc : blk -> option str) st b,
    penc b = Some [] /\ w_hdr st = true /\
    writer_write_unfixed penc st b = (mkW true (w_out st ++ [0; 0; 0; 0]), WOk) /\
    snd (writer_write penc st b) = WErr.

(* ================================================================== what does NOT hold *)

(* Stated at the framing level, for any decoder: a file is a content type and a list of encoded
   messages. *)
Definition msg_wf (m : str) : Prop := m <> [] /\ lenN m < two32.
Definition file_wf (ct : str) (ms : list str) : Prop :=
  ct <> [] /\ lenN ct <= 65535 /\ Forall msg_wf ms.

(* "corrupted data never yields an altered block": FALSE for this format (no checksum). *)
Definition C16_no_altered_block_full : Prop :=
  forall (T : Type) (dec : str -> option T) ct ms p v, file_wf ct ms ->
    (p < length (file_bytes ct ms))%nat ->
    prefix_of (rf_items (read_file dec (corrupt (file_bytes ct ms) p v)))
              (rf_items (read_file dec (file_bytes ct ms))).

(* witness shape: a byte inside a message body (length prefix and header intact) *)
Definition C16_body_corruption_alters : Prop :=
  exists (T : Type) (dec : str -> option T) ct ms p v, file_wf ct ms /\
    (header_len ct + 4 <= p < length (file_bytes ct ms))%nat /\
    (forall m, In m ms -> exists x, dec m = Some x) /\
    exists x, In x (rf_items (read_file dec (corrupt (file_bytes ct ms) p v))) /\
              ~ In x (rf_items (read_file dec (file_bytes ct ms))) /\
              rf_outcome (read_file dec (corrupt (file_bytes ct ms) p v)) = OEOF.

(* witness shape: a byte of the header's content-type length *)
Definition C16_header_length_corruption_alters : Prop :=
  exists (T : Type) (dec : str -> option T) ct ms p v, file_wf ct ms /\
    (5 <= p <= 6)%nat /\
    exists x, In x (rf_items (read_file dec (corrupt (file_bytes ct ms) p v))) /\
              ~ In x (rf_items (read_file dec (file_bytes ct ms))) /\
              rf_outcome (read_file dec (corrupt (file_bytes ct ms) p v)) = OEOF.

(* the reader as found (before repo_patches/C16_fix_truncated_message): a cut inside the last
   message delivers an altered block and then a clean end-of-file *)
Definition C16_truncation_refuted_before_fix : Prop :=
  exists (T : Type) (dec : str -> option T) ct ms n, file_wf ct ms /\
    (n < length (file_bytes ct ms))%nat /\
    exists x, In x (rf_items (read_file_orig dec (firstn n (file_bytes ct ms)))) /\
              ~ In x (rf_items (read_file_orig dec (file_bytes ct ms))) /\
              rf_outcome (read_file_orig dec (firstn n (file_bytes ct ms))) = OEOF.

(* ================================================================== one-block file names *)

(* the exact guard: what is written between the dashes must not itself contain a dash.  No bound
   on the number of digits is needed (%010d only pads); numbers are uint64. *)
Definition name_ok (num : N) (id parent : str) (lib : N) (suffix : str) : Prop :=
  num < two64 /\ lib < two64 /\
  memN dash (truncate_id id) = false /\ memN dash (truncate_id parent) = false /\
  memN dash suffix = false.

Definition C16_name_roundtrip : Prop :=
  forall num id parent lib suffix, name_ok num id parent lib suffix ->
    parse_filename (block_file_name num id parent lib suffix) =
      Some (mkParsed num (truncate_id id) (truncate_id parent) lib
                     (join dash [pad10 num; truncate_id id; truncate_id parent; print_dec lib])).

(* every file name string: ParseFilename either fails or returns numbers below 2^64 and the
   name's own segments; (totality of parse_filename = never a crash, for the model) *)
Definition C16_name_parse_sound : Prop :=
  forall s p, parse_filename s = Some p ->
    p_num p < two64 /\ p_lib p < two64 /\
    exists a d e, split dash s = [a; p_id p; p_prev p; d; e] /\
                  p_canon p = join dash [a; p_id p; p_prev p; d].

(* ================================================================== fetch by number and id *)

Section Fetch.
  Variable T : Type.
  Variable dec : str -> option T.

  (* a one-block store written from blocks: entry i is named after (num, id, parent, lib) of
     block i and contains the dbin file of its single message *)
  Record stored := mkStored {
    s_num : N; s_id : str; s_parent : str; s_lib : N; s_suffix : str; s_ct : str; s_msg : str }.

  Definition stored_ok (x : stored) : Prop :=
    name_ok (s_num x) (s_id x) (s_parent x) (s_lib x) (s_suffix x) /\
    s_ct x <> [] /\ lenN (s_ct x) <= 65535 /\ msg_wf (s_msg x).

  Definition store_of (l : list stored) : list (str * str) :=
    map (fun x => (block_file_name (s_num x) (s_id x) (s_parent x) (s_lib x) (s_suffix x),
                   file_bytes (s_ct x) [s_msg x])) l.

  (* FetchBlockFromOneBlockStore returns not-found, or the decoded content of a stored entry of
     exactly the requested height whose (truncated) id is a suffix of the requested id; it
     returns an error only when that entry's message is refused by the decoder.  Whatever the
     order in which the store lists its files.  (That a stored block IS found relies on the
     store listing names in lexicographic order; it is checked on the implementation only.) *)
  Definition C16_fetch : Prop :=
    forall l num id, Forall stored_ok l ->
      match fetch_one_block dec (store_of l) num id with
      | FNotFound => True
      | FBlock b => exists x, In x l /\ s_num x = num /\ has_suffix id (truncate_id (s_id x)) = true /\
                              dec (s_msg x) = Some b
      | FErr => exists x, In x l /\ s_num x = num /\ has_suffix id (truncate_id (s_id x)) = true /\
                          dec (s_msg x) = None
      | FNil => False
      end.
End Fetch.
