(* C14 — readable statement.  The opaque layer (NaCl secretbox + base64 in the `opaque`
   dependency) is a Section variable pair with its round-trip hypothesis. *)
From BV Require Import Base.Prelude Base.Decimal Model.CursorCodec.
Local Open Scope N_scope.

Section Opaque.
  Variable oenc : str -> str.
  Variable odec : str -> option str.
  Hypothesis odec_oenc : forall s, odec (oenc s) = Some s.

  Definition to_opaque (c : cursor) : str := oenc (cursor_string c).
  Definition from_opaque (s : str) : option cursor :=
    match odec s with Some p => from_string p | None => None end.

  (* every resumable cursor survives both encodings unchanged *)
  Definition C14_roundtrip : Prop :=
    forall c, cursor_ok c = true -> alias_ok c = true ->
      from_string (cursor_string c) = Some c /\ from_opaque (to_opaque c) = Some c.
End Opaque.

(* the text form uses the shortest layout that loses nothing: 6 segments (c1) when head id =
   block id, 6 segments (c2) when otherwise block id = LIB id, 8 segments (c3) only otherwise *)
Definition C14_layout : Prop :=
  forall c, cursor_ok c = true ->
    let s := cursor_string c in
    (layout_of s = 1 <-> rid (chead c) = rid (cblk c)) /\
    (layout_of s = 2 <-> rid (chead c) <> rid (cblk c) /\ rid (cblk c) = rid (clib c)) /\
    (layout_of s = 3 <-> rid (chead c) <> rid (cblk c) /\ rid (cblk c) <> rid (clib c)) /\
    length (split colon s) = if layout_of s =? 3 then 8%nat else 6%nat.

(* arbitrary strings: an error or a cursor that re-encodes to an equivalent cursor.
   (from_string is a total Gallina function: "never crashes" for the model is totality; for
   the implementation it is checked on every generated input by the correspondence run.) *)
Definition C14_decode_total : Prop :=
  forall s c, from_string s = Some c ->
    cursor_ok c = true /\
    exists c', from_string (cursor_string c) = Some c' /\ cursor_equiv c' c = true.
