(* C08 — the statements of Spec/C08_Spec.v (part B) for an ARBITRARY event production function
   hp : hub -> block -> hub * list event   (hub after the live block, events handed to processBlock).

   Why.  Spec/C08_Spec.v builds "every event the hub produces" on Model/Hub.v [hub_live], which reports
   the events of a live block only while the hub is READY.  The real hub fans out every event of its
   Forkable from the start (finding W1-C08-2, Model/HubAll.v).  Nothing in the C08 argument depends on
   WHICH events a block produces: the statements below are those of C08_Spec.v with [hub_push first kept]
   replaced by a parameter hp, and they are proved for every hp (Proofs/C08G_Hub.v).  Spec/C08_All_Spec.v
   instantiates them with the faithful function [hub_push_all] (Model/HubAll.v [hub_live_all]); the old
   statements are the instance hp := hub_push first kept ([run_g_old] etc. in Proofs/C08G_Hub.v). *)
From BV Require Import Base.Prelude Model.Block Model.ForkDB Model.Forkable Model.ForkableLookups
  Model.Burst Model.Hub Model.HubSubs Model.HubAll Spec.C08_Spec.
Local Open Scope N_scope.

(* ================================================================ B'. the hub model, any event production *)

(* The operations [op], the states [hstate], [start], [hview], [pushes], [erase_drains] are those of
   Spec/C08_Spec.v.  What is new: the events a live block produces are those of hp. *)

Definition step_g (hp : hprod) (st : hstate) (o : op) : hstate :=
  match o with
  | OPush b => mkHS (fst (push_block_g hp (hs_sh st) b)) (hs_got st)
  | OSub r => let '(sh', ok) := subscribe (hs_sh st) r in
              mkHS sh' (if ok then hs_got st ++ [[]] else hs_got st)
  | ODrain k => let '(subs', q) := drain_nth k (sh_subs (hs_sh st)) in
                mkHS (mkSH (sh_hub (hs_sh st)) subs') (add_got k q (hs_got st))
  end.
Definition run_g (hp : hprod) (st : hstate) (ops : list op) : hstate := fold_left (step_g hp) ops st.

Fixpoint hub_after_g (hp : hprod) (h : hub) (bs : list block) : hub :=
  match bs with
  | [] => h
  | b :: bs' => hub_after_g hp (fst (hp h b)) bs'
  end.

(* all events the hub produces for these blocks, in order *)
Fixpoint push_events_g (hp : hprod) (h : hub) (bs : list block) : list event :=
  match bs with
  | [] => []
  | b :: bs' => snd (hp h b) ++ push_events_g hp (fst (hp h b)) bs'
  end.

(* c08_exactly_once: for every operation sequence and every subscription created during it.
   h1 is the hub at the moment the request is served: a function of the blocks pushed before. *)
Definition C08_exactly_once_g (hp : hprod) : Prop :=
  forall sh0 pre r post burst,
    let h1 := hub_after_g hp (sh_hub sh0) (pushes pre) in
    request_burst h1 r = Some burst ->
    let i := length (sh_subs (hs_sh (run_g hp (start sh0) pre))) in
    let expected := burst ++ map QEv (push_events_g hp h1 (pushes post)) in
    exists s got,
      hview (run_g hp (start sh0) (pre ++ OSub r :: post)) i = Some (s, got) /\
      ms_cap s = 100 + N.of_nat (length burst) /\
      (* not dropped: burst, then every later event, in order, exactly once *)
      (ms_dropped s = false -> got ++ ms_queue s = expected) /\
      (* dropped: at event e of a later push, with capacity-many items pending; a prefix was delivered *)
      (ms_dropped s = true ->
         exists post1 b post2 evs1 e evs2 s1 got1,
           post = post1 ++ OPush b :: post2 /\
           snd (hp (hub_after_g hp h1 (pushes post1)) b) = evs1 ++ e :: evs2 /\
           hview (run_g hp (start sh0) (pre ++ OSub r :: post1)) i = Some (s1, got1) /\
           ms_dropped s1 = false /\
           N.of_nat (length (ms_queue s1 ++ map QEv evs1)) = ms_cap s1 /\
           got ++ ms_queue s = got1 ++ ms_queue s1 ++ map QEv evs1 /\
           got ++ ms_queue s = burst ++ map QEv (push_events_g hp h1 (pushes post1)) ++ map QEv evs1 /\
           exists rest, expected = (got ++ ms_queue s) ++ rest).

(* a request the hub cannot serve ("no source") changes nothing *)
Definition C08_refused_g (hp : hprod) : Prop :=
  forall st pre r post,
    request_burst (sh_hub (hs_sh (run_g hp st pre))) r = None ->
    run_g hp st (pre ++ OSub r :: post) = run_g hp st (pre ++ post).

(* c08_isolation, hub side: the hub after any operation sequence, and the events of every push, are
   those of the hub alone fed with the pushed blocks: no subscription, no drain, no drop occurs in it *)
Definition C08_isolation_hub_g (hp : hprod) : Prop :=
  forall st ops,
    sh_hub (hs_sh (run_g hp st ops)) = hub_after_g hp (sh_hub (hs_sh st)) (pushes ops) /\
    forall b, snd (push_block_g hp (hs_sh (run_g hp st ops)) b)
              = snd (hp (hub_after_g hp (sh_hub (hs_sh st)) (pushes ops)) b).

(* c08_isolation, subscriber side: two operation sequences that differ only in the drains of
   subscription j (never drained — so that it overflows and is dropped — or drained at other moments)
   give every other subscription i the same queue, the same dropped flag, the same taken items *)
Definition C08_isolation_subs_g (hp : hprod) : Prop :=
  forall st ops1 ops2 i j, i <> j -> erase_drains j ops1 = erase_drains j ops2 ->
    hview (run_g hp st ops1) i = hview (run_g hp st ops2) i.

(* ... and is the run_g of a lone subscriber over the hub's events and its own drains *)
Fixpoint own_ops_g (hp : hprod) (h : hub) (i : nat) (ops : list op) : list sop :=
  match ops with
  | [] => []
  | OPush b :: ops' => SFan (snd (hp h b)) :: own_ops_g hp (fst (hp h b)) i ops'
  | OSub _ :: ops' => own_ops_g hp h i ops'
  | ODrain k :: ops' => if Nat.eqb k i then SDrain :: own_ops_g hp h i ops' else own_ops_g hp h i ops'
  end.

Definition C08_lone_g (hp : hprod) : Prop :=
  forall sh0 pre r post burst,
    let h1 := hub_after_g hp (sh_hub sh0) (pushes pre) in
    request_burst h1 r = Some burst ->
    let i := length (sh_subs (hs_sh (run_g hp (start sh0) pre))) in
    hview (run_g hp (start sh0) (pre ++ OSub r :: post)) i
    = Some (srun (new_sub burst, []) (own_ops_g hp h1 i post)).

(* c08_registration_atomic: a request served between the pushes of b1 and b2 gets its burst from
   exactly the hub state after b1 and, after the burst, all events of b2 *)
Definition C08_registration_atomic_g (hp : hprod) : Prop :=
  forall sh0 pre b1 r b2 post burst,
    let st1 := run_g hp (start sh0) (pre ++ [OPush b1]) in
    request_burst (sh_hub (hs_sh st1)) r = Some burst ->
    let st2 := run_g hp st1 [OSub r] in
    let evs2 := snd (push_block_g hp (hs_sh st2) b2) in
    let i := length (sh_subs (hs_sh st1)) in
    (* registered with its burst queued *)
    hview st2 i = Some (new_sub burst, []) /\
    (* right after the push of b2 *)
    (exists s2 got2,
       hview (run_g hp st2 [OPush b2]) i = Some (s2, got2) /\
       (ms_dropped s2 = false -> got2 ++ ms_queue s2 = burst ++ map QEv evs2) /\
       ((length evs2 <= 100)%nat -> ms_dropped s2 = false)) /\
    (* and at any later moment *)
    (exists s got,
       hview (run_g hp (start sh0) (pre ++ [OPush b1; OSub r; OPush b2] ++ post)) i = Some (s, got) /\
       (ms_dropped s = false -> exists later, got ++ ms_queue s = burst ++ map QEv evs2 ++ later)).
