(* The fuel of Model/Joining.stream_run (a model artefact: the real stream runs until it is stopped).
   The live phase spends one unit of fuel per event it takes from its queue and one per arrival it waits for; the file
   phase spends none.  So a run ends with JFuel only when the hub hands over - at the start or at the join - a burst
   longer than what is left of  40 * (|arrivals| + |merged| + 20)  after the events of all arrivals, or through the
   fuel of the hub's lookups / of the cursor resolver.  The bound is explicit (live_work) and decidable for a given
   world; the stream's fuel is NOT sufficient for every world: a hub whose retained chain is long compared with the
   merged files and the blocks to arrive answers with a burst that exhausts it. *)
From BV Require Import Base.Prelude Model.Block Model.ForkDB Model.Forkable Model.ForkableLookups
  Model.Burst Model.Hub Model.CursorResolver Model.Joining
  Spec.C07_Spec Spec.C07_Compose_Spec Spec.C07_Shapes_Spec.
Local Open Scope N_scope.

(* what the live phase has yet to do: its queue, the events of every block still to arrive, one step per arrival *)
Definition live_work (c : jcfg) (w : world) (queue : list event) : nat :=
  (length queue + length (push_all c w) + length (w_rest w))%nat.

(* every burst the hub hands over at a join, in any world ahead, is within the fuel *)
Definition joins_within (fuel : nat) (c : jcfg) (w : world) : Prop :=
  forall m lowest e burst, join_try c (world_after c m w) lowest e = Some burst ->
    (live_work c (world_after c m w) burst < fuel)%nat.

Definition run_fuel (w : world) (merged : list block) : nat := (40 * (length (w_rest w) + length merged + 20))%nat.

(* every filter, stop block, mode, world, schedule *)
Definition C07_fuel_enough : Prop :=
  forall (c : jcfg) (w : world) (ps : list (N * N)) (merged_end : N) (merged forked : list block),
    let fuel := run_fuel w merged in
    let start := run_start c w in
    (forall burst, live_try c (w_hub w) start = BOk burst -> (live_work c w burst < fuel)%nat) ->
    joins_within fuel c w ->
    snd (stream_run c w ps merged_end merged forked) = JFuel ->
    live_try c (w_hub w) start = BFuel \/ live_try c (w_hub w) start = BPanic \/
    snd (run_files c start merged_end merged forked) = JFuel.

(* the live phase alone *)
Definition C07_live_fuel_enough : Prop :=
  forall fuel c w queue count ps out,
    (live_work c w queue < fuel)%nat ->
    snd (live_phase fuel c w queue count ps out) <> JFuel /\
    forall lf, snd (live_phase_fin fuel c w lf queue count ps out) <> JFuel.
