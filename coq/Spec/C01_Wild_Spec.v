(* C01 OUTSIDE the class lib_ok_b: "wild" LIB declarations.
   c01_scope (Spec/C01_Spec.v) puts no condition on the LIB numbers blocks declare (the class lib_ok_b belongs
   to C02's quantifier).  Outside that class BlockInCurrentChain may return `mkR cur target`: a LIB reference
   whose NUMBER is not the height of the block that carries its id.  When the declared number lies ABOVE THE
   HEAD (block (2, num 11, parent 1, lib 14) => LIB := (2, 14)) the LIB number overtakes the real heights;
   blocks under that number are dropped by ProcessBlock's below-LIB test without being stored; a later LIB
   move to a real block brings the LIB NUMBER DOWN again (14 -> 12), and a block that was dropped is accepted
   when it is fed a second time.  So the re-feed clause of C01 fails: statements of the witnesses below.
   (The Undo/New discipline clause is not affected.)  *)
From BV Require Import Base.Prelude Model.Block Model.ForkDB Model.Forkable Spec.Consumer Spec.Universe
  Spec.C01_Spec Spec.C01_Moving_Spec Spec.C01_Roots_Spec.
Local Open Scope N_scope.

(* c01_full is FALSE for the model: *)
Definition c01_full_refuted : Prop :=
  exists cfg m h, c01_scope cfg m h /\ ~ c01_statement cfg m h.

(* the ancestor-height clause of lib_ok_block alone (the only clause the C01/C02 proofs use): the declared
   number is the height of the block or of one of its ancestors in U, or lies at/below the oldest point
   known on the branch *)
Definition lib_anc_ok_block (root : option ref) (U : list block) (b : block) : bool :=
  let ch := chain U b in
  let bottom := last ch b in
  existsb (fun a => bnum a =? blib b) ch
  || match root with
     | Some r => if bparent bottom =? ri r then blib b <=? rn r else blib b <? bnum bottom
     | None => blib b <? bnum bottom
     end.
Definition lib_anc_ok_b (m : libmode) (U : list block) : bool := forallb (lib_anc_ok_block (mode_root m) U) U.

(* Witness 1 (wild declaration, everything else as in c01_moving_lib_roots_partial): exclusive LIB r0 with a
   non-empty id, COHERENT with the history (moving_block2_b), no empty parent id, never-failing handler, the
   consumer discipline and the error clause hold, every call returns Ok -- and the re-feed clause fails.
   Exactly one block (the first child of r0) declares a number that is not an ancestor height. *)
Definition c01_wild_refeed_refuted : Prop :=
  exists cfg r0 h,
    c_fail_at cfg = None /\ f_new (c_filter cfg) = true /\ f_undo (c_filter cfg) = true /\
    wf_b h = true /\ ri r0 <> 0 /\ forallb (moving_block2_b r0) h = true /\
    forallb (fun b => negb (bparent b =? 0)) h = true /\
    length (filter (fun b => negb (lib_anc_ok_block (Some r0) h b)) h) = 1%nat /\
    let t := fk_run cfg (fs_init (LExcl r0)) h in
    Forall (fun x => snd x = ROk) t /\ length t = length h /\
    c01_discipline_b (LExcl r0) t = true /\ c01_error_b (c_fail_at cfg) 0 t = true /\
    c01_refeed_b [] h t = false.

(* Witness 2 (second question: the configured LIB is INCOHERENT with the history -- a child of r0 is not
   higher than r0 -- while every declaration satisfies the ancestor-height clause): the re-feed clause fails
   with the first streamable block at 0 and no retention. *)
Definition c01_incoherent_lib_refeed_refuted : Prop :=
  exists cfg r0 h,
    c_fail_at cfg = None /\ f_new (c_filter cfg) = true /\ f_undo (c_filter cfg) = true /\
    c_first cfg = 0 /\ c_kept cfg = 0 /\
    wf_b h = true /\ ri r0 <> 0 /\ lib_anc_ok_b (LExcl r0) h = true /\
    forallb (moving_block2_b r0) h = false /\
    let t := fk_run cfg (fs_init (LExcl r0)) h in
    Forall (fun x => snd x = ROk) t /\ length t = length h /\
    c01_discipline_b (LExcl r0) t = true /\ c01_error_b (c_fail_at cfg) 0 t = true /\
    c01_refeed_b [] h t = false.

(* Witness 3: the same in DISCOVERY mode (no configured LIB, hold-until-LIB): the LIB is discovered from a block
   that declares its own height; then as in witness 1. *)
Definition c01_wild_discovery_refeed_refuted : Prop :=
  exists cfg h,
    c_hold cfg = true /\ c_incl cfg = false /\ c_fail_at cfg = None /\
    f_new (c_filter cfg) = true /\ f_undo (c_filter cfg) = true /\ wf_b h = true /\
    let t := fk_run cfg (fs_init LNone) h in
    Forall (fun x => snd x = ROk) t /\ length t = length h /\
    c01_discipline_b LNone t = true /\ c01_error_b (c_fail_at cfg) 0 t = true /\
    c01_refeed_b [] h t = false.

(* Witness 4 (the hypothesis "r0's id is non-empty" of the theorems below is necessary): a configured LIB whose
   ID IS EMPTY (forkable.WithExclusiveLIB(bstream.NewBlockRef("", 5)): HasLIB is true, the LIB id is ""), a
   history in the class lib_ok_b whose first block has an empty parent id: ReversibleSegment reaches the LIB id
   "" through the empty link, AddLink does not recognise the stored block when it is fed again (links[id] = ""),
   it is delivered as New again: discipline AND re-feed clause fail (the pass-through behaviour of
   c01_passthrough_roots_witness, here inside c01_scope). *)
Definition c01_empty_lib_id_refuted : Prop :=
  exists cfg r0 h,
    ri r0 = 0 /\ c01_scope cfg (LExcl r0) h /\ c_fail_at cfg = None /\ lib_ok_b (LExcl r0) h = true /\
    let t := fk_run cfg (fs_init (LExcl r0)) h in
    c01_discipline_b (LExcl r0) t = false /\ c01_refeed_b [] h t = false.

(* ================================================================ what DOES hold for arbitrary declarations *)

(* the same configuration with a handler that never fails *)
Definition cfg_nofail (cfg : config) : config :=
  mkCfg (c_first cfg) (c_incl cfg) (c_hold cfg) (c_kept cfg) (c_alltrig cfg) (c_filter cfg) None.

(* the NUMBER of the LIB reference of the forkdb never decreases along the run (a condition on the model's
   run, computable; it holds for every history of the classes moving_scope2_b / disc_scope2_b, where the LIB
   number is the height of the LIB block: c01_wild_mono_subsumes) *)
Fixpoint lib_mono_b (cfg : config) (s : fstate) (h : list block) : bool :=
  match h with
  | [] => true
  | b :: rest =>
      let '(s', _, r) := fk_step cfg s b in
      (rn (libref (db s)) <=? rn (libref (db s'))) &&
      match r with ROk => lib_mono_b cfg s' rest | _ => true end
  end.

(* The Undo/New DISCIPLINE and the error clause hold for EVERY well-formed history: no condition on the LIB
   numbers blocks declare (c01_scope's quantifier), no coherence condition between the configured LIB and the
   history (a child of r0 may be lower than r0, a block with r0's id may carry another number); only
   r0's id must be non-empty.  Any handler oracle, includeInitialLIB flag, first streamable block, retention,
   all-blocks-trigger, Irreversible/Stalled filter bits.  No call panics or exhausts the fuel of the walks. *)
Definition c01_wild_discipline_statement : Prop :=
  forall cfg r0 m h,
    rooted_mode r0 m ->
    f_new (c_filter cfg) = true -> f_undo (c_filter cfg) = true ->
    wf_b h = true -> ri r0 <> 0 ->
    let t := fk_run cfg (fs_init m) h in
    c01_discipline_b m t = true /\ c01_error_b (c_fail_at cfg) 0 t = true /\
    Forall (fun x => snd x = ROk \/ snd x = RHandlerErr) t /\
    (c_fail_at cfg = None -> Forall (fun x => snd x = ROk) t /\ length t = length h).

(* ... and the whole of c01_statement (with the re-feed clause) holds whenever the LIB number does not
   decrease along the run of the never-failing handler: the exact condition that the re-feed witnesses violate *)
Definition c01_wild_mono_statement : Prop :=
  forall cfg r0 m h,
    rooted_mode r0 m ->
    f_new (c_filter cfg) = true -> f_undo (c_filter cfg) = true ->
    wf_b h = true -> ri r0 <> 0 ->
    lib_mono_b (cfg_nofail cfg) (fs_init m) h = true ->
    c01_statement cfg m h.

(* the same two statements in DISCOVERY mode (no configured LIB, hold-until-LIB, as the hub uses): every
   well-formed history, no condition on the declarations.  The LIB the stream is rooted at is the one carried by
   the first delivered event (root_lib of Spec/Consumer.v) *)
Definition c01_wild_discovery_discipline_statement : Prop :=
  forall cfg h,
    c_hold cfg = true -> c_incl cfg = false ->
    f_new (c_filter cfg) = true -> f_undo (c_filter cfg) = true ->
    wf_b h = true ->
    let t := fk_run cfg (fs_init LNone) h in
    c01_discipline_b LNone t = true /\ c01_error_b (c_fail_at cfg) 0 t = true /\
    Forall (fun x => snd x = ROk \/ snd x = RHandlerErr) t /\
    (c_fail_at cfg = None -> Forall (fun x => snd x = ROk) t /\ length t = length h).

Definition c01_wild_discovery_mono_statement : Prop :=
  forall cfg h,
    c_hold cfg = true -> c_incl cfg = false ->
    f_new (c_filter cfg) = true -> f_undo (c_filter cfg) = true ->
    wf_b h = true ->
    lib_mono_b (cfg_nofail cfg) (fs_init LNone) h = true ->
    c01_statement cfg LNone h.

(* An INPUT condition that implies the run condition: every block of the history lies strictly ABOVE the first
   streamable block.  (ReversibleSegment's guard "first streamable < num < LIB number => nil" then keeps every
   chain whose numbers lie under a too-high LIB number from being delivered, and a LIB reference with a lower
   number from being accepted.)  With it the whole of c01_statement holds for every well-formed history,
   whatever the blocks declare and whatever the configured LIB is: every re-feed witness feeds a block AT or UNDER
   the first streamable block. *)
Definition above_first_b (cfg : config) (h : list block) : bool := forallb (fun b => c_first cfg <? bnum b) h.

Definition c01_wild_first_statement : Prop :=
  (forall cfg r0 m h,
     rooted_mode r0 m ->
     f_new (c_filter cfg) = true -> f_undo (c_filter cfg) = true ->
     wf_b h = true -> ri r0 <> 0 -> above_first_b cfg h = true ->
     c01_statement cfg m h /\ lib_mono_b (cfg_nofail cfg) (fs_init m) h = true) /\
  (forall cfg h,
     c_hold cfg = true -> c_incl cfg = false ->
     f_new (c_filter cfg) = true -> f_undo (c_filter cfg) = true ->
     wf_b h = true -> above_first_b cfg h = true ->
     c01_statement cfg LNone h /\ lib_mono_b (cfg_nofail cfg) (fs_init LNone) h = true).

(* The same with blocks AT the first streamable block allowed (no block UNDER it): then the configured LIB must
   be weakly coherent with the history -- its id is the id of a block of the history, or the blocks whose
   parent id is r0's id are higher than r0's number.  In discovery mode nothing else is needed: for the hub's
   configuration C01 holds for every well-formed history that has no block under the first streamable block. *)
Definition not_under_first_b (cfg : config) (h : list block) : bool := forallb (fun b => c_first cfg <=? bnum b) h.

Definition lib_weak_coh_b (r0 : ref) (h : list block) : bool :=
  existsb (fun b => bid b =? ri r0) h ||
  forallb (fun b => if bparent b =? ri r0 then rn r0 <? bnum b else true) h.

Definition c01_wild_first_le_statement : Prop :=
  (forall cfg r0 m h,
     rooted_mode r0 m ->
     f_new (c_filter cfg) = true -> f_undo (c_filter cfg) = true ->
     wf_b h = true -> ri r0 <> 0 -> not_under_first_b cfg h = true -> lib_weak_coh_b r0 h = true ->
     c01_statement cfg m h /\ lib_mono_b (cfg_nofail cfg) (fs_init m) h = true) /\
  (forall cfg h,
     c_hold cfg = true -> c_incl cfg = false ->
     f_new (c_filter cfg) = true -> f_undo (c_filter cfg) = true ->
     wf_b h = true -> not_under_first_b cfg h = true ->
     c01_statement cfg LNone h /\ lib_mono_b (cfg_nofail cfg) (fs_init LNone) h = true).

(* the class of c01_moving_lib_roots_partial lies inside the class of c01_wild_mono_statement *)
Definition c01_wild_mono_subsumes : Prop :=
  forall cfg r0 m h,
    rooted_mode r0 m ->
    f_new (c_filter cfg) = true -> f_undo (c_filter cfg) = true ->
    moving_scope2_b r0 h = true ->
    wf_b h = true /\ ri r0 <> 0 /\ lib_mono_b (cfg_nofail cfg) (fs_init m) h = true.

(* ... and so does the class of c01_discovery_roots_partial *)
Definition c01_wild_discovery_mono_subsumes : Prop :=
  forall cfg h,
    c_hold cfg = true -> c_incl cfg = false ->
    f_new (c_filter cfg) = true -> f_undo (c_filter cfg) = true ->
    disc_scope2_b h = true ->
    wf_b h = true /\ lib_mono_b (cfg_nofail cfg) (fs_init LNone) h = true.
