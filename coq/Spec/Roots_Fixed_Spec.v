(* The fixed-LIB theorems of C01-C04 for histories that may contain ROOTS (blocks whose parent id is
   empty): the statements of Spec/C01_Spec.v, C01_More_Spec.v, C02_Fixed_Spec.v, C03_Spec.v, C04_Spec.v with the
   conjunct "no empty parent id" REMOVED from the class of histories.  See Spec/C01_Roots_Spec.v for the
   reason why roots are special (AddLink does not recognise a stored root) and why this is harmless. *)
From BV Require Import Base.Prelude Model.Block Model.ForkDB Model.Forkable Spec.Consumer Spec.Universe
  Spec.ForkChoice Spec.C01_Spec Spec.C01_More_Spec Spec.C02_Fixed_Spec Spec.C03_Spec Spec.C04_Spec.
Local Open Scope N_scope.

(* fixed_block_b of Spec/C01_Spec.v without negb (bparent b =? 0): every block declares r0's number as its
   LIB; a child of r0 is higher than r0; a block that carries r0's id has r0's number *)
Definition fixed_block2_b (r0 : ref) (b : block) : bool :=
  (blib b =? rn r0) &&
  (if bparent b =? ri r0 then rn r0 <? bnum b else true) &&
  (if bid b =? ri r0 then bnum b =? rn r0 else true).

Definition c01_fixed_scope2_b (r0 : ref) (h : list block) : bool :=
  wf_b h && negb (ri r0 =? 0) && forallb (fixed_block2_b r0) h.

(* disc_block_b of Spec/C01_More_Spec.v without negb (bparent b =? 0) *)
Definition disc_block2_b (n0 first : N) (b : block) : bool :=
  (blib b =? n0) && (n0 <=? bnum b) &&
  (if bnum b =? first then bnum b =? n0 else true).

Definition c01_disc_scope2_b (n0 first : N) (h : list block) : bool :=
  wf_b h && forallb (disc_block2_b n0 first) h.

(* the old classes are sub-classes *)
Definition roots_fixed_scopes_subsume : Prop :=
  (forall r0 h, c01_fixed_scope_b r0 h = true -> c01_fixed_scope2_b r0 h = true) /\
  (forall n0 first h, c01_disc_scope_b n0 first h = true -> c01_disc_scope2_b n0 first h = true).

(* C01: c01_fixed_lib_incl_statement (exclusive or inclusive starting LIB, any includeInitialLIB flag, every
   handler oracle; it contains c01_fixed_lib_statement and c01_fixed_lib_failures_statement) *)
Definition c01_fixed_lib_roots_statement : Prop :=
  forall cfg m r0 h,
    start_mode m r0 ->
    f_new (c_filter cfg) = true -> f_undo (c_filter cfg) = true ->
    c01_fixed_scope2_b r0 h = true ->
    c01_statement cfg m h /\
    oracle_run cfg (fk_run (nofail cfg) (fs_init m) h) (fk_run cfg (fs_init m) h) /\
    results_ok_or_last_err (fk_run cfg (fs_init m) h) /\
    (c_fail_at cfg = None -> length (fk_run cfg (fs_init m) h) = length h).

(* C01, discovery with hold-until-LIB: c01_fixed_lib_disc_statement *)
Definition c01_fixed_lib_disc_roots_statement : Prop :=
  forall cfg n0 h,
    c_hold cfg = true ->
    f_new (c_filter cfg) = true -> f_undo (c_filter cfg) = true ->
    c01_disc_scope2_b n0 (c_first cfg) h = true ->
    c01_statement cfg LNone h /\
    oracle_run cfg (fk_run (nofail cfg) (fs_init LNone) h) (fk_run cfg (fs_init LNone) h) /\
    results_ok_or_last_err (fk_run cfg (fs_init LNone) h) /\
    (c_fail_at cfg = None -> length (fk_run cfg (fs_init LNone) h) = length h).

(* C02 (degenerate): c02_fixed_lib_statement *)
Definition c02_fixed_lib_roots_statement : Prop :=
  forall cfg r0 h,
    c_fail_at cfg = None -> c_incl cfg = false ->
    f_new (c_filter cfg) = true -> f_undo (c_filter cfg) = true ->
    c01_fixed_scope2_b r0 h = true ->
    no_finality_events (fk_run cfg (fs_init (LExcl r0)) h) /\ c02_statement cfg (LExcl r0) h.

(* C03: c03_fixed_lib_statement *)
Definition c03_fixed_lib_roots_statement : Prop :=
  forall cfg r0 h,
    c_fail_at cfg = None -> c_incl cfg = false ->
    f_new (c_filter cfg) = true -> f_undo (c_filter cfg) = true ->
    c01_fixed_scope2_b r0 h = true ->
    let t := fk_run cfg (fs_init (LExcl r0)) h in
    c03_statement cfg (LExcl r0) h /\
    c03_follows cfg (ri r0) (fc_init (LExcl r0)) [] None h t /\
    c03_noise cfg (fc_init (LExcl r0)) h t /\
    c03_retention_statement cfg (LExcl r0) h /\
    (forall h1 b h2, h = h1 ++ b :: h2 -> c03_noise_deletion cfg (LExcl r0) h1 b h2).

(* C04: c04_fixed_lib_statement *)
Definition c04_fixed_lib_roots_statement : Prop :=
  forall cfg r0 h,
    c_fail_at cfg = None -> c_incl cfg = false ->
    f_new (c_filter cfg) = true -> f_undo (c_filter cfg) = true ->
    c01_fixed_scope2_b r0 h = true ->
    let t := fk_run cfg (fs_init (LExcl r0)) h in
    c04_run r0 [] [] h t /\ c04_fields r0 h t /\ c04_statement cfg (LExcl r0) h.
