(* C19 — readable statement: block range algebra is exact at every boundary and ParseRange never
   crashes.  Heights are natural numbers below 2^64; "interval arithmetic" is ordinary arithmetic
   on N (no wrap-around), so every place where the Go code needs a no-wrap guard shows it. *)
From BV Require Import Base.Prelude Base.Decimal Model.Range.
Local Open Scope N_scope.

Definition u64 (n : N) : Prop := n < two64.

(* the ranges the constructors build: 64-bit bounds, and a bounded range has start < end *)
Definition range_ok (r : range) : Prop :=
  u64 (rstart r) /\ match rend r with Some e => u64 e /\ rstart r < e | None => True end.

(* the interval a range denotes: bounds with their inclusivity flags *)
Definition lower_ok (exs : bool) (s n : N) : Prop := if exs then s < n else s <= n.
Definition upper_ok (exe : bool) (e : option N) (n : N) : Prop :=
  match e with None => True | Some ev => if exe then n < ev else n <= ev end.
Definition in_range (r : range) (n : N) : Prop :=
  lower_ok (rexs r) (rstart r) n /\ upper_ok (rexe r) (rend r) n.

Definition b2n (b : bool) : N := if b then 1 else 0.

(* ---- Contains ---- *)
Definition C19_contains : Prop :=
  forall r n, contains r n = true <-> in_range r n.

(* ---- ReachedEndBlock: n is the last number of the range or beyond; for a non-empty range
   this says that no later number belongs to the range.  Open-ended ranges never reach an end. *)
Definition C19_reached : Prop :=
  forall r n, range_ok r -> u64 n ->
    (reached r n = true <-> exists e, rend r = Some e /\ e <= n + b2n (rexe r)) /\
    ((exists m, in_range r m) ->
       (reached r n = true <-> rend r <> None /\ forall m, n < m -> ~ in_range r m)).

(* ---- Size: the distance between the bounds, exact (no wrap) on every constructed range; the
   range contains the numbers start + [exclusive start] .. end - [exclusive end], i.e.
   Size + 1 - [exclusive start] - [exclusive end] of them; open-ended: error *)
Definition C19_size : Prop :=
  forall r, range_ok r ->
    match rend r with
    | None => size r = None
    | Some e =>
        size r = Some (e - rstart r) /\ rstart r + (e - rstart r) = e /\
        forall n, in_range r n <-> rstart r + b2n (rexs r) <= n /\ n + b2n (rexe r) <= e
    end.

(* ---- Next(size): the range of `size` blocks that starts where r ends (bounded), or r moved
   up by size (open-ended); flags kept; Previous undoes it.  Guard: the new upper bound fits in
   64 bits. *)
Definition C19_next : Prop :=
  forall r sz, range_ok r ->
    match rend r with
    | Some e => e + sz < two64 ->
        next r sz = mkRange e (Some (e + sz)) (rexs r) (rexe r) /\
        size (next r sz) = Some sz /\
        (0 < sz -> range_ok (next r sz)) /\
        previous (next r sz) (e - rstart r) = r
    | None => rstart r + sz < two64 ->
        next r sz = mkRange (rstart r + sz) None (rexs r) (rexe r) /\
        range_ok (next r sz) /\
        previous (next r sz) sz = r
    end.

(* ---- Previous(size): the range of `size` blocks that ends where r starts (bounded), or r
   moved down by size (open-ended); flags kept; Next undoes it.  Guard: size <= start. *)
Definition C19_previous : Prop :=
  forall r sz, range_ok r -> sz <= rstart r ->
    match rend r with
    | Some e =>
        previous r sz = mkRange (rstart r - sz) (Some (rstart r)) (rexs r) (rexe r) /\
        size (previous r sz) = Some sz /\
        (0 < sz -> range_ok (previous r sz)) /\
        next (previous r sz) (e - rstart r) = r
    | None =>
        previous r sz = mkRange (rstart r - sz) None (rexs r) (rexe r) /\
        range_ok (previous r sz) /\
        next (previous r sz) sz = r
    end.

(* ---- IsNext(next, size): true exactly for the range Next describes, compared by VALUE
   (bounds and flags), for bounded and open-ended ranges alike *)
Definition C19_isnext : Prop :=
  forall r nx sz, range_ok r ->
    match rend r with
    | Some e => e + sz < two64 ->
        (is_next r nx sz = true <-> nx = mkRange e (Some (e + sz)) (rexs r) (rexe r))
    | None => rstart r + sz < two64 ->
        (is_next r nx sz = true <-> nx = mkRange (rstart r + sz) None (rexs r) (rexe r))
    end.

(* ---- Split ---- *)

(* each chunk ends where the following one starts *)
Fixpoint contiguous (l : list range) : Prop :=
  match l with
  | a :: ((b :: _) as t) => rend a = Some (rstart b) /\ contiguous t
  | _ => True
  end.

(* the ends of all chunks but the last *)
Fixpoint inner_bounds (l : list range) : list N :=
  match l with
  | a :: ((_ :: _) as t) => match rend a with Some e => e :: inner_bounds t | None => inner_bounds t end
  | _ => []
  end.

(* everything the property says about the shape of the chunk list, plus: no chunk is wider
   than the chunk size and every chunk is itself a constructed range *)
Definition chunks_shape (r : range) (chunk : N) (l : list range) : Prop :=
  l <> [] /\
  rstart (hd r l) = rstart r /\
  rend (last l r) = rend r /\
  contiguous l /\
  (forall b, In b (inner_bounds l) -> b mod chunk = 0) /\
  (forall c, In c l -> rexs c = rexs r /\ rexe c = rexe r /\ range_ok c /\
                       exists ce, rend c = Some ce /\ ce - rstart c <= chunk).

(* FULL statement of the property: for every constructed range, open-ended ones return the
   open-ended error (there is no last chunk), bounded ones return chunks of the right shape
   that together contain exactly the numbers of the range *)
Definition C19_split_full : Prop :=
  forall r chunk, range_ok r -> 0 < chunk < two64 ->
    match rend r with
    | None => split r chunk = SplitErrOpen
    | Some _ => exists l, split r chunk = SplitOk l /\ chunks_shape r chunk l /\
                  forall n, (exists c, In c l /\ in_range c n) <-> in_range r n
    end.

(* PROVED statement.  Gap to C19_split_full: when BOTH bounds are exclusive, keeping the flags
   on every chunk loses exactly the inner boundaries ((10,20) by 5 gives (10,15),(15,20): 15 is in
   no chunk).  The union clause is exact for the three other flag combinations; for the
   both-exclusive combination it is exact up to the inner boundaries.  No no-wrap guard is
   needed after the Split fix: every 64-bit range and every chunk size 1..2^64-1 is covered. *)
Definition C19_split_partial : Prop :=
  forall r chunk, range_ok r -> 0 < chunk < two64 ->
    match rend r with
    | None => split r chunk = SplitErrOpen
    | Some _ => exists l, split r chunk = SplitOk l /\ chunks_shape r chunk l /\
                  forall n, (exists c, In c l /\ in_range c n) <->
                            in_range r n /\ ~ (rexs r = true /\ rexe r = true /\ In n (inner_bounds l))
    end.

(* corollary of C19_split_partial: the full statement for the three flag combinations with at
   most one exclusive bound *)
Definition C19_split_exact : Prop :=
  forall r chunk, range_ok r -> 0 < chunk < two64 -> rexs r && rexe r = false ->
    match rend r with
    | None => split r chunk = SplitErrOpen
    | Some _ => exists l, split r chunk = SplitOk l /\ chunks_shape r chunk l /\
                  forall n, (exists c, In c l /\ in_range c n) <-> in_range r n
    end.

(* the refutation of the full statement, on the model and (replayed) on the real code *)
Definition C19_split_full_refuted : Prop :=
  exists r chunk l n, range_ok r /\ 0 < chunk < two64 /\ split r chunk = SplitOk l /\
    in_range r n /\ ~ exists c, In c l /\ in_range c n.

(* the wrap-around the Split fix repairs: the loop of the unchanged code never ends on
   [0, 2^64-1] with chunk 2^63 — whatever the number of iterations *)
Definition C19_split_unfixed_refuted : Prop :=
  forall fuel, split_loop_unfixed fuel false false (two64 - 1) two63 0 two63 = None.

(* ---- constructors ---- *)
Definition C19_constructors : Prop :=
  (forall s, u64 s -> exists r, new_open_range s = CtorOk r /\ range_ok r /\ rend r = None /\ rstart r = s) /\
  (forall s e, u64 s -> u64 e ->
     (s < e -> new_inclusive_range s e = CtorOk (mkRange s (Some e) false false) /\
               new_range_excluding_end s e = CtorOk (mkRange s (Some e) false true)) /\
     (e <= s -> new_inclusive_range s e = CtorPanic /\ new_range_excluding_end s e = CtorPanic)) /\
  (forall b sz, u64 b -> u64 sz ->
     (sz = 0 -> new_range_containing b sz = CtorErr) /\
     (0 < sz -> b - b mod sz + sz < two64 ->
        exists st, new_range_containing b sz = CtorOk (mkRange st (Some (st + sz)) false false) /\
                   st mod sz = 0 /\ st <= b < st + sz)).

(* ---- ParseRange: an error or a range for every byte string — never the out-of-range index;
   a returned range is a constructed range with the requested flags; "a-b" / "a:b" in decimal
   gives exactly [a, b] when a < b < 2^63 and an error when b <= a *)
Definition C19_parse_total : Prop :=
  (forall s exs exe, parse_range s exs exe <> ParsePanic) /\
  (forall s exs exe r, parse_range s exs exe = ParseOk r ->
     range_ok r /\ rexs r = exs /\ rexe r = exe /\ rend r <> None) /\
  (forall a b sep exs exe, is_sep sep = true -> a < two63 -> b < two63 ->
     parse_range (print_dec a ++ sep :: print_dec b) exs exe =
       if a <? b then ParseOk (mkRange a (Some b) exs exe) else ParseErr).

(* what the ParseRange fix repairs: the unchanged code indexes a missing bound *)
Definition C19_parse_unfixed_refuted : Prop :=
  exists s, parse_range_unfixed s false false = ParsePanic.
