(* C07 for final-blocks-only streams (j_filter = 1: the handler receives the Irreversible and new+irreversible
   events), number mode, any stop block.

   c07_prop checks such a stream with `final_fold None`: each delivered block extends the previous one.
   WITHOUT a further hypothesis this is FALSE in the model (C07_final_only_refuted): when the join happens at a
   file block above the hub's LIB - the merged files hold blocks the (lagging) hub does not yet consider final -
   the live hub later announces as Irreversible the blocks between its LIB and the join point, which the files
   have already delivered as new+irreversible: blocks are delivered twice, out of order.
   Under `files_final` (whenever the hub is ready every merged block is at or below its LIB - merged files hold
   final blocks only, for the hub too) the clause holds: C07_seamless_num_final. *)
From BV Require Import Base.Prelude Model.Block Model.ForkDB Model.Forkable Model.ForkableLookups
  Model.Burst Model.Hub Model.CursorResolver Model.Joining
  Spec.Consumer Spec.Universe Check.Burst_Check Check.C07_Check Spec.C06_Spec Spec.C07_Spec Spec.C09_Spec
  Spec.C13_Spec Spec.C07_Compose_Spec Spec.C07_Shapes_Spec Spec.C07_More_Spec.
Local Open Scope N_scope.

(* the hub's LIB number once every block has arrived *)
Definition final_lib (c : jcfg) (w : world) : N :=
  rn (libref (db (h_f (w_hub (world_after c (length (w_rest w)) w))))).

(* Final blocks only, from a block number, any stop block, files_final.  For EVERY outcome each delivered block
   extends the previous one (the checker's final_fold).  When the stream ends waiting: it never left the files and
   has delivered exactly the merged blocks from start, or it has joined the hub, every block has arrived, and from
   start on it has delivered exactly canon up to the hub's LIB - every final canonical block from the start point
   on, once, in order.  (Blocks BELOW start may precede them when the stream is live from the start and the hub's
   LIB is below start: the hub announces every block that becomes final.) *)
Definition C07_seamless_num_final : Prop :=
  forall (U : list block) (c : jcfg) (w : world) (ps : list (N * N)) (merged_end : N) (canon forked : list block),
    wf_b U = true -> lib_ok_b LNone U = true ->
    hub_of_universe U c w ->
    chain_ok canon -> incl canon U ->
    let merged := filter (fun b => bnum b <? merged_end) canon in
    eventual_tip c w canon ->
    files_final c w merged ->
    j_mode c = 0 -> j_filter c = 1 ->
    0 < j_bundle c -> Forall (fun b => bnum b < file_bound) merged ->
    let res := stream_run c w ps merged_end merged forked in
    let start := run_start c w in
    (exists b, In b canon /\ bnum b = start) ->
    final_fold None (fst res) = true /\
    (snd res = JNil ->
       map eblk (fst res) = from_num start merged \/
       from_num start (map eblk (fst res)) = seg_num start (final_lib c w) canon).

