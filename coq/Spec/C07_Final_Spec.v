(* C07 for final-blocks-only streams (j_filter = 1: the handler receives the Irreversible and new+irreversible
   events), number mode, any stop block.

   c07_prop checks such a stream with `final_fold None`: each delivered block extends the previous one.
   With the stateless filter the code had before the fix "each final block once" this was FALSE
   (Spec/C07_FinalUnfixed_Spec.v, c07_final_only_refuted: when the join happens at a file block above the hub's LIB the
   live hub announces again, as Irreversible, blocks the files already delivered).  The filter of the model is now
   stateful (Model/Joining.chain_fin: a passing event numbered at or below the last one forwarded is dropped) and the
   clause holds under the world hypotheses of C07_seamless_num alone: C07_seamless_num_final.  No agreement
   hypothesis between the files and the hub's LIB (files_final) is needed. *)
From Coq Require Import Sorted.
From BV Require Import Base.Prelude Model.Block Model.ForkDB Model.Forkable Model.ForkableLookups
  Model.Burst Model.Hub Model.CursorResolver Model.Joining
  Spec.Consumer Spec.Universe Check.Burst_Check Check.C07_Check Spec.C06_Spec Spec.C07_Spec Spec.C09_Spec
  Spec.C13_Spec Spec.C07_Compose_Spec Spec.C07_Shapes_Spec Spec.C07_More_Spec.
Local Open Scope N_scope.

(* the hub's LIB number once every block has arrived *)
Definition final_lib (c : jcfg) (w : world) : N :=
  rn (libref (db (h_f (w_hub (world_after c (length (w_rest w)) w))))).

(* Final blocks only, from a block number, any stop block.  For EVERY outcome each delivered block extends the previous
   one (the checker's final_fold).  When the stream ends waiting: it never left the files and has delivered exactly
   the merged blocks from start, or it has joined the hub, every block has arrived, and from start on it has
   delivered exactly canon up to a height hi at or above the hub's LIB - every final canonical block from the start
   point on, once, in order (hi is the hub's LIB, or the last file block delivered when the hub's LIB never caught up
   with the files).  Blocks BELOW start may precede them when the stream is live from the start and the hub's LIB is
   below start: the hub announces every block that becomes final. *)
Definition C07_seamless_num_final : Prop :=
  forall (U : list block) (c : jcfg) (w : world) (ps : list (N * N)) (merged_end : N) (canon forked : list block),
    wf_b U = true -> lib_ok_b LNone U = true ->
    hub_of_universe U c w ->
    chain_ok canon -> incl canon U ->
    let merged := filter (fun b => bnum b <? merged_end) canon in
    eventual_tip c w canon ->
    j_mode c = 0 -> j_filter c = 1 ->
    0 < j_bundle c -> Forall (fun b => bnum b < file_bound) merged ->
    let res := stream_run c w ps merged_end merged forked in
    let start := run_start c w in
    (exists b, In b canon /\ bnum b = start) ->
    final_fold None (fst res) = true /\
    (snd res = JNil ->
       map eblk (fst res) = from_num start merged \/
       exists hi, final_lib c w <= hi /\ from_num start (map eblk (fst res)) = seg_num start hi canon).

(* ------------------------------------------------------------------ what the filter's memory guarantees, unconditionally *)

(* Final blocks only, EVERY start mode, world, schedule, stop block (no hypothesis): the block numbers of the delivered
   events strictly increase - each final block at most once, never one at or below a block already delivered - and a
   stream that resumes from a cursor (cursor-is-start) delivers nothing numbered at or below its cursor block (the two
   fixes "each final block once" and "none at or below the cursor"). *)
Definition C07_final_increasing : Prop :=
  forall (c : jcfg) (w : world) (ps : list (N * N)) (merged_end : N) (merged forked : list block),
    j_filter c = 1 ->
    let res := stream_run c w ps merged_end merged forked in
    StronglySorted (fun a b => bnum (eblk a) < bnum (eblk b)) (fst res) /\
    Forall (fun e => filter_pass c (estep e) = true) (fst res) /\
    (forall cu, j_mode c = 1 -> j_cursor c = Some cu -> Forall (fun e => rn (cu_blk cu) < bnum (eblk e)) (fst res)).

(* The final-blocks-only clause in cursor mode (PROVED: c07_seamless_cursor_final, Proofs/C07_FinalCursor.v).  The cursor is
   on a final canonical block L (IsOnFinalBlock: cursor block = cursor LIB block = L); c07_prop checks
   final_fold (Some (id of L)): the first delivered block is the child of L, each further one extends the previous one -
   for EVERY outcome, any stop block, under the world hypotheses of the C07 theorems alone (no agreement hypothesis between
   the files, the cursor and the hub's LIB: the filter's memory, which starts at L's number, drops what the hub announces
   again).  When the stream ends waiting: nothing was delivered (the files do not hold L yet / the hub's LIB never got
   above L), or it never left the files and has delivered the merged blocks above L, or it has delivered exactly the
   canonical blocks above L up to a height at or above the hub's LIB: every final canonical block after the cursor,
   once, in order. *)
Definition C07_seamless_cursor_final_full : Prop :=
  forall (U : list block) (c : jcfg) (w : world) (ps : list (N * N)) (merged_end : N) (canon forked : list block)
         (cu : cursor) (L : block) (rest : list block),
    wf_b U = true -> lib_ok_b LNone U = true ->
    hub_of_universe U c w ->
    chain_ok canon -> incl canon U ->
    let merged := filter (fun b => bnum b <? merged_end) canon in
    eventual_tip c w canon ->
    j_mode c = 1 -> j_cursor c = Some cu -> j_filter c = 1 ->
    0 < j_bundle c -> Forall (fun b => bnum b < file_bound) merged ->
    on_final_block cu = true ->
    from_num (rn (cu_lib cu)) canon = L :: rest -> bref L = cu_lib cu -> bref L = cu_blk cu ->
    let res := stream_run c w ps merged_end merged forked in
    final_fold (Some (ri (cu_blk cu))) (fst res) = true /\
    (snd res = JNil ->
       fst res = [] \/ map eblk (fst res) = above (rn (cu_lib cu)) merged \/
       exists hi, final_lib c w <= hi /\ map eblk (fst res) = seg_num (rn (cu_lib cu) + 1) hi canon).

(* The final-blocks-only clause in target-cursor mode (PROVED: c07_seamless_target_final, Proofs/C07_FinalTarget.v).  The
   memory starts empty (start_mem = None; c07_prop checks final_fold None).  Scope of C07_seamless_target (cursor block B on
   canon) for a final cursor (cursor LIB = cursor block; a cursor that is not on a final block is rejected), but WITHOUT
   the agreement hypothesis target_on_chain (nor files_on_hub, which C07_seamless_target had before the fix "target join on
   identity"), which a final-blocks-only handler does not need:
     - a final target cursor is never answered through the "cursor block stored off the chain" branch of
       blocksThroughCursor (that branch needs blocks_from_cursor = BOk, hence the cursor LIB - the cursor block itself -
       on the head's segment);
     - whether or not the join is made on identity (it is when the cursor block is below the file block, since the fix
       "target join on identity"; the proof does not use it): the hub's answer for number n might start with a forked
       sibling of the file block - but its new+irreversible part consists of the segment blocks numbered n .. hub LIB, which are final
       for the hub, hence on canon (seg_on_canon): the file block itself when n <= hub LIB, nothing otherwise; the New
       events of a forked answer never reach the handler.
   For every outcome each delivered block extends the previous one; when the stream ends waiting it has delivered a
   beginning of the merged blocks from start (never left the files; all of them unless the file source gave up on the
   cursor), or, from start on, exactly canon up to a height at or above the hub's LIB. *)
Definition C07_seamless_target_final_full : Prop :=
  forall (U : list block) (c : jcfg) (w : world) (ps : list (N * N)) (merged_end : N) (canon forked : list block)
         (cu : cursor) (B : block),
    wf_b U = true -> lib_ok_b LNone U = true ->
    hub_of_universe U c w ->
    chain_ok canon -> incl canon U ->
    let merged := filter (fun b => bnum b <? merged_end) canon in
    eventual_tip c w canon ->
    j_mode c = 2 -> j_cursor c = Some cu -> j_filter c = 1 ->
    0 < j_bundle c -> Forall (fun b => bnum b < file_bound) merged ->
    In B canon -> bref B = cu_blk cu -> cu_lib cu = cu_blk cu ->
    let res := stream_run c w ps merged_end merged forked in
    let start := run_start c w in
    (exists b, In b canon /\ bnum b = start) ->
    final_fold None (fst res) = true /\
    (snd res = JNil ->
       (exists D1 D2, from_num start merged = D1 ++ D2 /\ map eblk (fst res) = D1) \/
       exists hi, final_lib c w <= hi /\ from_num start (map eblk (fst res)) = seg_num start hi canon).
