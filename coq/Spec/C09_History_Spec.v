(* C09 over HISTORIES (addition to Spec/C09_Spec.v): the "retained canonical chain" of a ready hub - by
   definition the complete segment of its head - against the chain the never-disconnected consumer holds.

   The hub's Forkable delivers events from the moment it discovers its LIB, bootstrap passes included (the hub
   forwards to its subscribers only those delivered for live blocks once ready).  The consumer `c` below is the
   one of Check/Burst_Check.v that applied EVERY event the hub's Forkable delivered since it was created: stack
   newest first, its cs_nf oldest blocks final. *)
From BV Require Import Base.Prelude Model.Block Model.ForkDB Model.Forkable Model.ForkableLookups
  Model.Burst Model.Hub Spec.Consumer Spec.Universe Check.Fk_Check Check.Burst_Check Spec.C09_Spec.
Local Open Scope N_scope.

(* the blocks a hub's Forkable has been fed, in order: its state is the state of the hub-configured Forkable
   after ProcessBlock on each of them, and no call failed *)
Definition hub_fed (U : list block) (first kept : N) (h : hub) (hist : list block) : Prop :=
  (forall b, In b hist -> In b U) /\
  Forall (fun x => snd x = ROk) (fk_run (hub_config first kept) (fs_init LNone) hist) /\
  h_f h = state_after (hub_config first kept) (fs_init LNone) hist (length hist).

(* every hub run over a universe in the class of the Forkable theorems (well formed, LIB declarations in the
   class lib_ok_b): live blocks in any order, one-block passes, several bootstrap attempts *)
Definition C09_hub_is_forkable_run : Prop :=
  forall U first kept l, wf_b U = true -> lib_ok_b LNone U = true ->
    (forall b p, In (b, p) l -> In b U /\ pass_in U p) ->
    exists hist, hub_fed U first kept (hub_run first kept hub_init l) hist.

(* the pending (reversible) part and the final part of a consumer, oldest first *)
Definition cons_pending (c : cons) : list block := rev (firstn (length (cs_stack c) - cs_nf c) (cs_stack c)).
Definition cons_final (c : cons) : list block := rev (skipn (length (cs_stack c) - cs_nf c) (cs_stack c)).

Definition C09_chain_is_consumer_chain : Prop :=
  forall U first kept l, wf_b U = true -> lib_ok_b LNone U = true ->
    (forall b p, In (b, p) l -> In b U /\ pass_in U p) ->
    let h := hub_run first kept hub_init l in
    h_ready h = true ->
    exists hist c hd lo xL hi,
      hub_fed U first kept h hist /\
      cons_fold cons0 (all_events (fk_run (hub_config first kept) (fs_init LNone) hist)) = Some c /\
      (* the head, its complete segment: it reaches the LIB *)
      last_sent (h_f h) = Some hd /\ hd_error (cs_stack c) = Some hd /\
      complete_segment (db (h_f h)) (bref hd) = Some (lo ++ xL :: hi, true) /\
      (* xL is the LIB block, stored under its number *)
      sid xL = ri (libref (db (h_f h))) /\ snum xL = rn (libref (db (h_f h))) /\
      (* above the LIB: exactly the pending blocks of the consumer *)
      (forall x, In x hi -> rn (libref (db (h_f h))) < snum x) /\
      map seg_blk hi = cons_pending c /\
      (* at and below the LIB: the retained final blocks (LIB number - kept and above, and whatever bootstrap
         stored under the discovered LIB).  Against the consumer's final blocks: one list is the end of the other
         (the consumer never forgets, the hub purges; the hub may retain ancestors of the discovered LIB that
         were never delivered) *)
      (forall x, In x lo -> snum x < rn (libref (db (h_f h)))) /\
      ((exists d, map seg_blk (lo ++ [xL]) = d ++ cons_final c) \/
       (exists d, cons_final c = d ++ map seg_blk (lo ++ [xL]))).
