(* C18 at STREAM level in DISCOVERY mode (addition to Spec/C18_Moving_Spec.v): no LIB is configured and blocks are
   held until a LIB is known (holdBlocksUntilLIB: the configuration of the ForkableHub, whose lookups are the ones
   C18 speaks about).

   The clauses are those of Spec/C18_Moving_Spec.v (head information, canonical lookup, lowest servable number, kept
   window, by hash / by number); what changes is the root of the consumer's chain: it is not configured, it is the
   cursor LIB of the FIRST DELIVERED EVENT (root_ref LNone of Spec/Consumer.v).  Before that event nothing was
   delivered, the consumer's stack is empty, there is no head, and EVERY block received so far is in the buffer. *)
From BV Require Import Base.Prelude Model.Block Model.ForkDB Model.Forkable Model.ForkableLookups Model.Burst
  Spec.Consumer Spec.Universe Spec.C01_Spec Spec.C01_Moving_Spec Spec.C01_Roots_Spec Spec.C18_Spec Spec.C18_Moving_Spec
  Check.Fk_Check Check.Fk_Props_Check.
Local Open Scope N_scope.

(* ---------------------------------------------------------------- scope and observation points *)

(* hold-until-LIB, includeInitialLIB off (forkable.New never sets it without a LIB), New and Undo in the filter, a
   history of the class disc_scope2_b of Spec/C01_Roots_Spec.v (well-formed; LIB declarations in the class lib_ok_b
   LNone; roots allowed); everything else arbitrary: retention (0 included), first streamable block, all-blocks-trigger,
   Irreversible / Stalled filtered or not, ANY handler oracle *)
Definition c18d_scope (cfg : config) (h : list block) : Prop :=
  c_hold cfg = true /\ c_incl cfg = false /\
  f_new (c_filter cfg) = true /\ f_undo (c_filter cfg) = true /\ disc_scope2_b h = true.

(* the LIB the stream is rooted at: the cursor LIB of the first delivered event (empty before it) *)
Definition disc_root (evs : list event) : ref := match evs with e :: _ => elib e | [] => ref_empty end.

(* P holds at every observation point: a prefix `pre` of h was fed, every call returned ROk, `evs` were delivered,
   `s` is the state of the Forkable, S the consumer's stack for the root disc_root evs *)
Definition at_every_disc_point (cfg : config) (h : list block) (P : ref -> fstate -> cstack -> Prop) : Prop :=
  forall pre rest evs s, h = pre ++ rest -> reaches cfg (fs_init LNone) pre evs s ->
    exists S, apply_all (ri (disc_root evs)) [] evs = Some S /\ P (disc_root evs) s S.

(* ---------------------------------------------------------------- the discovery itself *)

(* As long as nothing was delivered no LIB is known, there is no head and nothing was dropped: every block fed so far
   is found by hash and by number.  Once something was delivered the LIB of the fork database is a block at or above
   the root (the root itself until the first move), the root carries a non-empty id and the stack is not empty. *)
Definition discovery_clause (pre : list block) (evs : list event) (s : fstate) (S : cstack) : Prop :=
  (evs = [] ->
     has_lib (db s) = false /\ last_sent s = None /\ S = [] /\
     forall b, In b pre -> get_block_by_hash s (bid b) = true /\
                           exists l, all_blocks_at s (bnum b) = Some l /\ In (bid b) l) /\
  (evs <> [] ->
     has_lib (db s) = true /\ ri (disc_root evs) <> 0 /\ rn (disc_root evs) <= rn (libref (db s)) /\ S <> []).

Definition C18_disc_discovery : Prop :=
  forall cfg h, c18d_scope cfg h ->
  forall pre rest evs s, h = pre ++ rest -> reaches cfg (fs_init LNone) pre evs s ->
    exists S, apply_all (ri (disc_root evs)) [] evs = Some S /\ discovery_clause pre evs s S.

(* ---------------------------------------------------------------- the clauses of Spec/C18_Moving_Spec.v *)

Definition C18_disc_head : Prop :=
  forall cfg h, c18d_scope cfg h -> at_every_disc_point cfg h (fun _ => head_clause).

Definition C18_disc_canonical : Prop :=
  forall cfg h, c18d_scope cfg h -> at_every_disc_point cfg h (fun _ => canonical_clause (c_kept cfg)).

Definition C18_disc_lowest : Prop :=
  forall cfg h, c18d_scope cfg h -> at_every_disc_point cfg h (fun _ => lowest_clause).

(* the kept window; `bounded` is claimed from the first LIB MOVE on (the step that establishes the LIB purges only when
   the LIB is a proper ancestor of the incoming block, not when the incoming block is its own LIB) *)
Definition C18_disc_window : Prop :=
  forall cfg h, c18d_scope cfg h -> at_every_disc_point cfg h (fun r0 => window_clause (c_kept cfg) r0).

(* by hash / by number on any fork: C18_moving_found for the discovery-mode run.  Before the discovery
   cutoff = 0 and nothing is dropped: every received block is found *)
Definition C18_disc_found : Prop :=
  forall cfg h, c18d_scope cfg h ->
  forall pre1 b pre2 rest evs1 s1 evs s2 evs2 s3,
    h = pre1 ++ b :: pre2 ++ rest ->
    reaches cfg (fs_init LNone) pre1 evs1 s1 ->
    fk_step cfg s1 b = (s2, evs, ROk) ->
    below_lib s1 b = false ->
    reaches cfg s2 pre2 evs2 s3 ->
    cutoff (db s3) (c_kept cfg) <= bnum b ->
    get_block_by_hash s3 (bid b) = true /\ exists l, all_blocks_at s3 (bnum b) = Some l /\ In (bid b) l.

Definition C18_disc_full : Prop :=
  C18_disc_discovery /\ C18_disc_head /\ C18_disc_canonical /\ C18_disc_lowest /\ C18_disc_window /\ C18_disc_found.

(* ---------------------------------------------------------------- the monitor of the check accepts *)

(* the discovery-mode cases that meet every hypothesis: hold-until-LIB, includeInitialLIB off, New / Undo /
   Irreversible in the filter, a history of the class disc_scope2_b, recorded queries that cover the ids and the
   heights of the history *)
Definition c18_disc_thm_scope (k : fk_case) : bool :=
  match k_mode k with
  | LNone =>
      c_hold (k_cfg k) && negb (c_incl (k_cfg k)) && filt_nu k && filt_irr k && disc_scope2_b (k_hist k) &&
      forallb (fun b => memN (bid b) (k_qi k) && memN (bnum b) (k_qh k)) (k_hist k)
  | _ => false
  end.

(* [C18_full] of Spec/C18_Spec.v on those cases: every observation that corresponds to the model passes c18_prop.
   For LNone the monitor runs c18_follow with disc = true: the announcement that ESTABLISHES the LIB is not a LIB move
   (no bound is demanded after it), every later one is. *)
Definition C18_disc_lib : Prop :=
  forall k, c18_disc_thm_scope k = true -> fk_corresponds k = true -> c18_prop k = true.

Definition C18_disc_own_run : Prop :=
  forall cfg h qh qi,
    c18_disc_thm_scope (model_case cfg LNone h qh qi) = true ->
    fk_corresponds (model_case cfg LNone h qh qi) = true /\ c18_prop (model_case cfg LNone h qh qi) = true.
