(* C07 - the join in target-cursor mode BEFORE the fix "target join on identity" (kept for documentation; the model of
   the code as it is now is Model/Joining.v).  JoiningSource.fileSourceHandler asked the hub
   SourceThroughCursor(blk.Number, cursor, handler); a target cursor below the file block "has already passed" and the
   hub then answers as SourceFromBlockNum does - for the block NUMBER, without the identity check that number and
   cursor mode have had since the fix "join on identity" (Spec/C07_Unfixed_Spec.v).  When the merged files hold a block
   the hub has a sibling of on its current chain, the consumer was handed the hub's branch without the Undo / New events
   that connect it.  Found by the proof of c07_seamless_target_nu (its hypothesis files_on_hub could not be discharged),
   replayed on the real stream.New + ForkableHub (same events), repaired in joiningsource.go (liveSourceThrough:
   repo_patches/C07_fix_target_join_on_identity.diff); the corpus scenarios "corpus/target-join-on-fork" of the C07
   check are the witness below with the blocks the harness needs to build its stores. *)
From BV Require Import Base.Prelude Model.Block Model.ForkDB Model.Forkable Model.ForkableLookups
  Model.Burst Model.Hub Model.CursorResolver Model.Joining
  Spec.Consumer Spec.Universe Check.Burst_Check Check.C07_Check Spec.C06_Spec Spec.C07_Spec Spec.C09_Spec Spec.C07_Compose_Spec.
Local Open Scope N_scope.

(* fileSourceHandler BEFORE the fix: in target-cursor mode any answer of the hub joins *)
Fixpoint file_phase_tnum (fuel : nat) (c : jcfg) (w : world) (lowest : N) (fevs : list event) (fend : jerr)
         (count : N) (ps : list (N * N)) (out : list event) : list event * jerr :=
  match fevs with
  | [] => (out, fend)
  | e :: rest =>
      let n := bnum (eblk e) in
      let join : option (list event) :=
        if (lowest <=? n) && matches_new (estep e) then
          match (if j_mode c =? 2
                 then match j_cursor c with Some cu => hub_through_cursor (h_f (w_hub w)) n cu | None => BErr end
                 else blocks_from_num (h_f (w_hub w)) n) with
          | BOk evs =>
              let same := (j_mode c =? 2) || match evs with b0 :: _ => bid (eblk b0) =? bid (eblk e) | [] => false end in
              if h_ready (w_hub w) && same then Some evs else None
          | _ => None
          end
        else None in
      match join with
      | Some burst => live_phase fuel c w burst count ps out
      | None =>
          let lowest' := if (lowest <=? n) && matches_new (estep e) then hub_lowest (w_hub w) else lowest in
          let '(deliver, stop) := Joining.chain c e in
          if deliver then
            let count' := count + 1 in
            let '(ps', w', _) := apply_pauses c count' ps w in
            if stop then (out ++ [e], JStop)
            else file_phase_tnum fuel c w' lowest' rest fend count' ps' (out ++ [e])
          else if stop then (out, JStop)
          else file_phase_tnum fuel c w lowest' rest fend count ps out
      end
  end.

(* Stream.Run over that file phase, for the stateless filters (default, custom): final blocks only is not concerned
   (c07_seamless_target_final never needed files_on_hub) *)
Definition stream_run_tnum (c : jcfg) (w : world) (ps : list (N * N)) (merged_end : N) (merged forked : list block) : list event * jerr :=
  let head := match hub_head (w_hub w) with Some (r, _) => rn r | None => 0 end in
  let start := abs_start (j_first c) (j_start c) head in
  if negb (j_stop c =? 0) && (j_stop c <? start) then ([], JInvalidArg) else
  let fuel := (40 * (length (w_rest w) + length merged + 20))%nat in
  match live_try c (w_hub w) start with
  | BOk burst => live_phase fuel c w burst 0 ps []
  | BFuel | BPanic => ([], JFuel)
  | BErr =>
      let stop_for_files := if j_stop c =? 0 then 1000000000000 else j_stop c in
      let '(fevs, r) :=
        if j_mode c =? 0 then (map (file_event SNewIrr) (file_delivery merged start stop_for_files (j_bundle c)), RsOk)
        else match j_cursor c with
             | None => ([], RsOk)
             | Some cu => if j_mode c =? 1 then from_cursor_run merged forked cu stop_for_files (j_bundle c)
                          else through_cursor_run merged forked start cu stop_for_files (j_bundle c)
             end in
      let fend := match r with
                  | RsOk => file_end c merged_end
                  | RsResolveErr => JInvalidArg
                  | RsNotImplemented => JOther
                  | RsFuel => JFuel end in
      file_phase_tnum fuel c w (hub_lowest (w_hub w)) fevs fend 0 ps []
  end.

(* Every hypothesis of C07_seamless_target_nu (target_on_chain too; default filter, no stop block), and with the join
   by number the delivered sequence breaks the discipline.  World of C07_join_by_number_refuted
   (Spec/C07_Unfixed_Spec.v): chain 2..20, the hub (LIB 13) sits on the fork 13 <- 114 <- 115 and becomes ready only after
   the files have delivered block 14; target cursor {New, block 8}; asked for "through the cursor from block NUMBER 15"
   the hub answers with the forked 115: delivered are
     5 ... 14, New 115 (parent 114 never delivered), Undo 115, Undo 114, New 14 (a second time), 15 ...
   The real code gave the same events.  On the same input the fixed model does not join there (the hub's block 15 is not
   the file's block 15) and delivers 15 from the files (Proofs/C07_TargetRefuted.v, tn_fixed_ok). *)
Definition C07_target_join_by_number_refuted : Prop :=
  exists (U : list block) (c : jcfg) (w : world) (ps : list (N * N)) (merged_end : N) (canon forked : list block)
         (cu : cursor) (B : block),
    let merged := filter (fun b => bnum b <? merged_end) canon in
    wf_b U = true /\ lib_ok_b LNone U = true /\ hub_of_universe U c w /\
    chain_ok canon /\ incl canon U /\
    eventual_tip c w canon /\ target_on_chain c w cu /\
    j_mode c = 2 /\ j_cursor c = Some cu /\ j_filter c = 0 /\ j_stop c = 0 /\ 0 < j_bundle c /\
    Forall (fun b => bnum b < file_bound) merged /\
    In B canon /\ bref B = cu_blk cu /\
    (exists b, In b canon /\ bnum b = run_start c w) /\
    cons_fold_aside cons0 (map as_new (fst (stream_run_tnum c w ps merged_end merged forked))) = None /\
    stream_run_tnum c w ps merged_end merged forked <> stream_run c w ps merged_end merged forked.
