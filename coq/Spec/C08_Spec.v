(* C08 — readable statement: hub subscriptions are atomic with block processing and independent of
   each other.

   Property text.  "Each subscription obtained from the hub receives, in order and exactly once, its
   initial burst followed by every event the hub produces afterwards, for every interleaving of
   subscription requests with block processing and with other subscription requests.  A subscriber
   that falls behind by more than its buffer is terminated with an error and never delays or alters
   delivery to the hub or to other subscribers."

   Reading.  The model (Model/HubSubs.v) has three atomic operations on the hub with its
   subscriptions: process one live block ([push_block]: the Forkable runs, every produced event is
   pushed to every registered subscription, a full one is dropped), serve one subscription request
   ([subscribe]: burst computed from the Forkable, subscription created with the burst queued and
   registered), and a consumer taking what is pending on subscription k ([drain_nth]).
   "Every interleaving" is every finite sequence of these operations ([op], [run]); a consumer that
   never reads is a sequence without its drain.

   Concurrency.  In the implementation these operations run on different goroutines.  They are atomic
   with respect to each other because (a) ProcessBlock holds the Forkable's RWMutex exclusively while
   the hub's processBlock handler fans the events out, (b) a subscription request computes its burst
   AND registers the subscription inside Forkable.CallWithBlocks*, i.e. while holding that RWMutex
   for reading, so no block is processed between the two, (c) concurrent registrations, which share
   the read lock, are serialised by the subscribers mutex (the fix recorded for C08), and (d)
   Subscription.push never blocks (capacity test, then a buffered channel send).  Every schedule of the
   goroutines is therefore equivalent to one sequence of the three operations, in the order in which
   they take the locks; the theorems below quantify over all such sequences.  Threads are not
   modelled here: that the locks give this atomicity rests on Go's sync semantics and is exercised
   by the concurrent mode of the C08 harness and the race detector.

   SCOPE (V2, finding W1-C08-2).  Part B takes the events of a pushed block from Model/Hub.v [hub_live],
   which reports them only while the hub is READY.  The real hub fans out every event of its Forkable,
   also before readiness.  The statements below hold for every start state sh0, but they describe the real
   hub only when sh0's hub is ready (then they coincide with the faithful ones: C08_all_ready_same).  The
   statements for ANY start state, with the events of Model/HubAll.v [hub_live_all], are in
   Spec/C08_All_Spec.v (theorems: Properties/C08_All.v); the argument itself is independent of which
   events a block produces (Spec/C08_Gen_Spec.v). *)
From BV Require Import Base.Prelude Model.Block Model.ForkDB Model.Forkable Model.ForkableLookups
  Model.Burst Model.Hub Model.HubSubs.
Local Open Scope N_scope.

(* ================================================================ common vocabulary *)

(* what the consumer of subscription k has taken so far is recorded next to the subscriptions *)
Fixpoint add_got (k : nat) (q : list qitem) (got : list (list qitem)) {struct got} : list (list qitem) :=
  match got with
  | [] => []
  | g :: rest => match k with O => (g ++ q) :: rest | S k' => g :: add_got k' q rest end
  end.

(* subscription i and what its consumer has taken *)
Definition view_at (subs : list msub) (got : list (list qitem)) (i : nat) : option (msub * list qitem) :=
  match nth_error subs i, nth_error got i with
  | Some s, Some g => Some (s, g)
  | _, _ => None
  end.

(* the subscription [subscribe] creates for a burst *)
Definition new_sub (burst : list qitem) : msub := mkSub burst (100 + N.of_nat (length burst)) false.

(* ================================================================ A. abstract event production *)

(* The per-push event lists are arbitrary inputs: "fan out this list of events".  Nothing of the
   fork-aware model is used. *)
Inductive aop :=
| AFan (evs : list event)        (* one block processed: these events, in this order *)
| ASub (burst : list qitem)      (* one request served with this burst *)
| ADrain (k : nat).              (* the consumer of subscription k takes everything pending *)

Record astate := mkA { a_subs : list msub; a_got : list (list qitem) }.

Definition astep (st : astate) (o : aop) : astate :=
  match o with
  | AFan evs => mkA (fold_left fan_out evs (a_subs st)) (a_got st)
  | ASub burst => mkA (a_subs st ++ [new_sub burst]) (a_got st ++ [[]])
  | ADrain k => let '(subs', q) := drain_nth k (a_subs st) in mkA subs' (add_got k q (a_got st))
  end.
Definition arun (st : astate) (ops : list aop) : astate := fold_left astep ops st.

Definition aview (st : astate) (i : nat) := view_at (a_subs st) (a_got st) i.
Definition awf (st : astate) : Prop := length (a_subs st) = length (a_got st).

(* everything fanned out by a sequence of operations *)
Definition fed (ops : list aop) : list qitem :=
  flat_map (fun o => match o with AFan evs => map QEv evs | _ => [] end) ops.

(* The subscription created by [ASub burst] after [pre], observed after [post]:
   - never dropped: taken ++ pending = burst ++ everything fanned out since, in order, once;
   - dropped: that happened at one event e of one later fan-out, exactly when the pending queue held
     capacity = 100 + |burst| items; e and everything after it is lost, everything before it is
     there: taken ++ pending is a prefix of the full sequence. *)
Definition C08_abs_exactly_once : Prop :=
  forall st0 pre burst post, awf st0 ->
    let i := length (a_subs (arun st0 pre)) in
    exists s got,
      aview (arun st0 (pre ++ ASub burst :: post)) i = Some (s, got) /\
      ms_cap s = 100 + N.of_nat (length burst) /\
      (ms_dropped s = false -> got ++ ms_queue s = burst ++ fed post) /\
      (ms_dropped s = true ->
         exists post1 evs1 e evs2 post2 s1 got1,
           post = post1 ++ AFan (evs1 ++ e :: evs2) :: post2 /\
           aview (arun st0 (pre ++ ASub burst :: post1)) i = Some (s1, got1) /\
           ms_dropped s1 = false /\
           N.of_nat (length (ms_queue s1 ++ map QEv evs1)) = ms_cap s1 /\
           got ++ ms_queue s = got1 ++ ms_queue s1 ++ map QEv evs1 /\
           got ++ ms_queue s = burst ++ fed post1 ++ map QEv evs1).

(* What one subscription sees is the run of a LONE subscriber over the fan-outs and its own drains:
   no other operation occurs in it. *)
Inductive sop := SFan (evs : list event) | SDrain.

Definition sub_push (s : msub) (e : event) : msub :=
  if ms_dropped s then s
  else if N.of_nat (length (ms_queue s)) =? ms_cap s then mkSub (ms_queue s) (ms_cap s) true
  else mkSub (ms_queue s ++ [QEv e]) (ms_cap s) false.

Definition sstep (v : msub * list qitem) (o : sop) : msub * list qitem :=
  match o with
  | SFan evs => (fold_left sub_push evs (fst v), snd v)
  | SDrain => (mkSub [] (ms_cap (fst v)) (ms_dropped (fst v)), snd v ++ ms_queue (fst v))
  end.
Definition srun (v : msub * list qitem) (ops : list sop) := fold_left sstep ops v.

Definition own (i : nat) (ops : list aop) : list sop :=
  flat_map (fun o => match o with
                     | AFan evs => [SFan evs]
                     | ASub _ => []
                     | ADrain k => if Nat.eqb k i then [SDrain] else []
                     end) ops.

Definition C08_abs_lone : Prop :=
  forall st0 pre burst post, awf st0 ->
    let i := length (a_subs (arun st0 pre)) in
    aview (arun st0 (pre ++ ASub burst :: post)) i = Some (srun (new_sub burst, []) (own i post)).

(* the drains of subscription j, at whatever moments, are invisible to every other subscription *)
Definition aerase (j : nat) (ops : list aop) : list aop :=
  filter (fun o => match o with ADrain k => negb (Nat.eqb k j) | _ => true end) ops.

Definition C08_abs_isolation : Prop :=
  forall st0 ops1 ops2 i j, i <> j -> aerase j ops1 = aerase j ops2 ->
    aview (arun st0 ops1) i = aview (arun st0 ops2) i.

(* ================================================================ B. the hub model *)

Inductive op :=
| OPush (b : block)          (* the live source hands block b to the hub *)
| OSub (r : sub_req)         (* SourceFromBlockNum / ...WithForks / FromCursor / ThroughCursor *)
| ODrain (k : nat).          (* the consumer of subscription k takes everything pending *)

Record hstate := mkHS { hs_sh : shub; hs_got : list (list qitem) }.

Definition step (first kept : N) (st : hstate) (o : op) : hstate :=
  match o with
  | OPush b => mkHS (fst (push_block first kept (hs_sh st) b)) (hs_got st)
  | OSub r => let '(sh', ok) := subscribe (hs_sh st) r in
              mkHS sh' (if ok then hs_got st ++ [[]] else hs_got st)
  | ODrain k => let '(subs', q) := drain_nth k (sh_subs (hs_sh st)) in
                mkHS (mkSH (sh_hub (hs_sh st)) subs') (add_got k q (hs_got st))
  end.
Definition run (first kept : N) (st : hstate) (ops : list op) : hstate := fold_left (step first kept) ops st.

(* any hub with any registered subscriptions, nothing taken yet *)
Definition start (sh : shub) : hstate := mkHS sh (map (fun _ => []) (sh_subs sh)).

Definition hview (st : hstate) (i : nat) := view_at (sh_subs (hs_sh st)) (hs_got st) i.

(* the hub alone: a function of the pushed blocks *)
Definition hub_push (first kept : N) (h : hub) (b : block) : hub * list event :=
  let '(h', evs, _) := hub_live first kept h (PBlocks []) b in (h', evs).

Fixpoint hub_after (first kept : N) (h : hub) (bs : list block) : hub :=
  match bs with
  | [] => h
  | b :: bs' => hub_after first kept (fst (hub_push first kept h b)) bs'
  end.

(* all events the hub produces for these blocks, in order *)
Fixpoint push_events (first kept : N) (h : hub) (bs : list block) : list event :=
  match bs with
  | [] => []
  | b :: bs' => snd (hub_push first kept h b) ++ push_events first kept (fst (hub_push first kept h b)) bs'
  end.

Definition pushes (ops : list op) : list block :=
  flat_map (fun o => match o with OPush b => [b] | _ => [] end) ops.

(* c08_exactly_once: for every operation sequence and every subscription created during it.
   h1 is the hub at the moment the request is served: a function of the blocks pushed before. *)
Definition C08_exactly_once : Prop :=
  forall first kept sh0 pre r post burst,
    let h1 := hub_after first kept (sh_hub sh0) (pushes pre) in
    request_burst h1 r = Some burst ->
    let i := length (sh_subs (hs_sh (run first kept (start sh0) pre))) in
    let expected := burst ++ map QEv (push_events first kept h1 (pushes post)) in
    exists s got,
      hview (run first kept (start sh0) (pre ++ OSub r :: post)) i = Some (s, got) /\
      ms_cap s = 100 + N.of_nat (length burst) /\
      (* not dropped: burst, then every later event, in order, exactly once *)
      (ms_dropped s = false -> got ++ ms_queue s = expected) /\
      (* dropped: at event e of a later push, with capacity-many items pending; a prefix was delivered *)
      (ms_dropped s = true ->
         exists post1 b post2 evs1 e evs2 s1 got1,
           post = post1 ++ OPush b :: post2 /\
           snd (hub_push first kept (hub_after first kept h1 (pushes post1)) b) = evs1 ++ e :: evs2 /\
           hview (run first kept (start sh0) (pre ++ OSub r :: post1)) i = Some (s1, got1) /\
           ms_dropped s1 = false /\
           N.of_nat (length (ms_queue s1 ++ map QEv evs1)) = ms_cap s1 /\
           got ++ ms_queue s = got1 ++ ms_queue s1 ++ map QEv evs1 /\
           got ++ ms_queue s = burst ++ map QEv (push_events first kept h1 (pushes post1)) ++ map QEv evs1 /\
           exists rest, expected = (got ++ ms_queue s) ++ rest).

(* a request the hub cannot serve ("no source") changes nothing *)
Definition C08_refused : Prop :=
  forall first kept st pre r post,
    request_burst (sh_hub (hs_sh (run first kept st pre))) r = None ->
    run first kept st (pre ++ OSub r :: post) = run first kept st (pre ++ post).

(* c08_isolation, hub side: the hub after any operation sequence, and the events of every push, are
   those of the hub alone fed with the pushed blocks: no subscription, no drain, no drop occurs in it *)
Definition C08_isolation_hub : Prop :=
  forall first kept st ops,
    sh_hub (hs_sh (run first kept st ops)) = hub_after first kept (sh_hub (hs_sh st)) (pushes ops) /\
    forall b, snd (push_block first kept (hs_sh (run first kept st ops)) b)
              = snd (hub_push first kept (hub_after first kept (sh_hub (hs_sh st)) (pushes ops)) b).

(* c08_isolation, subscriber side: two operation sequences that differ only in the drains of
   subscription j (never drained — so that it overflows and is dropped — or drained at other moments)
   give every other subscription i the same queue, the same dropped flag, the same taken items *)
Definition erase_drains (j : nat) (ops : list op) : list op :=
  filter (fun o => match o with ODrain k => negb (Nat.eqb k j) | _ => true end) ops.

Definition C08_isolation_subs : Prop :=
  forall first kept st ops1 ops2 i j, i <> j -> erase_drains j ops1 = erase_drains j ops2 ->
    hview (run first kept st ops1) i = hview (run first kept st ops2) i.

(* ... and is the run of a lone subscriber over the hub's events and its own drains *)
Fixpoint own_ops (first kept : N) (h : hub) (i : nat) (ops : list op) : list sop :=
  match ops with
  | [] => []
  | OPush b :: ops' => SFan (snd (hub_push first kept h b)) :: own_ops first kept (fst (hub_push first kept h b)) i ops'
  | OSub _ :: ops' => own_ops first kept h i ops'
  | ODrain k :: ops' => if Nat.eqb k i then SDrain :: own_ops first kept h i ops' else own_ops first kept h i ops'
  end.

Definition C08_lone : Prop :=
  forall first kept sh0 pre r post burst,
    let h1 := hub_after first kept (sh_hub sh0) (pushes pre) in
    request_burst h1 r = Some burst ->
    let i := length (sh_subs (hs_sh (run first kept (start sh0) pre))) in
    hview (run first kept (start sh0) (pre ++ OSub r :: post)) i
    = Some (srun (new_sub burst, []) (own_ops first kept h1 i post)).

(* c08_registration_atomic: a request served between the pushes of b1 and b2 gets its burst from
   exactly the hub state after b1 and, after the burst, all events of b2 *)
Definition C08_registration_atomic : Prop :=
  forall first kept sh0 pre b1 r b2 post burst,
    let st1 := run first kept (start sh0) (pre ++ [OPush b1]) in
    request_burst (sh_hub (hs_sh st1)) r = Some burst ->
    let st2 := run first kept st1 [OSub r] in
    let evs2 := snd (push_block first kept (hs_sh st2) b2) in
    let i := length (sh_subs (hs_sh st1)) in
    (* registered with its burst queued *)
    hview st2 i = Some (new_sub burst, []) /\
    (* right after the push of b2 *)
    (exists s2 got2,
       hview (run first kept st2 [OPush b2]) i = Some (s2, got2) /\
       (ms_dropped s2 = false -> got2 ++ ms_queue s2 = burst ++ map QEv evs2) /\
       ((length evs2 <= 100)%nat -> ms_dropped s2 = false)) /\
    (* and at any later moment *)
    (exists s got,
       hview (run first kept (start sh0) (pre ++ [OPush b1; OSub r; OPush b2] ++ post)) i = Some (s, got) /\
       (ms_dropped s = false -> exists later, got ++ ms_queue s = burst ++ map QEv evs2 ++ later)).
