(* C03 in DISCOVERY mode (addition to Spec/C03_Spec.v / Spec/C03_Moving_Spec.v): no LIB is configured and blocks are held
   until a LIB is known (holdBlocksUntilLIB: the way the ForkableHub configures its Forkable).  Property C03 itself
   quantifies over a Forkable "configured with a known LIB" (Check/Fk_Props_Check.c03_in_scope excludes LNone), and the
   reference fc_step of Spec/ForkChoice.v started from fc_init LNone is a pass-through reference (no hold).  What C03
   means for the hub's configuration is stated here with a reference that HOLDS:

   fcd_step: as long as no LIB is known the reference only records the blocks it receives (a block received before is
   ignored); the first new block b that is the first streamable block, or whose ancestry through received blocks contains
   a block a at the number b declares as LIB (a = b when b declares its own number), establishes the LIB a, becomes the
   tip, and a is the last final block; from then on the reference is fc_step (exclusive form) rooted at a, with every
   block received so far - the held ones included - counted as received. *)
From BV Require Import Base.Prelude Model.Block Model.ForkDB Model.Forkable Model.ForkableLookups
  Spec.Consumer Spec.Universe Spec.ForkChoice Spec.C01_Spec Spec.C01_Moving_Spec Spec.C01_Roots_Spec Spec.C03_Spec
  Check.Fk_Check Check.Fk_Props_Check.
Local Open Scope N_scope.

Definition fcd_step (first : N) (alltrig : bool) (s : fc_state) (b : block) : fc_state :=
  if ri (fc_lib s) =? 0 then
    match lookup (bid b) (fc_recv s) with
    | Some _ => s
    | None =>
        let recv := b :: fc_recv s in
        if bnum b =? first then mkFC recv (bref b) (Some b) (Some b)
        else match ancestor_at (S (length recv)) recv b (blib b) with
             | Some a => mkFC recv (bref a) (Some b) (Some a)
             | None => mkFC recv ref_empty None None
             end
    end
  else fc_step first false alltrig s b.

(* ---------------------------------------------------------------- the clauses of C03 over an arbitrary reference step *)

Fixpoint c03g_follows (step : fc_state -> block -> fc_state) (firr : bool) (lib : N) (fc : fc_state) (st : cstack)
         (fin : option block) (h : list block) (t : trace) : Prop :=
  match h, t with
  | b :: h', (evs, _) :: t' =>
      let fc' := step fc b in
      exists st', apply_all lib st evs = Some st' /\ hd_error st' = fc_tip fc' /\ on_path lib st' /\
                  (firr = true -> last_final fin evs = fc_final fc') /\
                  c03g_follows step firr lib fc' st' (last_final fin evs) h' t'
  | _, _ => True
  end.

Fixpoint c03g_noise (step : fc_state -> block -> fc_state) (fc : fc_state) (h : list block) (t : trace) : Prop :=
  match h, t with
  | b :: h', (evs, _) :: t' =>
      let fc' := step fc b in
      (fc_tip fc' = fc_tip fc -> fc_lib fc' = fc_lib fc -> evs = []) /\ c03g_noise step fc' h' t'
  | _, _ => True
  end.

(* the reported head after every call is the reference tip *)
Fixpoint c03g_heads (step : fc_state -> block -> fc_state) (fc : fc_state) (h : list block) (os : list obs) : Prop :=
  match h, os with
  | b :: h', o :: os' =>
      let fc' := step fc b in
      o_head o = match fc_tip fc' with Some x => Some (bref x, blib x) | None => None end /\ c03g_heads step fc' h' os'
  | _, _ => True
  end.

(* FULL STRENGTH for the discovery mode (PROVED: Properties/C03_Disc.c03_discovery, Proofs/C03_DiscFull.v; the earlier partial
   form c03_discovery_statement is kept below): the conclusion clauses
   of c03_moving_lib_roots_statement against the holding reference fcd_step, the root of the consumer being the LIB the
   stream itself names (root_lib LNone = the cursor LIB of the first delivered event) *)
Definition c03_discovery_full : Prop :=
  forall cfg h,
    c_hold cfg = true -> c_incl cfg = false -> c_fail_at cfg = None ->
    f_new (c_filter cfg) = true -> f_undo (c_filter cfg) = true ->
    disc_scope2_b h = true ->
    let step := fcd_step (c_first cfg) (c_alltrig cfg) in
    let t := fk_run cfg (fs_init LNone) h in
    let lib := root_lib LNone t in
    c03g_follows step (f_irr (c_filter cfg)) lib (fc_init LNone) [] None h t /\
    c03g_heads step (fc_init LNone) h (fk_obs cfg (fs_init LNone) h) /\
    c03g_noise step (fc_init LNone) h t /\
    c03_retention_statement cfg LNone h /\
    (forall h1 b h2, h = h1 ++ b :: h2 ->
       let fc := fold_left step h1 (fc_init LNone) in
       step fc b = fc ->
       let T := fk_run cfg (fs_init LNone) (h1 ++ h2) in
       fk_run cfg (fs_init LNone) (h1 ++ b :: h2) = firstn (length h1) T ++ ([], ROk) :: skipn (length h1) T).

(* ---------------------------------------------------------------- the part that is proved *)

(* `seen` = the blocks fed before (newest first).  Every call returns normally.  As long as no LIB is known a call
   delivers NOTHING and the Forkable reports no head.  The first call that delivers something is the establishing call:
   for its LIB block a - the incoming block b itself, or a lower block received before - the events are accepted by the
   consumer rooted at a, leave it on the parent path from a to b with b on top, b is the reported head, a is the last
   block announced final (when Irreversible steps are delivered); and FROM THEN ON the run satisfies the clauses
   c03_follows and c03_noise of Spec/C03_Spec.v against the reference fc_step of Spec/ForkChoice.v rooted at a, started
   with tip b, last final a and EVERY block fed so far (the held ones included) as received. *)
Fixpoint c03d_run (cfg : config) (seen : list block) (h : list block) (t : trace) (os : list obs) : Prop :=
  match h, t, os with
  | [], [], [] => True
  | b :: h', (evs, r) :: t', o :: os' =>
      (r = ROk /\ evs = [] /\ o_events o = [] /\ o_head o = None /\ c03d_run cfg (b :: seen) h' t' os') \/
      (exists a st',
         (a = b \/ (In a seen /\ bnum a < bnum b)) /\
         r = ROk /\ o_events o = evs /\ o_head o = Some (bref b, blib b) /\
         (exists e rest, evs = e :: rest /\ elib e = bref a) /\
         apply_all (bid a) [] evs = Some st' /\ hd_error st' = Some b /\ on_path (bid a) st' /\
         last_final None evs = (if f_irr (c_filter cfg) then Some a else None) /\
         let fc1 := mkFC (b :: seen) (bref a) (Some b) (Some a) in
         c03_follows cfg (bid a) fc1 st' (last_final None evs) h' t' /\
         c03_noise cfg fc1 h' t')
  | _, _, _ => False
  end.

(* the earlier partial form (W2; c03_discovery_full above is now proved): relative to c03_discovery_full it does not say that the establishing call and its LIB block are the ones the
   holding reference fcd_step picks (the call is read off the run: the first one that delivers something; that its LIB
   block is b itself or a lower block received before is proved, that it sits at the number b declares is not), and the
   retention and noise-deletion clauses are not proved across the discovery *)
Definition c03_discovery_statement : Prop :=
  forall cfg h,
    c_hold cfg = true -> c_incl cfg = false -> c_fail_at cfg = None ->
    f_new (c_filter cfg) = true -> f_undo (c_filter cfg) = true ->
    disc_scope2_b h = true ->
    c03d_run cfg [] h (fk_run cfg (fs_init LNone) h) (fk_obs cfg (fs_init LNone) h).
