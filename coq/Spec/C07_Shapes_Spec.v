(* C07 / C13 over whole runs, every step filter and every stop block: the shape of a run of Model/Joining.stream_run.

   Whatever the handler chain (step filter, stop block), a run of stream_run is the handler chain applied to ONE
   raw sequence X of events that the file source and the hub hand to it, and X has one of three shapes that do not
   depend on the filter or on the stop block:
     - live from the start:   X = burst ++ (events of the first k arrivals),  burst = the hub's answer at the start;
     - files, then the join:  X = pre ++ burst ++ (events of k arrivals after the join), the file events being
                              pre ++ e :: rest, e the joining event (never handed to the chain), burst the hub's
                              answer for e in the world after m arrivals;
     - files only:            X = the file events.
   The chain delivers `delivered c X` (no stop reached), or `fst (upto_stop c X)` and ends with stop-block-reached.
   Final blocks only: the filter is stateful (fix "each final block once", Model/Joining.chain_fin): it drops a passing
   event numbered at or below the last one it forwarded; the chain then runs over `undup c (start_mem c) X`, X without the
   events the filter's memory drops (`seen c X`).
   This is C13's "filters only remove ... in unchanged order" and "stop block" clauses over whole runs for EVERY
   filter, stop block, mode, world and schedule (no hypothesis), and the basis of the C07 theorems for non-default
   filters and stop blocks (Spec/C07_More_Spec.v): the discipline is a property of X. *)
From BV Require Import Base.Prelude Model.Block Model.ForkDB Model.Forkable Model.ForkableLookups
  Model.Burst Model.Hub Model.CursorResolver Model.Joining
  Spec.C07_Spec Spec.C07_Compose_Spec.
Local Open Scope N_scope.

(* the file side of stream_run: the events out of the file source (after the cursor resolver) and how it ends *)
Definition run_files (c : jcfg) (start merged_end : N) (merged forked : list block) : list event * jerr :=
  let stop_for_files := if j_stop c =? 0 then 1000000000000 else j_stop c in
  let '(fevs, r) :=
    if j_mode c =? 0 then (map (file_event SNewIrr) (file_delivery merged start stop_for_files (j_bundle c)), RsOk)
    else match j_cursor c with
         | None => ([], RsOk)
         | Some cu => if j_mode c =? 1 then from_cursor_run merged forked cu stop_for_files (j_bundle c)
                      else through_cursor_run merged forked start cu stop_for_files (j_bundle c)
         end in
  (fevs,
   match r with
   | RsOk => file_end c merged_end
   | RsResolveErr => JInvalidArg
   | RsNotImplemented => JOther
   | RsFuel => JFuel
   end).

(* final blocks only: what the stateful filter (Model/Joining.chain_fin) lets reach the rest of the chain; lf = the
   number of the last event it forwarded *)
Fixpoint undup (c : jcfg) (lf : option N) (l : list event) : list event :=
  match l with
  | [] => []
  | e :: l' =>
      if filter_pass c (estep e) then
        if match lf with Some n => bnum (eblk e) <=? n | None => false end then undup c lf l'
        else e :: undup c (Some (bnum (eblk e))) l'
      else undup c lf l'
  end.

(* the part of a raw sequence the handler chain of c works on *)
Definition seen (c : jcfg) (X : list event) : list event := if j_filter c =? 1 then undup c (start_mem c) X else X.

(* the argument checks of Stream.Run *)
Definition run_rejected (c : jcfg) (w : world) : bool :=
  (negb (j_stop c =? 0) && (j_stop c <? run_start c w)) ||
  ((j_filter c =? 1) && match (if j_mode c =? 0 then None else j_cursor c) with
                        | Some cu => negb (on_final_block cu) | None => false end).

(* the handler chain over the raw sequence X; `complete`: nothing is left to arrive *)
Definition raw_out (c : jcfg) (X : list event) (res : list event * jerr) (complete : Prop) : Prop :=
  match snd res with
  | JNil => complete /\ snd (upto_stop c X) = false /\ fst res = delivered c X
  | JStop => snd (upto_stop c X) = true /\ fst res = fst (upto_stop c X)
  | JFuel => exists X1 X2, X = X1 ++ X2 /\ snd (upto_stop c X1) = false /\ fst res = delivered c X1
  | _ => False
  end.

(* files only: the chain over the file events, ending as the file source ends unless the stop block is reached *)
Definition files_out (c : jcfg) (fevs : list event) (fend : jerr) (res : list event * jerr) : Prop :=
  (snd (upto_stop c fevs) = false /\ res = (delivered c fevs, fend)) \/
  (snd (upto_stop c fevs) = true /\ res = (fst (upto_stop c fevs), JStop)).

Definition C07_run_shapes : Prop :=
  forall (c : jcfg) (w : world) (ps : list (N * N)) (merged_end : N) (merged forked : list block),
    let res := stream_run c w ps merged_end merged forked in
    let start := run_start c w in
    let fevs := fst (run_files c start merged_end merged forked) in
    let fend := snd (run_files c start merged_end merged forked) in
    (run_rejected c w = true /\ res = ([], JInvalidArg)) \/
    (run_rejected c w = false /\
     ((* live from the start *)
      (exists burst k, live_try c (w_hub w) start = BOk burst /\
         raw_out c (seen c (burst ++ pushed c k w)) res (w_rest (world_after c k w) = [])) \/
      (* the hub's lookup gave up (model artefact: fuel of the burst functions) *)
      ((live_try c (w_hub w) start = BFuel \/ live_try c (w_hub w) start = BPanic) /\ res = ([], JFuel)) \/
      (live_try c (w_hub w) start = BErr /\
       ((* files, then the join on the file event e in the world after m arrivals *)
        (exists pre e rest m lowest burst k,
           fevs = pre ++ e :: rest /\ snd (upto_stop c (seen c pre)) = false /\
           join_try c (world_after c m w) lowest e = Some burst /\
           raw_out c (seen c (pre ++ burst ++ pushed c k (world_after c m w))) res
                   (w_rest (world_after c k (world_after c m w)) = [])) \/
        (* files only *)
        files_out c (seen c fevs) fend res)))).
