(* Block universes: parent walks over a finite set of blocks and the LIB-declaration class
   `lib_ok` that C02-C04, C18 quantify over. *)
From BV Require Import Base.Prelude Model.Block Model.Forkable.
Local Open Scope N_scope.

Fixpoint lookup (id : N) (U : list block) : option block :=
  match U with
  | [] => None
  | b :: U' => if bid b =? id then Some b else lookup id U'
  end.

(* b, parent of b, ... as long as the parent is in U; newest first *)
Fixpoint chain_of (fuel : nat) (U : list block) (b : block) : list block :=
  match fuel with
  | O => [b]
  | S f => match lookup (bparent b) U with
           | Some p => b :: chain_of f U p
           | None => [b]
           end
  end.

Definition chain (U : list block) (b : block) : list block := chain_of (length U) U b.

(* heights strictly increase from parent to child; ids non-empty; no block is its own parent;
   one block per id *)
Definition wf_block (U : list block) (b : block) : bool :=
  negb (bid b =? 0) && negb (bid b =? bparent b) &&
  match lookup (bparent b) U with Some p => bnum p <? bnum b | None => true end &&
  match lookup (bid b) U with Some b' => block_eqb b b' | None => false end.
Definition wf_b (U : list block) : bool := forallb (wf_block U) U.

(* LIB declarations: the declared number is the height of the block itself or of one of its
   ancestors in U, or lies at/below the oldest point known on its branch (the starting LIB when the
   branch hangs under it); declarations never decrease from parent to child *)
Definition lib_ok_block (root : option ref) (U : list block) (b : block) : bool :=
  let ch := chain U b in
  let bottom := last ch b in
  (existsb (fun a => bnum a =? blib b) ch
   || match root with
      | Some r => if bparent bottom =? ri r then blib b <=? rn r else blib b <? bnum bottom
      | None => blib b <? bnum bottom
      end)
  && match lookup (bparent b) U with Some p => blib p <=? blib b | None => true end.

Definition mode_root (m : libmode) : option ref :=
  match m with LExcl r | LIncl r => Some r | LNone => None end.

Definition lib_ok_b (m : libmode) (U : list block) : bool := forallb (lib_ok_block (mode_root m) U) U.
