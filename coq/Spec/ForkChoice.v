(* C03: the reference fork choice.  It mentions neither link maps, caches, sent flags nor purging:
   it keeps the blocks received, the LIB and the tip. *)
From BV Require Import Base.Prelude Model.Block Model.Forkable Spec.Universe.
Local Open Scope N_scope.

Record fc_state := mkFC {
  fc_recv : list block;
  fc_lib : ref;
  fc_tip : option block;
  fc_final : option block      (* last block the consumer saw announced final *)
}.

Definition fc_init (m : libmode) : fc_state :=
  match m with
  | LExcl r | LIncl r => mkFC [] r None None
  | LNone => mkFC [] ref_empty None None
  end.

(* does b link back to the LIB through received blocks, never passing below the LIB height *)
Fixpoint links_to_lib (fuel : nat) (first : N) (recv : list block) (lib : ref) (b : block) : bool :=
  match fuel with
  | O => false
  | S f =>
      if (first <? bnum b) && (bnum b <? rn lib) then false
      else if bparent b =? ri lib then true
      else match lookup (bparent b) recv with
           | Some p => links_to_lib f first recv lib p
           | None => false
           end
  end.

(* the ancestor-or-self of b at height h among received blocks *)
Fixpoint ancestor_at (fuel : nat) (recv : list block) (b : block) (h : N) : option block :=
  match fuel with
  | O => None
  | S f =>
      if bnum b =? h then Some b
      else if bnum b <? h then None
      else match lookup (bparent b) recv with
           | Some p => ancestor_at f recv p h
           | None => None
           end
  end.

Definition fc_step (first : N) (incl alltrig : bool) (s : fc_state) (b : block) : fc_state :=
  let has_tip := match fc_tip s with Some _ => true | None => false end in
  if (bnum b <? rn (fc_lib s)) && has_tip then s else
  if incl && negb has_tip && (bid b =? ri (fc_lib s)) then
    mkFC (b :: fc_recv s) (fc_lib s) (Some b) (Some b)
  else
  match lookup (bid b) (fc_recv s) with
  | Some _ => s                                          (* not new to the stream *)
  | None =>
      let recv := b :: fc_recv s in
      let trig := alltrig || match fc_tip s with None => true | Some t => bnum t <? bnum b end in
      if trig && negb (bid b =? ri (fc_lib s)) && links_to_lib (S (length recv)) first recv (fc_lib s) b then
        match ancestor_at (S (length recv)) recv b (blib b) with
        | Some a => if rn (fc_lib s) <? bnum a
                    then mkFC recv (bref a) (Some b) (Some a)
                    else mkFC recv (fc_lib s) (Some b) (fc_final s)
        | None => mkFC recv (fc_lib s) (Some b) (fc_final s)
        end
      else mkFC recv (fc_lib s) (fc_tip s) (fc_final s)
  end.
