(* C08, schedule part — the statements of Spec/C08_Sched_Spec.v for an ARBITRARY event production
   function hp (Model/HubAll.v [hprod]; Model/HubSchedG.v is Model/HubSched.v with the producer's Forkable
   step = hp).  See Spec/C08_Gen_Spec.v for the reason (finding W1-C08-2: [hub_live] reports no event
   before readiness, the real hub fans out every event of its Forkable).  Types, the serial states,
   [xok], [xstart], [xview], [blocks], [fans], the lone-subscriber machine, [sview], [ops_of], the lock
   predicates, [keeps], [finished] are those of Spec/C08_Sched_Spec.v; only what mentions the events of a
   block is restated.  Proved for every hp in Proofs/C08G_Sched*.v. *)
From BV Require Import Base.Prelude Model.Block Model.ForkDB Model.Forkable Model.ForkableLookups
  Model.Burst Model.Hub Model.HubSubs Model.HubAll Model.HubSched Model.HubSchedG
  Spec.C08_Spec Spec.C08_Gen_Spec Spec.C08_Sched_Spec.
Local Open Scope N_scope.

(* ================================================================ 1. the serial machine *)

Definition xstep_g (hp : hprod) (st : xstate) (o : xop) : xstate :=
  match o with
  | XBlock b =>
      let '(h', evs) := hp (sh_hub (x_sh st)) b in
      mkX (mkSH h' (sh_subs (x_sh st))) (x_got st) (x_pend st ++ evs)
  | XFan e =>
      mkX (mkSH (sh_hub (x_sh st)) (fan_out (sh_subs (x_sh st)) e)) (x_got st) (tl (x_pend st))
  | XSub r =>
      let '(sh', ok) := subscribe (x_sh st) r in
      mkX sh' (if ok then x_got st ++ [[]] else x_got st) (x_pend st)
  | XRecv k =>
      let '(subs', q) := recv_nth k (sh_subs (x_sh st)) in
      mkX (mkSH (sh_hub (x_sh st)) subs') (add_got k q (x_got st)) (x_pend st)
  end.

Definition xrun_g (hp : hprod) (st : xstate) (ops : list xop) : xstate :=
  fold_left (xstep_g hp) ops st.

Fixpoint xvalid_g (hp : hprod) (st : xstate) (ops : list xop) : Prop :=
  match ops with
  | [] => True
  | o :: ops' => xok st o /\ xvalid_g hp (xstep_g hp st o) ops'
  end.

(* ================================================================ 2. theorems about serial sequences
   (the theorems of Spec/C08_Spec.v again, for the finer operations) *)

(* the hub, the events fanned out and the events pending are those of the hub alone fed with the
   blocks: no request, no receive, no drop occurs in them *)
Definition C08_serial_hub_g (hp : hprod) : Prop :=
  forall sh0 ops,
    xvalid_g hp (xstart sh0) ops ->
    let st := xrun_g hp (xstart sh0) ops in
    sh_hub (x_sh st) = hub_after_g hp (sh_hub sh0) (blocks ops) /\
    fans ops ++ x_pend st = push_events_g hp (sh_hub sh0) (blocks ops).

(* what a subscription has is the run_g of a lone subscriber over the events fanned out since its
   registration and its own receives *)
Definition C08_serial_lone_g (hp : hprod) : Prop :=
  forall sh0 pre r post burst,
    let x1 := xrun_g hp (xstart sh0) pre in
    request_burst (sh_hub (x_sh x1)) r = Some burst ->
    let i := length (sh_subs (x_sh x1)) in
    xview (xrun_g hp (xstart sh0) (pre ++ XSub r :: post)) i
    = Some (lrun (new_sub burst, []) (lown i post)).

(* exactly once, in order: received ++ pending = burst ++ every event fanned out since, while not
   dropped; a drop happens at one XFan that finds capacity = 100 + |burst| items pending, and leaves a
   prefix *)
Definition C08_serial_exactly_once_g (hp : hprod) : Prop :=
  forall sh0 pre r post burst,
    let x1 := xrun_g hp (xstart sh0) pre in
    request_burst (sh_hub (x_sh x1)) r = Some burst ->
    let i := length (sh_subs (x_sh x1)) in
    exists s got,
      xview (xrun_g hp (xstart sh0) (pre ++ XSub r :: post)) i = Some (s, got) /\
      ms_cap s = 100 + N.of_nat (length burst) /\
      (ms_dropped s = false -> got ++ ms_queue s = burst ++ map QEv (fans post)) /\
      (ms_dropped s = true ->
         exists post1 e post2 s1 got1,
           post = post1 ++ XFan e :: post2 /\
           xview (xrun_g hp (xstart sh0) (pre ++ XSub r :: post1)) i = Some (s1, got1) /\
           ms_dropped s1 = false /\
           N.of_nat (length (ms_queue s1)) = ms_cap s1 /\
           got ++ ms_queue s = got1 ++ ms_queue s1 /\
           got ++ ms_queue s = burst ++ map QEv (fans post1)).

Definition C08_serial_isolation_g (hp : hprod) : Prop :=
  forall st ops1 ops2 i j, i <> j -> xerase j ops1 = xerase j ops2 ->
    xview (xrun_g hp st ops1) i = xview (xrun_g hp st ops2) i.

(* the sequences of Spec/C08_Spec.v are the special case: a block with its fan-outs contiguous, a
   drain as that many receives *)
Fixpoint embed_g (hp : hprod) (st : hstate) (ops : list op) : list xop :=
  match ops with
  | [] => []
  | o :: ops' =>
      (match o with
       | OPush b => XBlock b :: map XFan (snd (hp (sh_hub (hs_sh st)) b))
       | OSub r => [XSub r]
       | ODrain k => repeat (XRecv k)
                       (match nth_error (sh_subs (hs_sh st)) k with Some s => length (ms_queue s) | None => O end)
       end) ++ embed_g hp (step_g hp st o) ops'
  end.

Definition C08_seq_embeds_g (hp : hprod) : Prop :=
  forall sh0 ops,
    let xops := embed_g hp (start sh0) ops in
    let st := run_g hp (start sh0) ops in
    xvalid_g hp (xstart sh0) xops /\
    xrun_g hp (xstart sh0) xops = mkX (hs_sh st) (hs_got st) [].

(* ================================================================ 3. schedules *)

Definition reachable_g (hp : hprod) (h0 : hub) (script : list block) (reqs : list sub_req) (st : cstate) : Prop :=
  exists sched, st = crun_g true hp (cinit h0 script reqs) sched.

(* what the producer does for a script, from hub state h *)
Fixpoint prod_program_g (hp : hprod) (h : hub) (script : list block) : list xop :=
  match script with
  | [] => []
  | b :: rest => XBlock b :: map XFan (snd (hp h b))
                 ++ prod_program_g hp (fst (hp h b)) rest
  end.

Definition program_order_g (hp : hprod) (h0 : hub) (script : list block) (st : cstate) : Prop :=
  let l := serial st in
  (* the producer: block after block in script order, each followed by its events in order *)
  (exists rest, prod_program_g hp h0 script = ops_of TProd l ++ rest) /\
  (* a requester: its one request, once appended (or refused) *)
  (forall i, ops_of (TReq i) l =
             match nth_error (g_reqs st) i with
             | Some c => if linearized c then [XSub (r_req c)] else []
             | None => []
             end) /\
  (* a consumer: one receive on its own subscription per item received *)
  (forall i, ops_of (TCons i) l = repeat (XRecv (index_of i (g_order st))) (length (got_at st i))).

(* c08_sched_serializable *)
Definition C08_sched_serializable_g (hp : hprod) : Prop :=
  forall h0 script reqs sched,
    let st := crun_g true hp (cinit h0 script reqs) sched in
    let ops := map snd (serial st) in
    xvalid_g hp (xstart (mkSH h0 [])) ops /\
    xrun_g hp (xstart (mkSH h0 [])) ops = sview st /\
    program_order_g hp h0 script st.

(* ---------------------------------------------------------------- the lock invariants *)

(* the producer's critical section excludes every requester's; two requesters are never both between
   subscribersLock.Lock() and Unlock(); and while the producer is inside, the mutex is free *)
Definition C08_sched_mutual_exclusion_g (hp : hprod) : Prop :=
  forall h0 script reqs st, reachable_g hp h0 script reqs st ->
    (in_write_cs st = true ->
       g_mutex st = None /\ forall i c, nth_error (g_reqs st) i = Some c -> in_read_cs c = false) /\
    (forall i j ci cj, nth_error (g_reqs st) i = Some ci -> nth_error (g_reqs st) j = Some cj ->
       in_mutex_cs ci = true -> in_mutex_cs cj = true -> i = j).

(* "burst + append" is atomic with respect to the producer: from the lookup to the return of
   SourceFromXxx the burst held by the requester is the burst of the CURRENT hub state, and no event
   is pending or in flight *)
Definition C08_sched_burst_append_atomic_g (hp : hprod) : Prop :=
  forall h0 script reqs st i c, reachable_g hp h0 script reqs st ->
    nth_error (g_reqs st) i = Some c -> in_read_cs c = true ->
    in_write_cs st = false /\ pend_of st = [] /\
    match r_pc c with
    | RLocked => r_sub c = None
    | RHook | RMutex | RRead _ | RWritten =>
        exists burst, request_burst (g_hub st) (r_req c) = Some burst /\
                      r_sub c = Some (new_sub burst) /\ r_got c = []
    | _ => True
    end.

Definition C08_sched_no_lost_registration_g (hp : hprod) : Prop :=
  forall h0 script reqs st, reachable_g hp h0 script reqs st ->
    g_subs st = filter (keeps st) (g_order st) /\
    NoDup (g_order st) /\
    forall i c, nth_error (g_reqs st) i = Some c ->
      (In i (g_order st) <-> linearized c = true /\ r_sub c <> None).

(* ---------------------------------------------------------------- the property, per schedule *)

(* c08_sched_registration_atomic + c08_sched_exactly_once: the requester registered as p-th
   subscription.  Its XSub splits the serialisation into pre / post: the blocks of pre are a prefix of
   the script and ALL their events were fanned out before the registration (none of a later block);
   its burst is the burst of the hub after exactly these blocks; what its consumer received followed
   by what is queued is the burst followed by every event fanned out since, in order, exactly once,
   and these are the hub's events for the following blocks of the script. *)
Definition C08_sched_registration_atomic_g (hp : hprod) : Prop :=
  forall h0 script reqs sched p i,
    let st := crun_g true hp (cinit h0 script reqs) sched in
    nth_error (g_order st) p = Some i ->
    exists c pre post burst rest,
      nth_error (g_reqs st) i = Some c /\
      map snd (serial st) = pre ++ XSub (r_req c) :: post /\
      length (sh_subs (x_sh (xrun_g hp (xstart (mkSH h0 [])) pre))) = p /\
      script = blocks pre ++ blocks post ++ rest /\
      let h1 := hub_after_g hp h0 (blocks pre) in
      request_burst h1 (r_req c) = Some burst /\
      fans pre = push_events_g hp h0 (blocks pre) /\
      fans post ++ pend_of st = push_events_g hp h1 (blocks post).

Definition C08_sched_exactly_once_g (hp : hprod) : Prop :=
  forall h0 script reqs sched p i,
    let st := crun_g true hp (cinit h0 script reqs) sched in
    nth_error (g_order st) p = Some i ->
    exists c pre post burst,
      nth_error (g_reqs st) i = Some c /\
      map snd (serial st) = pre ++ XSub (r_req c) :: post /\
      request_burst (hub_after_g hp h0 (blocks pre)) (r_req c) = Some burst /\
      let s := sub_done st i in
      let x0 := xstart (mkSH h0 []) in
      ms_cap s = 100 + N.of_nat (length burst) /\
      (ms_dropped s = false -> r_got c ++ ms_queue s = burst ++ map QEv (fans post)) /\
      (ms_dropped s = true ->
         exists post1 e post2 s1 got1,
           post = post1 ++ XFan e :: post2 /\
           xview (xrun_g hp x0 (pre ++ XSub (r_req c) :: post1)) p = Some (s1, got1) /\
           ms_dropped s1 = false /\
           N.of_nat (length (ms_queue s1)) = ms_cap s1 /\
           r_got c ++ ms_queue s = burst ++ map QEv (fans post1)).

(* c08_sched_isolation: what subscription p has after the schedule is what it has in the serial
   execution from which every receive of another subscription q is removed (its consumer never
   reads, and it is dropped when its channel fills up) *)
Definition C08_sched_isolation_g (hp : hprod) : Prop :=
  forall h0 script reqs sched p q i,
    let st := crun_g true hp (cinit h0 script reqs) sched in
    nth_error (g_order st) p = Some i -> p <> q ->
    xview (xrun_g hp (xstart (mkSH h0 [])) (xerase q (map snd (serial st)))) p
    = Some (sub_done st i, got_at st i).

(* ---------------------------------------------------------------- progress *)

(* c08_sched_no_deadlock: some thread can take a step_g unless the producer has processed its script,
   every request has returned and every channel is empty.  The producer is never blocked by a
   subscriber: inside its critical section its next step_g is always enabled (push does not wait, the
   mutex is free); waiting for the write lock it is enabled as soon as no reader is inside, and
   otherwise a requester inside is enabled. *)
Definition C08_sched_no_deadlock_g (hp : hprod) : Prop :=
  forall h0 script reqs st, reachable_g hp h0 script reqs st ->
    (finished st \/ exists t, cstep_g true hp st t <> st) /\
    (in_write_cs st = true -> cstep_g true hp st TProd <> st) /\
    (g_ppc st = PIdle -> g_script st <> [] -> cstep_g true hp st TProd <> st) /\
    (forall b, g_ppc st = PWait b ->
       (g_readers st = O -> cstep_g true hp st TProd <> st) /\
       (g_readers st <> O -> exists i c, nth_error (g_reqs st) i = Some c /\ in_read_cs c = true /\
                                         cstep_g true hp st (TReq i) <> st)).

(* "never alters delivery to the hub": after every schedule the blocks processed are a prefix of the
   script, the hub is the hub alone fed with them, and the events fanned out or still pending are its
   events, in order: no subscription, receive or drop occurs in them *)
Definition C08_sched_hub_unaffected_g (hp : hprod) : Prop :=
  forall h0 script reqs sched,
    let st := crun_g true hp (cinit h0 script reqs) sched in
    let ops := map snd (serial st) in
    (exists rest, script = blocks ops ++ rest) /\
    g_hub st = hub_after_g hp h0 (blocks ops) /\
    fans ops ++ pend_of st = push_events_g hp h0 (blocks ops).

(* end to end: once everything has finished (script processed, every request returned, every channel
   drained) a registered subscription that was not dropped has received exactly its burst — the
   burst of the hub after the blocks [before] its registration — followed by every event of every
   later block of the script; a dropped one a strict prefix of that *)
Definition C08_sched_complete_delivery_g (hp : hprod) : Prop :=
  forall h0 script reqs sched p i,
    let st := crun_g true hp (cinit h0 script reqs) sched in
    finished st -> nth_error (g_order st) p = Some i ->
    exists c s before after burst,
      nth_error (g_reqs st) i = Some c /\ r_sub c = Some s /\
      script = before ++ after /\
      let h1 := hub_after_g hp h0 before in
      request_burst h1 (r_req c) = Some burst /\
      (ms_dropped s = false -> r_got c = burst ++ map QEv (push_events_g hp h1 after)) /\
      (ms_dropped s = true ->
         exists evs1 e evs2, push_events_g hp h1 after = evs1 ++ e :: evs2 /\
                             r_got c = burst ++ map QEv evs1).
