(* C02 — finality is sound, ordered, gap-free, never revoked; stalled blocks are dead: statements.
   Model: Model/Forkable.v (fk_step / fk_run); monitor: fin_mon / c02_b of Spec/Consumer.v. *)
From BV Require Import Base.Prelude Model.Block Model.ForkDB Model.Forkable Spec.Consumer Spec.Universe Spec.C01_Spec.
Local Open Scope N_scope.

(* the finality monitor accepts the run: Irreversible events form a gap-free parent-linked chain
   extending the starting LIB, each is the oldest pending block of the consumer's chain and lies at or
   below the LIB number declared by the incoming block, none is later undone or reported stalled;
   Stalled blocks are never on the consumer's chain, never final, at or below the final height, and
   reported once *)
Definition c02_statement (cfg : config) (m : libmode) (h : list block) : Prop :=
  c02_b m h (fk_run cfg (fs_init m) h) = true.

Definition c02_scope (cfg : config) (m : libmode) (h : list block) : Prop :=
  (match m with LNone => c_hold cfg = true | _ => True end) /\
  f_new (c_filter cfg) = true /\ f_undo (c_filter cfg) = true /\ f_irr (c_filter cfg) = true /\
  wf_b h = true /\ lib_ok_b m h = true.

(* FULL STRENGTH: stated, not proved; the checker c02_prop evaluates exactly this monitor on the
   implementation's observation of every generated history *)
Definition c02_full : Prop := forall cfg m h, c02_scope cfg m h -> c02_statement cfg m h.

(* The degenerate part that is proved: with an exclusive starting LIB that the history never moves
   (class of c01_fixed_lib_statement) no finality event is ever produced: every delivered event is New
   or Undo, whatever the filter, hence the monitor accepts. *)
Definition no_finality_events (t : trace) : Prop :=
  Forall (fun x : list event * result => Forall (fun e => estep e = SNew \/ estep e = SUndo) (fst x)) t.

Definition c02_fixed_lib_statement : Prop :=
  forall cfg r0 h,
    c_fail_at cfg = None -> c_incl cfg = false ->
    f_new (c_filter cfg) = true -> f_undo (c_filter cfg) = true ->
    c01_fixed_scope_b r0 h = true ->
    no_finality_events (fk_run cfg (fs_init (LExcl r0)) h) /\ c02_statement cfg (LExcl r0) h.
