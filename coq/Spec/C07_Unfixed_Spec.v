(* C07 - the join BEFORE the fix "join on identity" (kept for documentation; the model of the code as it is now is
   Model/Joining.v).  JoiningSource.fileSourceHandler asked the hub for the file block's NUMBER; when the merged
   files hold a block the hub has a sibling of on its current chain, the consumer was handed the hub's branch without
   the Undo / New events that connect it.  Found by the proof of c07_seamless_num (its hypothesis files_agree could not
   be discharged), replayed on the real stream.New + ForkableHub, repaired in joiningsource.go / hub.go
   (repo_patches/C07_fix_join_by_identity.diff); the corpus scenario "corpus/join-on-fork" of the C07 check is the
   witness below with the blocks the harness needs to build its stores. *)
From BV Require Import Base.Prelude Model.Block Model.ForkDB Model.Forkable Model.ForkableLookups
  Model.Burst Model.Hub Model.CursorResolver Model.Joining
  Spec.Consumer Spec.Universe Check.Burst_Check Check.C07_Check Spec.C06_Spec Spec.C07_Spec Spec.C09_Spec Spec.C07_Compose_Spec.
Local Open Scope N_scope.

(* fileSourceHandler BEFORE the fix: the join asks the hub for the file block's NUMBER (SourceFromBlockNum) *)
Fixpoint file_phase_unfixed (fuel : nat) (c : jcfg) (w : world) (lowest : N) (fevs : list event) (fend : jerr)
         (count : N) (ps : list (N * N)) (out : list event) : list event * jerr :=
  match fevs with
  | [] => (out, fend)
  | e :: rest =>
      let n := bnum (eblk e) in
      let join : option (list event) :=
        if (lowest <=? n) && matches_new (estep e) then   (* fix: join only on a first delivery *)
          match (if j_mode c =? 2
                 then match j_cursor c with Some cu => hub_through_cursor (h_f (w_hub w)) n cu | None => BErr end
                 else blocks_from_num (h_f (w_hub w)) n) with
          | BOk evs => if h_ready (w_hub w) then Some evs else None   (* any answer for the NUMBER joins *)
          | _ => None
          end
        else None in
      match join with
      | Some burst => live_phase fuel c w burst count ps out
      | None =>
          let lowest' := if (lowest <=? n) && matches_new (estep e) then hub_lowest (w_hub w) else lowest in
          let '(deliver, stop) := Joining.chain c e in
          if deliver then
            let count' := count + 1 in
            let '(ps', w', _) := apply_pauses c count' ps w in
            if stop then (out ++ [e], JStop)
            else file_phase_unfixed fuel c w' lowest' rest fend count' ps' (out ++ [e])
          else if stop then (out, JStop)
          else file_phase_unfixed fuel c w lowest' rest fend count ps out
      end
  end.

(* Stream.Run over that file phase *)
Definition stream_run_unfixed (c : jcfg) (w : world) (ps : list (N * N)) (merged_end : N) (merged forked : list block) : list event * jerr :=
  let head := match hub_head (w_hub w) with Some (r, _) => rn r | None => 0 end in
  let start := abs_start (j_first c) (j_start c) head in
  if negb (j_stop c =? 0) && (j_stop c <? start) then ([], JInvalidArg) else
  let cur := if j_mode c =? 0 then None else j_cursor c in
  if (j_filter c =? 1) && match cur with Some cu => negb (on_final_block cu) | None => false end
  then ([], JInvalidArg) else
  let fuel := (40 * (length (w_rest w) + length merged + 20))%nat in
  match live_try c (w_hub w) start with
  | BOk burst => live_phase fuel c w burst 0 ps []
  | BFuel | BPanic => ([], JFuel)
  | BErr =>
      let stop_for_files := if j_stop c =? 0 then 1000000000000 else j_stop c in
      let '(fevs, r) :=
        if j_mode c =? 0 then (map (file_event SNewIrr) (file_delivery merged start stop_for_files (j_bundle c)), RsOk)
        else match j_cursor c with
             | None => ([], RsOk)
             | Some cu => if j_mode c =? 1 then from_cursor_run merged forked cu stop_for_files (j_bundle c)
                          else through_cursor_run merged forked start cu stop_for_files (j_bundle c)
             end in
      let fend := match r with
                  | RsOk => file_end c merged_end
                  | RsResolveErr => JInvalidArg   (* Stream.Run maps ErrResolveCursor to invalid argument *)
                  | RsNotImplemented => JOther
                  | RsFuel => JFuel end in
      file_phase_unfixed fuel c w (hub_lowest (w_hub w)) fevs fend 0 ps []
  end.

(* Every hypothesis of C07_seamless_num, and with the join by number the delivered sequence breaks the discipline:
   the merged files hold block 14 while the hub (LIB 13) sits on the fork 13 <- 114 <- 115 and becomes ready only
   after block 14 has been delivered from the files; asked for "block NUMBER 15" the hub answers with the forked 115:
   delivered are ... 14, New 115 (parent 114 never delivered), Undo 115, Undo 114, New 14 (a second time), ...
   On the same input the fixed model does not join there (the hub's block 15 is not the file's block 15), delivers 15
   from the files and joins at 16 once the hub is back on the canonical chain. *)
Definition C07_join_by_number_refuted : Prop :=
  exists (U : list block) (c : jcfg) (w : world) (ps : list (N * N)) (merged_end : N) (canon forked : list block),
    wf_b U = true /\ lib_ok_b LNone U = true /\ hub_of_universe U c w /\
    chain_ok canon /\ incl canon U /\
    eventual_tip c w canon /\
    j_mode c = 0 /\ j_filter c = 0 /\ j_stop c = 0 /\ 0 < j_bundle c /\
    Forall (fun b => bnum b < file_bound) (filter (fun b => bnum b <? merged_end) canon) /\
    (exists b, In b canon /\ bnum b = run_start c w) /\
    cons_fold_aside cons0 (map as_new (fst (stream_run_unfixed c w ps merged_end (filter (fun b => bnum b <? merged_end) canon) forked))) = None /\
    stream_run_unfixed c w ps merged_end (filter (fun b => bnum b <? merged_end) canon) forked
      <> stream_run c w ps merged_end (filter (fun b => bnum b <? merged_end) canon) forked.
