(* C15 — readable statement.
   Trusted as Section variables with listed hypotheses: the protobuf + roaring serialisation of an
   index file (enc/dec with a round trip up to map order), the provider attached to the file
   source (any state type PS with an invariant), the progress timer (an arbitrary oracle), the
   merged bundle files (exists_/blocks). *)
From Coq Require Import Sorted.
From BV Require Import Base.Prelude Model.BlockIndex.
Local Open Scope N_scope.

(* strictly ascending: ascending order, each element once *)
Definition asc (l : list N) : Prop := StronglySorted N.lt l.

(* key k was fed together with block n *)
Definition fed (fd : feed) (k : str) (n : N) : Prop := exists keys, In (keys, n) fd /\ In k keys.

(* the blocks are fed in chain order *)
Definition feed_ascending (fd : feed) : Prop := asc (map snd fd).

(* the part of the feed the indexer takes in: without a defined start block everything before the
   first block that is on a boundary or is the first streamable block is dropped ("couldn't
   determine boundary") *)
Fixpoint accepted (fsb size : N) (start : option N) (fd : feed) : feed :=
  match start with
  | Some _ => fd
  | None =>
      match fd with
      | [] => []
      | (keys, n) :: fd' =>
          if (n mod size =? 0) || (n =? fsb) then fd else accepted fsb size start fd'
      end
  end.

Section CodecSpec.
  Variable B : Type.
  Variable enc : kvmap -> B.
  Variable dec : B -> option kvmap.

  (* serialisation round trip, up to the order of the map entries *)
  Definition codec_ok : Prop :=
    forall kv, NoDup (map fst kv) ->
      exists kv', dec (enc kv) = Some kv' /\ NoDup (map fst kv') /\ forall k, kv_get k kv' = kv_get k kv.

  (* an index file that holds exactly the (key, block) pairs of the feed inside its range *)
  Definition file_exact (fd : feed) (f : idxfile B) : Prop :=
    exists kv, dec (if_blob f) = Some kv /\ NoDup (map fst kv) /\
      (forall k s, kv_get k kv = Some s -> asc s) /\
      (forall k n, (exists s, kv_get k kv = Some s /\ In n s) <->
                   (fed fd k n /\ if_low f <= n < if_low f + if_size f)).

  Definition store_exact (fd : feed) (st : store B) : Prop := forall f, In f st -> file_exact fd f.

  (* C15, indexer clause: fed in chain order (the defined start block, if any, not above the first
     block), Add writes one file per aligned range, each holding exactly the accepted (key, block)
     pairs of its range, and every range the feed has left behind has its file.  The last range
     is never written (there is no flush besides the one triggered by a later block). *)
  Definition C15_indexer : Prop :=
    codec_ok ->
    forall fsb size start st0 ix0 fd ix',
      feed_ascending fd ->
      (forall d n, start = Some d -> In n (map snd fd) -> d <= n) ->
      new_indexer st0 size start = Ok ix0 ->
      indexer_run enc fsb ix0 fd = Ok ix' ->
      let acc := accepted fsb size start fd in
      exists newf,
        ix_store ix' = newf ++ st0 /\
        NoDup (map (fun f => if_low f) newf) /\
        (forall f, In f newf -> if_size f = size /\ if_low f mod size = 0 /\ file_exact acc f) /\
        (forall n n', In n (map snd acc) -> In n' (map snd acc) -> low_boundary n size + size <= n' ->
                      exists f, In f newf /\ if_low f <= n < if_low f + if_size f).

  (* the provider's cache: nothing loaded, or the filtered content of a file of the store *)
  Definition prov_inv (st : store B) (m : str -> bool) (p : prov) : Prop :=
    (p_low p = 0 /\ p_high p = 0) \/
    exists f kv, In f st /\ p_low p = if_low f /\ p_high p = if_low f + if_size f /\
                 dec (if_blob f) = Some kv /\ p_blocks p = filter_blocks m kv.

  (* C15, provider clause: over a store of exact index files, for every key filter m, every list
     of possible index sizes, every request (base, bundle) and every cache state, BlocksInRange
     returns exactly the fed blocks carrying a matching key inside [base, base+bundle), ascending
     (clipped below by the first streamable block); it fails only on an unaligned base or when no
     listed index size has a file covering the whole range; it panics only on bundle size 0. *)
  Definition C15_provider : Prop :=
    forall fsb st possible m fd p base bundle,
      store_exact fd st -> prov_inv st m p ->
      match blocks_in_range dec fsb st possible m p base bundle with
      | Panic => bundle = 0
      | Ok (p', None) =>
          p' = p /\ bundle <> 0 /\
          (base mod bundle <> 0 \/
           forall size, In size possible -> bundle <= size ->
                        base + bundle <= low_boundary base size + size ->
                        store_find st (low_boundary base size) size = None)
      | Ok (p', Some r) =>
          prov_inv st m p' /\ bundle <> 0 /\ base mod bundle = 0 /\ asc r /\
          forall n, In n r <->
                    (N.max base fsb <= n < base + bundle /\ exists k, m k = true /\ fed fd k n)
      end.

  (* both clauses composed: what the provider returns over the files one indexer wrote *)
  Definition C15_indexed_provider : Prop :=
    codec_ok ->
    forall fsb size start ix0 fd ix' possible m base bundle r p',
      feed_ascending fd ->
      (forall d n, start = Some d -> In n (map snd fd) -> d <= n) ->
      new_indexer [] size start = Ok ix0 ->
      indexer_run enc fsb ix0 fd = Ok ix' ->
      blocks_in_range dec fsb (ix_store ix') possible m prov0 base bundle = Ok (p', Some r) ->
      asc r /\
      forall n, In n r <->
                (N.max base fsb <= n < base + bundle /\
                 exists k, m k = true /\ fed (accepted fsb size start fd) k n).
End CodecSpec.

(* ------------------------------------------------------------------------------------------ *)
(* The file source.  What is modelled: the reader loop of launchReader (lookupBlockIndex with
   tweakRangeIndexResults, the no-more-index fallback, the retry on a missing bundle, the stop
   block), streamReader's per-block filtering (start block, PassesFilter) and the in-order
   delivery of run(); sequentially, one bundle after the other.  Not modelled: goroutines,
   channels, shutdown, gator, preprocessing, I/O errors. *)
Section StreamSpec.
  Variable PS : Type.
  Variable query : PS -> N -> PS * option (list N).
  Variables start stop bundle : N.
  Variable prog : N -> bool.
  Variable exists_ : N -> bool.
  Variable blocks : N -> list N.
  Variable Inv : PS -> Prop.       (* states of the provider *)
  Variable M : N -> Prop.          (* the indexed blocks carrying a matching key *)

  Definition aligned (b : N) : Prop := b mod bundle = 0.

  (* "such a provider": on an aligned request, an error, or exactly the blocks of M inside
     [base, base+bundle) in ascending order (the nil slice when there is none) *)
  Definition provider_ok : Prop :=
    forall ps base, Inv ps -> aligned base ->
      Inv (fst (query ps base)) /\
      match snd (query ps base) with
      | None => True
      | Some r => asc r /\ forall n, In n r <-> (M n /\ base <= n < base + bundle)
      end.

  (* the bundle files hold a chain: ascending block numbers, each inside its bundle *)
  Definition chain_ok : Prop :=
    forall b, aligned b -> asc (blocks b) /\ forall n, In n (blocks b) -> b <= n < b + bundle.

  (* block n exists *)
  Definition on_chain (n : N) : Prop := In n (blocks (low_boundary n bundle)).

  (* the run got as far as block n: it ended on the stop block with n's bundle not after it, or it
     ended waiting for a bundle file above n *)
  Definition reached (e : fend) (n : N) : Prop :=
    match e with
    | EStop => low_boundary n bundle <= stop
    | EWait w => n < w
    | _ => False
    end.

  (* the index covers / does not cover the bundle at b *)
  Definition covered (b : N) : Prop := forall ps, Inv ps -> snd (query ps b) <> None.
  Definition uncovered (b : N) : Prop := forall ps, Inv ps -> snd (query ps b) = None.

  Definition run_of (fuel lfuel : nat) (ps : PS) (wl : list N) : list N * fend :=
    file_source_run PS query start stop bundle prog exists_ blocks fuel lfuel (Some ps) wl.

  (* C15, completeness: delivered blocks are existing blocks from the start block on, in ascending
     order and each once, and every existing matching block between start and stop that the run
     got to is among them *)
  Definition C15_stream_complete : Prop :=
    bundle <> 0 -> provider_ok -> chain_ok ->
    forall fuel lfuel ps wl d e,
      Inv ps -> run_of fuel lfuel ps wl = (d, e) ->
      asc d /\
      (forall x, In x d -> on_chain x /\ start <= x) /\
      (forall m, M m -> on_chain m -> start <= m -> (stop = 0 \/ m <= stop) -> reached e m -> In m d).

  (* x is let through for the wanted number w: w lies in x's bundle and x is the next existing
     block at or after w (among the blocks from the start block on: earlier ones are never
     candidates) *)
  Definition next_existing (w x : N) : Prop :=
    low_boundary x bundle <= w <= x /\
    forall y, In y (blocks (low_boundary x bundle)) -> start <= y -> w <= y -> x <= y.

  (* C15, tightness: while every bundle from the start up to the one after x's is covered by the
     index, a delivered block x is the next existing block of a matching, start, stop or
     whitelisted number, or of the bundle's base when the progress timer fired *)
  Definition C15_stream_tight : Prop :=
    bundle <> 0 -> provider_ok -> chain_ok -> (stop = 0 \/ start <= stop) ->
    forall fuel lfuel ps wl d e,
      Inv ps -> run_of fuel lfuel ps wl = (d, e) ->
      forall x, In x d ->
        (forall b', aligned b' -> low_boundary start bundle <= b' <= low_boundary x bundle + bundle -> covered b') ->
        exists w, next_existing w x /\
                  (M w \/ w = start \/ (stop <> 0 /\ w = stop) \/ In w wl \/
                   (w = low_boundary x bundle /\ prog w = true)).

  (* C15, fallback: from the first bundle the index does not cover, every existing block from the
     start block on that the run got to is delivered *)
  Definition C15_fallback : Prop :=
    bundle <> 0 -> provider_ok -> chain_ok ->
    forall fuel lfuel ps wl d e,
      Inv ps -> run_of fuel lfuel ps wl = (d, e) ->
      forall u, aligned u -> low_boundary start bundle <= u -> uncovered u ->
        forall y, on_chain y -> start <= y -> u <= y -> reached e y -> In y d.

  (* PassesFilter works per bundle file: a wanted number whose next existing block lies in a later
     bundle lets nothing through (outside the property: the index is built from the chain the
     files hold, so indexed numbers are numbers of existing blocks) *)
  Definition passes_filter_is_per_bundle : Prop :=
    forall base w bl, (forall y, In y bl -> y < w) ->
      stream_file start base (Some [w]) bl = [].
End StreamSpec.
