(* C04: what acceptance by the cursor monitor c04_b (Spec/Consumer.v) MEANS, as declarative statements
   over a trace.  c04_b is what the checker evaluates on every observed implementation trace; the
   theorem c04_monitor_sound (Properties/C04_Monitor.v) says that acceptance implies these. *)
From BV Require Import Base.Prelude Model.Block Model.Forkable Spec.Consumer.
Local Open Scope N_scope.

(* every delivered event paired with the incoming block of the step that delivered it *)
Fixpoint with_incoming (h : list block) (t : trace) : list (block * event) :=
  match h, t with
  | b :: h', (evs, _) :: t' => map (fun e => (b, e)) evs ++ with_incoming h' t'
  | _, _ => []
  end.

(* the cursor's step/block are those of the event, its head is the incoming block, and the cursor LIB
   never lies above a block delivered as New or Irreversible *)
Definition C04_fields (h : list block) (t : trace) : Prop :=
  forall b e, In (b, e) (with_incoming h t) ->
    ecblk e = bref (eblk e) /\ ehead e = bref b /\
    (match estep e with SNew | SIrr | SNewIrr => rn (elib e) <= bnum (eblk e) | _ => True end) /\
    (match estep e with SUndo => True | _ => ejunc e = None end).

(* along the stream the cursor LIB height never decreases *)
Definition C04_lib_monotone (h : list block) (t : trace) : Prop :=
  forall l1 e1 l2 e2 l3, map snd (with_incoming h t) = l1 ++ e1 :: l2 ++ e2 :: l3 ->
    rn (elib e1) <= rn (elib e2).

(* the cursor LIB is the last block announced irreversible so far, or the starting LIB *)
Fixpoint last_final (root : ref) (l : list event) : ref :=
  match l with
  | [] => root
  | e :: l' => last_final (match estep e with SIrr | SNewIrr => bref (eblk e) | _ => root end) l'
  end.
Definition C04_lib_is_last_final (root : ref) (h : list block) (t : trace) : Prop :=
  forall l1 e l2, map snd (with_incoming h t) = l1 ++ e :: l2 ->
    match estep e with
    | SIrr => elib e = bref (eblk e)
    | _ => elib e = last_final root l1
    end.

Definition C04_monitor_sound : Prop :=
  forall m h t, c04_b true m h t = true ->
    C04_fields h t /\ C04_lib_monotone h t /\ C04_lib_is_last_final (root_ref m t) h t.
