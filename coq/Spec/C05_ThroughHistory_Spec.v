(* C05 over HISTORIES, the through-cursor variant (hub.SourceThroughCursor) as a consumer statement and its
   serving side.  Addition to Spec/C05_History_Spec.v (same vocabulary: the hub-configured Forkable fed the
   history h, tr, upto, event k with its consumer ck, the never-disconnected consumer cm at instant m) and to
   Spec/C05_Through_Spec.v (head_chain, starts_within, from_start, final_now, tolerate, branch_to).

   The boolean property this is the theorem of: the kind-1 clause of Check/Burst_Check.c05_answer_ok.  There the
   hub's chain "as a from-start consumer sees it" is rebuilt from the never-disconnected consumer cm by
   `with_retained` (cm's stack, extended downwards by the final ancestors the hub still retains although no
   event ever delivered them: the discovered LIB block when it was only announced, blocks of the bootstrap pass,
   kept final blocks); here it is the head's complete segment itself, and the last clause of
   C05_through_history states how it relates to cm: it is cm's stack from `start` on, preceded by such
   never-delivered retained ancestors `d`, all of them final. *)
From Coq Require Import Sorted.
From BV Require Import Base.Prelude Model.Block Model.ForkDB Model.Forkable Model.ForkableLookups
  Model.Burst Model.Hub Spec.Consumer Spec.Universe Check.Fk_Check Check.Burst_Check Spec.C09_Spec Spec.C05_Spec
  Spec.C05_Through_Spec Spec.C01_Spec Spec.C01_Moving_Spec Spec.C05_History_Spec.
Local Open Scope N_scope.

(* numbered at or above start (blocks; `from_start` of Spec/C05_Through_Spec.v is the same on segment elements) *)
Definition from_num (start : N) (b : block) : bool := start <=? bnum b.

(* ------------------------------------------------------------------ the consumer statement *)

(* Every wf_b / lib_ok_b history fed to the hub-configured Forkable, any first streamable block and retention,
   every New or Undo event k of the stream, every later instant m, every start block at or below the junction
   (junction_num of the checker: the number of the last block the consumer at k and the never-disconnected
   consumer at m have in common; 0 when they share nothing) for which the hub answers: the burst, applied to a
   consumer that holds nothing (Irreversible events for blocks below start set aside, `tolerate`, exactly as
   the checker does), leaves it on the hub's current chain from the start block on, with exactly the blocks up
   to the hub LIB final. *)
Definition C05_through_history : Prop :=
  forall first kept (h : list block) (k m : nat) ek ck cm start evs,
    wf_b h = true -> lib_ok_b LNone h = true ->
    let cfg := hub_config first kept in
    let tr := fk_run cfg (fs_init LNone) h in
    let upto n := concat (map fst (firstn n tr)) in
    let s := state_after cfg (fs_init LNone) h m in
    nth_error (upto (length tr)) k = Some ek -> (estep ek = SNew \/ estep ek = SUndo) ->
    (k < length (upto m))%nat ->
    cons_fold cons0 (firstn (S k) (upto (length tr))) = Some ck ->
    cons_fold cons0 (upto m) = Some cm ->
    start <= junction_num (cs_stack ck) (cs_stack cm) ->
    hub_through_cursor s start (ev_cursor ek) = BOk evs ->
    exists hd sg c',
      (* the hub's current chain: the head's complete segment; it reaches the LIB and start is not below it *)
      last_sent s = Some hd /\ complete_segment (db s) (bref hd) = Some (sg, true) /\ starts_within sg start /\
      (* the burst is accepted by a consumer that holds nothing ... *)
      cons_fold cons0 (tolerate start evs) = Some c' /\
      let kept := filter (from_start start) sg in
      (* ... and leaves it on the hub's chain from start on, block by block, final up to the hub LIB *)
      cs_stack c' = rev (map seg_blk kept) /\
      cs_nf c' = length (filter (final_now s) kept) /\
      (* the hub's chain from start on against the never-disconnected consumer: its stack from start on,
         preceded by retained final ancestors d that no event delivered; same number of final blocks *)
      exists d, map seg_blk kept = d ++ filter (from_num start) (rev (cs_stack cm)) /\
                cs_nf c' = (length d + length (filter (from_num start) (finals_of cm)))%nat /\
                (forall x, In x d -> bnum x <= rn (libref (db s)) /\
                                     forall y, In y (cs_stack cm) -> bnum x < bnum y).

(* ------------------------------------------------------------------ the serving side *)

(* When is such a request served.  Same quantification; in the state after m calls the hub has a head hd whose
   complete segment sg reaches the LIB (otherwise: no source, c05_through_no_source), and the start block is at
   or below the junction.
   (1) Served only if start is not below the retained chain, and the cursor block is on the chain or the cursor
       LIB is.
   (2) start not below the chain, cursor block on the chain: served (whatever became of the cursor LIB).
   (3) start not below the chain, cursor LIB on the chain, cursor block off the chain: the cursor block is still
       retained, its stored branch meets the chain at a junction block je (branch_to), the checker's junction
       number is not above je's, and the request is served IF AND ONLY IF the hub LIB has not passed je.
   (4) Hence a request with start on the retained chain at or below the junction and the cursor LIB on the chain
       (the cursor block is then retained, see (3)) is refused in ONE situation only, the one of the known finding
       C05-through-forked-below-hub-lib (code 6 of Check/Burst_Check.c05_through_obligation): the cursor block is
       off the chain and the never-disconnected consumer does not hold it, and the junction number is below the
       number of the hub LIB, which is the consumer's last final block. *)
Definition C05_through_serves_history : Prop :=
  forall first kept (h : list block) (k m : nat) ek ck cm start hd sg,
    wf_b h = true -> lib_ok_b LNone h = true ->
    let cfg := hub_config first kept in
    let tr := fk_run cfg (fs_init LNone) h in
    let upto n := concat (map fst (firstn n tr)) in
    let s := state_after cfg (fs_init LNone) h m in
    let cur := ev_cursor ek in
    nth_error (upto (length tr)) k = Some ek -> (estep ek = SNew \/ estep ek = SUndo) ->
    (k < length (upto m))%nat ->
    cons_fold cons0 (firstn (S k) (upto (length tr))) = Some ck ->
    cons_fold cons0 (upto m) = Some cm ->
    last_sent s = Some hd -> complete_segment (db s) (bref hd) = Some (sg, true) ->
    start <= junction_num (cs_stack ck) (cs_stack cm) ->
    (* (1) *)
    ((exists evs, hub_through_cursor s start cur = BOk evs) ->
       starts_within sg start /\ (block_in (ri (cu_blk cur)) sg = true \/ block_in (ri (cu_lib cur)) sg = true)) /\
    (* (2) *)
    (starts_within sg start -> block_in (ri (cu_blk cur)) sg = true ->
       exists evs, hub_through_cursor s start cur = BOk evs) /\
    (* (3) *)
    (starts_within sg start -> block_in (ri (cu_lib cur)) sg = true -> block_in (ri (cu_blk cur)) sg = false ->
       exists path j je,
         branch_to (db s) sg (ri (cu_blk cur)) path j /\ find j (store (db s)) = Some je /\
         junction_num (cs_stack ck) (cs_stack cm) <= bnum (eb je) /\
         (rn (libref (db s)) <= bnum (eb je) -> exists evs, hub_through_cursor s start cur = BOk evs) /\
         (bnum (eb je) < rn (libref (db s)) -> hub_through_cursor s start cur = BErr)) /\
    (* (4) *)
    (starts_within sg start -> block_in (ri (cu_lib cur)) sg = true ->
     (forall evs, hub_through_cursor s start cur <> BOk evs) ->
       hub_through_cursor s start cur = BErr /\
       block_in (ri (cu_blk cur)) sg = false /\ find (ri (cu_blk cur)) (store (db s)) <> None /\
       ~ In (ri (cu_blk cur)) (map bid (cs_stack cm)) /\
       junction_num (cs_stack ck) (cs_stack cm) < rn (libref (db s)) /\
       exists l fs, rev (finals_of cm) = l :: fs /\ bref l = libref (db s)).
