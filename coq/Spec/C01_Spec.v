(* C01 — Undo/New discipline: statements.
   The model under these statements is Model/Forkable.v (fk_step / fk_run), the executable model that
   the correspondence check runs against the real Forkable on every generated history. *)
From BV Require Import Base.Prelude Model.Block Model.ForkDB Model.Forkable Spec.Consumer Spec.Universe.
Local Open Scope N_scope.

(* what C01 says about one history: the consumer that pushes on New and pops on Undo accepts every
   event (one parent-linked chain rooted at the LIB at all times), a block fed again delivers
   nothing, a handler error ends the incoming block's processing at once *)
Definition c01_statement (cfg : config) (m : libmode) (h : list block) : Prop :=
  let t := fk_run cfg (fs_init m) h in
  c01_discipline_b m t = true /\ c01_refeed_b [] h t = true /\ c01_error_b (c_fail_at cfg) 0 t = true.

(* the property's quantifier: every configuration that establishes a LIB, every filter with New and
   Undo, every well-formed history (any tree, any order, duplicates, unlinkable blocks) *)
Definition c01_scope (cfg : config) (m : libmode) (h : list block) : Prop :=
  (match m with LNone => c_hold cfg = true | _ => True end) /\
  f_new (c_filter cfg) = true /\ f_undo (c_filter cfg) = true /\ wf_b h = true.

(* FULL STRENGTH (not proved in this generality; the checker c01_prop evaluates exactly this on every
   generated history against the implementation's observation) *)
Definition c01_full : Prop := forall cfg m h, c01_scope cfg m h -> c01_statement cfg m h.

(* The part that is proved: exclusive starting LIB r0 that the history never moves (every block
   declares r0's number as its LIB), no injected handler failure.  Everything else is universally
   quantified: the tree, the arrival order, duplicates, unlinkable blocks, blocks below the LIB, the
   first streamable block, retention, all-blocks-trigger, the Irreversible/Stalled filter bits. *)
Definition fixed_block_b (r0 : ref) (b : block) : bool :=
  negb (bparent b =? 0) && (blib b =? rn r0) &&
  (if bparent b =? ri r0 then rn r0 <? bnum b else true) &&
  (if bid b =? ri r0 then bnum b =? rn r0 else true).

Definition c01_fixed_scope_b (r0 : ref) (h : list block) : bool :=
  wf_b h && negb (ri r0 =? 0) && forallb (fixed_block_b r0) h.

Definition c01_fixed_lib_statement : Prop :=
  forall cfg r0 h,
    c_fail_at cfg = None -> c_incl cfg = false ->
    f_new (c_filter cfg) = true -> f_undo (c_filter cfg) = true ->
    c01_fixed_scope_b r0 h = true ->
    c01_statement cfg (LExcl r0) h /\
    (* and every call returns normally: no panic, no fuel exhaustion of the model's walks *)
    Forall (fun x => snd x = ROk) (fk_run cfg (fs_init (LExcl r0)) h) /\
    length (fk_run cfg (fs_init (LExcl r0)) h) = length h.
