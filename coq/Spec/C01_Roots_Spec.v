(* C01 / C02 for histories that may contain ROOTS: blocks whose parent id is EMPTY (bparent b = 0; the
   generator produces such orphans).  Additions to Spec/C01_Moving_Spec.v and Spec/C02_Spec.v: the same
   statements, with the conjunct "no empty parent id" REMOVED from the classes of histories.

   Why roots are special: AddLink's exists-check is `links[id] != ""`, so a stored block whose parent id is
   empty is not recognised when it is fed again; it is stored again with a fresh ForkableBlock (sentAsNew
   reset).  The theorems below say that this is harmless for C01 and C02: a root is never delivered from the
   forkdb (its entry is never marked sent), so storing it again changes nothing, and the rest of
   ProcessBlock finds an empty longest chain. *)
From BV Require Import Base.Prelude Model.Block Model.ForkDB Model.Forkable Spec.Consumer Spec.Universe
  Spec.C01_Spec Spec.C01_Moving_Spec Spec.C02_Spec.
Local Open Scope N_scope.

(* the starting LIB r0 is coherent with the blocks of the history: a child of r0 is higher than r0; a block
   that carries r0's id has r0's number.  (moving_block_b of Spec/C01_Moving_Spec.v without its first
   conjunct negb (bparent b =? 0).) *)
Definition moving_block2_b (r0 : ref) (b : block) : bool :=
  (if bparent b =? ri r0 then rn r0 <? bnum b else true) &&
  (if bid b =? ri r0 then bnum b =? rn r0 else true).

(* moving_scope_b without "no empty parent id" *)
Definition moving_scope2_b (r0 : ref) (h : list block) : bool :=
  wf_b h && lib_ok_b (LExcl r0) h && negb (ri r0 =? 0) && forallb (moving_block2_b r0) h.

(* disc_scope_b without "no empty parent id": every well-formed history in the class lib_ok_b *)
Definition disc_scope2_b (h : list block) : bool :=
  wf_b h && lib_ok_b LNone h.

(* the old classes are sub-classes *)
Definition roots_scopes_subsume : Prop :=
  (forall r0 h, moving_scope_b r0 h = true -> moving_scope2_b r0 h = true) /\
  (forall h, disc_scope_b h = true -> disc_scope2_b h = true).

(* C01, configured starting LIB (exclusive or inclusive), any handler oracle; same conclusion as
   c01_moving_lib_statement *)
Definition c01_moving_lib_roots_statement : Prop :=
  forall cfg r0 m h,
    rooted_mode r0 m ->
    f_new (c_filter cfg) = true -> f_undo (c_filter cfg) = true ->
    moving_scope2_b r0 h = true ->
    c01_statement cfg m h /\
    Forall (fun x => snd x = ROk \/ snd x = RHandlerErr) (fk_run cfg (fs_init m) h) /\
    (c_fail_at cfg = None ->
     Forall (fun x => snd x = ROk) (fk_run cfg (fs_init m) h) /\
     length (fk_run cfg (fs_init m) h) = length h).

(* C01, discovery mode (no configured LIB, hold-until-LIB) *)
Definition c01_discovery_roots_statement : Prop :=
  forall cfg h,
    c_hold cfg = true -> c_incl cfg = false ->
    f_new (c_filter cfg) = true -> f_undo (c_filter cfg) = true ->
    disc_scope2_b h = true ->
    c01_statement cfg LNone h /\
    Forall (fun x => snd x = ROk \/ snd x = RHandlerErr) (fk_run cfg (fs_init LNone) h) /\
    (c_fail_at cfg = None ->
     Forall (fun x => snd x = ROk) (fk_run cfg (fs_init LNone) h) /\
     length (fk_run cfg (fs_init LNone) h) = length h).

(* C02: the whole finality monitor accepts the trace *)
Definition c02_moving_lib_roots_statement : Prop :=
  forall cfg r0 m h,
    rooted_mode r0 m ->
    f_new (c_filter cfg) = true -> f_undo (c_filter cfg) = true -> f_irr (c_filter cfg) = true ->
    moving_scope2_b r0 h = true ->
    c02_statement cfg m h.

Definition c02_discovery_roots_statement : Prop :=
  forall cfg h,
    c_hold cfg = true -> c_incl cfg = false ->
    f_new (c_filter cfg) = true -> f_undo (c_filter cfg) = true -> f_irr (c_filter cfg) = true ->
    disc_scope2_b h = true ->
    c02_statement cfg LNone h.

(* OUTSIDE the quantifier of C01 (c01_scope asks for hold-until-LIB when no LIB is configured): in the
   pass-through mode (LNone, c_hold = false) the LIB id is empty, ReversibleSegment from a root reaches it,
   the root IS delivered, and when it is fed again it is stored again unsent and delivered as New AGAIN.
   So the restriction of c01_scope to c_hold = true is necessary as soon as histories contain roots: *)
Definition c01_passthrough_roots_refuted : Prop :=
  exists cfg h,
    c_hold cfg = false /\ c_incl cfg = false /\ c_fail_at cfg = None /\
    f_new (c_filter cfg) = true /\ f_undo (c_filter cfg) = true /\
    wf_b h = true /\ lib_ok_b LNone h = true /\
    let t := fk_run cfg (fs_init LNone) h in
    c01_discipline_b LNone t = false /\ c01_refeed_b [] h t = false.

(* What remains between these and c01_full / c02_full (Spec/C01_Spec.v, Spec/C02_Spec.v):
   - C01 outside the class lib_ok_b (c01_scope asks only wf_b); for LIBs that never move
     c01_fixed_lib_partial covers part of it;
   - a configured starting LIB that is incoherent with the history (moving_block2_b fails);
   - discovery with c_incl = true (not a configuration forkable.New produces), LNone without hold. *)
