(* The consumer of a fork-aware stream and the executable monitors ("boolean forms") of
   C01, C02, C04 over a trace of handler calls.  A trace is, per incoming block, the list of
   delivered events and the result returned to the source. *)
From BV Require Import Base.Prelude Model.Block Model.Forkable.
Local Open Scope N_scope.

Definition trace := list (list event * result).

(* ---------------------------------------------------------------- C01: undo/new discipline *)

(* consumer stack, newest first *)
Definition cstack := list block.

(* the root rule: with nothing on the stack a New block is the LIB block itself or a child of it *)
Definition root_ok (lib : N) (b : block) : bool := (bid b =? lib) || (bparent b =? lib).

Definition apply_ev (lib : N) (st : cstack) (e : event) : option cstack :=
  match estep e with
  | SNew | SNewIrr =>
      match st with
      | top :: _ => if bparent (eblk e) =? bid top then Some (eblk e :: st) else None
      | [] => if root_ok lib (eblk e) then Some [eblk e] else None
      end
  | SUndo =>
      match st with
      | top :: rest => if bid (eblk e) =? bid top then Some rest else None
      | [] => None
      end
  | _ => Some st
  end.

Fixpoint apply_all (lib : N) (st : cstack) (l : list event) : option cstack :=
  match l with
  | [] => Some st
  | e :: l' => match apply_ev lib st e with Some st' => apply_all lib st' l' | None => None end
  end.

Definition all_events (t : trace) : list event := concat (map fst t).

(* the LIB the stream is rooted at: the configured one, or in discovery mode the LIB carried by
   the first delivered event *)
Definition root_lib (m : libmode) (t : trace) : N :=
  match m with
  | LExcl r | LIncl r => ri r
  | LNone => match all_events t with e :: _ => ri (elib e) | [] => 0 end
  end.

Definition c01_discipline_b (m : libmode) (t : trace) : bool :=
  match apply_all (root_lib m t) [] (all_events t) with Some _ => true | None => false end.

(* feeding a block a second time delivers nothing *)
Fixpoint c01_refeed_b (seen : list block) (h : list block) (t : trace) : bool :=
  match h, t with
  | b :: h', (evs, _) :: t' =>
      (if existsb (block_eqb b) seen then match evs with [] => true | _ => false end else true)
      && c01_refeed_b (b :: seen) h' t'
  | _, _ => true
  end.

(* a handler error is returned at once: it is the result of the step containing the failing
   call, that call is the last of the step, and nothing follows *)
Fixpoint c01_error_b (fail_at : option N) (done : N) (t : trace) : bool :=
  match t with
  | [] => true
  | (evs, r) :: t' =>
      let m := N.of_nat (length evs) in
      let hit := match fail_at with Some k => (done <=? k) && (k <? done + m) | None => false end in
      (if hit
       then match fail_at with Some k => (k =? done + m - 1) | None => false end
            && result_eqb r RHandlerErr && match t' with [] => true | _ => false end
       else negb (result_eqb r RHandlerErr))
      && c01_error_b fail_at (done + m) t'
  end.

(* ---------------------------------------------------------------- C02: finality *)

Record fin_mon := mkFM {
  fm_stack : cstack;          (* consumer stack, newest first *)
  fm_nfinal : nat;            (* how many blocks at the bottom of the stack are final *)
  fm_last : ref;              (* last block announced final (or the root LIB) *)
  fm_any : bool;              (* has any announcement been made *)
  fm_finals : list N;         (* ids announced final *)
  fm_stalled : list N         (* ids reported stalled *)
}.

Definition nth_from_bottom (st : cstack) (k : nat) : option block := nth_error (rev st) k.

(* e announced final while b is the incoming block of the step *)
Definition fin_irr (root : ref) (m : fin_mon) (inc : block) (e : event) : option fin_mon :=
  let b := eblk e in
  let is_root := negb (fm_any m) && (bid b =? ri root) in
  (* chain: the root LIB itself (first announcement only) or a child of the last final block *)
  if negb (is_root || (bparent b =? ri (fm_last m))) then None else
  if memN (bid b) (fm_stalled m) then None else
  (* bound by the LIB number declared by the incoming block (the root announcement is exempt) *)
  if negb (is_root || (bnum b <=? blib inc)) then None else
  (* oldest pending block of the consumer chain (the root LIB need not have been delivered as New) *)
  match nth_from_bottom (fm_stack m) (fm_nfinal m) with
  | Some p =>
      if bid p =? bid b
      then Some (mkFM (fm_stack m) (S (fm_nfinal m)) (bref b) true (bid b :: fm_finals m) (fm_stalled m))
      else if is_root then Some (mkFM (fm_stack m) (fm_nfinal m) (bref b) true (bid b :: fm_finals m) (fm_stalled m))
      else None
  | None =>
      if is_root then Some (mkFM (fm_stack m) (fm_nfinal m) (bref b) true (bid b :: fm_finals m) (fm_stalled m))
      else None
  end.

Definition fin_step (lib : N) (root : ref) (inc : block) (m : fin_mon) (e : event) : option fin_mon :=
  match estep e with
  | SNew | SNewIrr =>
      match apply_ev lib (fm_stack m) e with
      | Some st => Some (mkFM st (fm_nfinal m) (fm_last m) (fm_any m) (fm_finals m) (fm_stalled m))
      | None => None
      end
  | SUndo =>
      if memN (bid (eblk e)) (fm_finals m) then None else
      match apply_ev lib (fm_stack m) e with
      | Some st => Some (mkFM st (fm_nfinal m) (fm_last m) (fm_any m) (fm_finals m) (fm_stalled m))
      | None => None
      end
  | SIrr => fin_irr root m inc e
  | SStalled =>
      let b := eblk e in
      if memN (bid b) (fm_finals m) || memN (bid b) (fm_stalled m)
         || existsb (fun x => bid x =? bid b) (fm_stack m)
         || negb (bnum b <=? rn (fm_last m))
      then None
      else Some (mkFM (fm_stack m) (fm_nfinal m) (fm_last m) (fm_any m) (fm_finals m) (bid b :: fm_stalled m))
  end.

Fixpoint fin_events (lib : N) (root : ref) (inc : block) (m : fin_mon) (l : list event) : option fin_mon :=
  match l with
  | [] => Some m
  | e :: l' => match fin_step lib root inc m e with Some m' => fin_events lib root inc m' l' | None => None end
  end.

Fixpoint fin_trace (lib : N) (root : ref) (m : fin_mon) (h : list block) (t : trace) : option fin_mon :=
  match h, t with
  | b :: h', (evs, _) :: t' =>
      match fin_events lib root b m evs with Some m' => fin_trace lib root m' h' t' | None => None end
  | _, _ => Some m
  end.

Definition root_ref (m : libmode) (t : trace) : ref :=
  match m with
  | LExcl r | LIncl r => r
  | LNone => match all_events t with e :: _ => elib e | [] => ref_empty end
  end.

Definition c02_b (m : libmode) (h : list block) (t : trace) : bool :=
  let root := root_ref m t in
  match fin_trace (ri root) root (mkFM [] 0 root false [] []) h t with Some _ => true | None => false end.

(* ---------------------------------------------------------------- C04: cursors *)

Record cur_mon := mkCM {
  cm_stack : cstack;
  cm_lib : ref          (* last block announced irreversible so far, or the starting LIB *)
}.

(* all Undo events at the front of l (one batch) and the rest *)
Fixpoint split_undos (l : list event) : list event * list event :=
  match l with
  | e :: l' => match estep e with
               | SUndo => let '(u, r) := split_undos l' in (e :: u, r)
               | _ => ([], l)
               end
  | [] => ([], [])
  end.

Fixpoint pop_n (n : nat) (st : cstack) : cstack :=
  match n with O => st | S k => match st with _ :: st' => pop_n k st' | [] => [] end end.

(* per-event field rules; st_after_batch is the stack once the current undo batch is applied *)
Definition cur_event_ok (check_lib : bool) (inc : block) (m : cur_mon) (after_batch : cstack) (root : ref) (e : event) : bool :=
  ref_eqb (ecblk e) (bref (eblk e)) &&
  ref_eqb (ehead e) (bref inc) &&
  (negb check_lib ||
   match estep e with
   | SIrr => ref_eqb (elib e) (bref (eblk e)) && (rn (cm_lib m) <=? rn (elib e))
   | _ => ref_eqb (elib e) (cm_lib m)
   end) &&
  (match estep e with SNew | SIrr | SNewIrr => rn (elib e) <=? bnum (eblk e) | _ => true end) &&
  (match estep e, ejunc e with
   | SUndo, Some j => match after_batch with
                      | top :: _ => ref_eqb j (bref top)
                      | [] => ref_eqb j root
                      end
   | SUndo, None => true
   | _, Some _ => false
   | _, None => true
   end).

Fixpoint cur_events (fuel : nat) (check_lib : bool) (lib : N) (root : ref) (inc : block) (m : cur_mon) (l : list event) : option cur_mon :=
  match fuel with
  | O => None
  | S f =>
      match l with
      | [] => Some m
      | e :: l' =>
          (* the whole batch has ecount events; this one is number eidx: the batch may be cut
             short by a handler error, so its size is read from StepCount *)
          let after := match estep e with
                       | SUndo => pop_n (N.to_nat (ecount e - eidx e)) (cm_stack m)
                       | _ => cm_stack m
                       end in
          if negb (cur_event_ok check_lib inc m after root e) then None else
          match apply_ev lib (cm_stack m) e with
          | None => None
          | Some st =>
              let lib' := match estep e with SIrr | SNewIrr => bref (eblk e) | _ => cm_lib m end in
              cur_events f check_lib lib root inc (mkCM st lib') l'
          end
      end
  end.

Fixpoint cur_trace (check_lib : bool) (lib : N) (root : ref) (m : cur_mon) (h : list block) (t : trace) : option cur_mon :=
  match h, t with
  | b :: h', (evs, _) :: t' =>
      match cur_events (S (length evs)) check_lib lib root b m evs with
      | Some m' => cur_trace check_lib lib root m' h' t'
      | None => None
      end
  | _, _ => Some m
  end.

Definition c04_b (check_lib : bool) (m : libmode) (h : list block) (t : trace) : bool :=
  let root := root_ref m t in
  match cur_trace check_lib (ri root) root (mkCM [] root) h t with Some _ => true | None => false end.
