(* C07 over whole runs for EVERY step filter and EVERY stop block (additions to Spec/C07_Compose_Spec.v, which has
   the default filter without stop block).

   Basis (Spec/C07_Shapes_Spec.v, no hypothesis): a run of stream_run is the handler chain (filter, stop block) over one
   raw sequence X of events handed to it by the file source and the hub, and the shape of X does not depend on the
   chain.  The undo/new discipline and the completeness clause are properties of X (C07_num_raw); what a given filter
   delivers follows:
     - filters that let New and Undo through (default; custom masks with New and Undo: Check/C07_Check.has_nu), any
       stop block: the delivered New / Undo / new+irreversible events follow the discipline for every outcome, the
       completeness clause of C07_seamless_num when the stream ends waiting, and when it ends with stop-block-reached
       the consumer holds the canonical chain from start up to block S itself (C07_seamless_num_nu);
     - final blocks only: Spec/C07_Final_Spec.v.
   World hypotheses as in C07_seamless_num. *)
From BV Require Import Base.Prelude Model.Block Model.ForkDB Model.Forkable Model.ForkableLookups
  Model.Burst Model.Hub Model.CursorResolver Model.Joining
  Spec.Consumer Spec.Universe Check.Burst_Check Check.C07_Check Spec.C06_Spec Spec.C07_Spec Spec.C09_Spec
  Spec.C13_Spec Spec.C07_Compose_Spec Spec.C07_Shapes_Spec.
Local Open Scope N_scope.

(* ------------------------------------------------------------------ vocabulary *)

(* the events a New|Undo consumer looks at *)
Definition is_nu (e : event) : bool := matches_new (estep e) || matches_undo (estep e).

(* the consumer of c07_prop (new+irreversible read as New, undos below the first delivered block aside) over the
   New / Undo / new+irreversible events of a sequence, from the stack J0 *)
Definition raw_fold (J0 : list block) (X : list event) : option cons :=
  cons_fold_aside (mkCons J0 0 false) (map as_new (filter is_nu X)).

(* res is what the handler chain of c makes of the raw sequence X *)
Definition chain_over (c : jcfg) (X : list event) (res : list event * jerr) : Prop :=
  (exists P, raw_out c X res P) \/ (exists fend, files_out c X fend res).

(* the blocks numbered lo..hi *)
Definition seg_num (lo hi : N) (l : list block) : list block :=
  filter (fun b => (lo <=? bnum b) && (bnum b <=? hi)) l.

(* ------------------------------------------------------------------ number mode: the raw sequence *)

(* EVERY filter, EVERY stop block: the run is the handler chain over (the part `seen c X` the filter's memory does not
   drop - all of it unless final-blocks-only - of) a raw sequence X; every beginning of X follows
   the discipline from the empty consumer; when the stream ends waiting X is complete: the consumer of X holds the
   merged blocks from start (never left the files) or, from start on, exactly canon. *)
Definition C07_num_raw : Prop :=
  forall (U : list block) (c : jcfg) (w : world) (ps : list (N * N)) (merged_end : N) (canon forked : list block),
    wf_b U = true -> lib_ok_b LNone U = true ->
    hub_of_universe U c w ->
    chain_ok canon -> incl canon U ->
    let merged := filter (fun b => bnum b <? merged_end) canon in
    eventual_tip c w canon ->
    j_mode c = 0 ->
    0 < j_bundle c -> Forall (fun b => bnum b < file_bound) merged ->
    let res := stream_run c w ps merged_end merged forked in
    let start := run_start c w in
    (exists b, In b canon /\ bnum b = start) ->
    exists X,
      chain_over c (seen c X) res /\
      (forall X1 X2, X = X1 ++ X2 -> exists c', raw_fold [] X1 = Some c') /\
      (snd res = JNil ->
         exists c', raw_fold [] X = Some c' /\
           (rev (cs_stack c') = from_num start merged \/
            from_num start (rev (cs_stack c')) = from_num start canon)).

(* ------------------------------------------------------------------ number mode: filters with New and Undo, any stop block *)

(* how a stream with stop block S that ended with stop-block-reached stands: out = what it delivered, stack = what
   its consumer holds *)
Definition stop_reached (c : jcfg) (canon merged : list block) (start : N) (out : list event) (stack : list block) : Prop :=
  (* the file source reported the end of the bundle of S: no canonical block is numbered S; the consumer holds the
     merged blocks from start below S *)
  ((forall b, In b canon -> bnum b <> j_stop c) /\
   rev stack = filter (fun b => (start <=? bnum b) && (bnum b <? j_stop c)) merged) \/
  (* the handler chain stopped on the event e, the first one that passes the filter with a number at or above S;
     e is delivered iff it is numbered S.  When e announces a canonical block, it is block S itself if canon has a
     block numbered S, and then the consumer holds, from start on, exactly canon up to block S *)
  (exists pre e,
     out = pre ++ (if enum e =? j_stop c then [e] else []) /\
     passes c e = true /\ j_stop c <= enum e /\
     (matches_new (estep e) = true -> In (eblk e) canon ->
        ((exists bS, In bS canon /\ bnum bS = j_stop c) -> enum e = j_stop c) /\
        (enum e = j_stop c ->
           hd_error stack = Some (eblk e) /\ from_num start (rev stack) = seg_num start (j_stop c) canon))).

Definition C07_seamless_num_nu : Prop :=
  forall (U : list block) (c : jcfg) (w : world) (ps : list (N * N)) (merged_end : N) (canon forked : list block),
    wf_b U = true -> lib_ok_b LNone U = true ->
    hub_of_universe U c w ->
    chain_ok canon -> incl canon U ->
    let merged := filter (fun b => bnum b <? merged_end) canon in
    eventual_tip c w canon ->
    j_mode c = 0 -> has_nu (j_filter c) (j_custom c) = true ->
    0 < j_bundle c -> Forall (fun b => bnum b < file_bound) merged ->
    let res := stream_run c w ps merged_end merged forked in
    let start := run_start c w in
    (exists b, In b canon /\ bnum b = start) ->
    exists c', cons_fold_aside cons0 (map as_new (filter is_nu (fst res))) = Some c' /\
      (snd res = JNil ->
         rev (cs_stack c') = from_num start merged \/
         from_num start (rev (cs_stack c')) = from_num start canon) /\
      (snd res = JStop -> stop_reached c canon merged start (fst res) (cs_stack c')).

(* ------------------------------------------------------------------ cursor mode: filters with New and Undo, any stop block *)

(* C07_seamless_cursor (Spec/C07_Compose_Spec.v) for every filter that lets New and Undo through and ANY stop block:
   the consumer state at the cursor as there; discipline of the delivered New / Undo / new+irreversible events for every
   outcome (a stop block only cuts the stream), and the four outcomes of C07_seamless_cursor when the stream ends
   waiting. *)
Definition C07_seamless_cursor_nu : Prop :=
  forall (U : list block) (c : jcfg) (w : world) (ps : list (N * N)) (merged_end : N) (canon forked : list block)
         (cu : cursor) (L : block) (rest hc hf : list block),
    wf_b U = true -> lib_ok_b LNone U = true ->
    hub_of_universe U c w ->
    chain_ok canon -> incl canon U ->
    let merged := filter (fun b => bnum b <? merged_end) canon in
    eventual_tip c w canon ->
    j_mode c = 1 -> j_cursor c = Some cu -> has_nu (j_filter c) (j_custom c) = true ->
    0 < j_bundle c -> Forall (fun b => bnum b < file_bound) merged ->
    from_num (rn (cu_lib cu)) canon = L :: rest -> bref L = cu_lib cu ->
    cursor_state canon forked cu L hc hf ->
    Forall (fun x => In x U) hf ->
    (cu_step cu = SUndo -> exists X, In X U /\ bref X = cu_blk cu /\ branch_from L (hc ++ hf ++ [X])) ->
    let res := stream_run c w ps merged_end merged forked in
    exists c', cons_fold_aside (mkCons (rev (hc ++ hf)) 0 false) (map as_new (filter is_nu (fst res))) = Some c' /\
               (snd res = JNil ->
                  fst res = [] \/
                  rev (cs_stack c') = above (rn (cu_lib cu)) merged \/
                  (exists r1 rest1, rest = r1 :: rest1 /\ from_num (bnum r1) (rev (cs_stack c')) = rest) \/
                  above (rn (cu_lib cu)) (rev (cs_stack c')) = rest).

(* ------------------------------------------------------------------ target-cursor mode: filters with New and Undo, any stop block *)

(* C07_seamless_target (Spec/C07_Compose_Spec.v, with its agreement hypothesis target_on_chain) for every filter that
   lets New and Undo through and ANY stop block.  files_on_hub, which the target-cursor join by NUMBER needed
   (Spec/C07_TargetUnfixed_Spec.v: C07_target_join_by_number_refuted), is gone with the fix "target join on identity" *)
Definition C07_seamless_target_nu : Prop :=
  forall (U : list block) (c : jcfg) (w : world) (ps : list (N * N)) (merged_end : N) (canon forked : list block)
         (cu : cursor) (B : block),
    wf_b U = true -> lib_ok_b LNone U = true ->
    hub_of_universe U c w ->
    chain_ok canon -> incl canon U ->
    let merged := filter (fun b => bnum b <? merged_end) canon in
    eventual_tip c w canon -> target_on_chain c w cu ->
    j_mode c = 2 -> j_cursor c = Some cu -> has_nu (j_filter c) (j_custom c) = true ->
    0 < j_bundle c -> Forall (fun b => bnum b < file_bound) merged ->
    In B canon -> bref B = cu_blk cu ->
    let res := stream_run c w ps merged_end merged forked in
    let start := run_start c w in
    (exists b, In b canon /\ bnum b = start) ->
    exists c', cons_fold_aside cons0 (map as_new (filter is_nu (fst res))) = Some c' /\
               (snd res = JNil ->
                  (exists D1 D2, from_num start merged = D1 ++ D2 /\ rev (cs_stack c') = D1) \/
                  from_num start (rev (cs_stack c')) = from_num start canon).

(* The same WITHOUT any agreement hypothesis between files, cursor and hub: target_on_chain is replaced by a hypothesis on
   the cursor alone - it was minted on the chain: its LIB is a canonical block at or below its block (strictly below for an
   Undo cursor; every cursor of a consensus-consistent reference stream is like that).  The branch of blocksThroughCursor
   for a cursor block the hub stores OFF its current chain is covered: the hub answers with the cursor's own branch from the
   joining block up to the cursor block - canonical blocks, the joining block itself first - and then as it answers a
   cursor-mode consumer at that cursor (Undo down to the junction, New up to its head).  The cursor LIB matters only there
   (blocksFromCursor serves from the cursor LIB on): a cursor whose LIB reference names a block of the hub's chain under a
   wrong number is outside. *)
Definition cursor_lib_on (canon : list block) (cu : cursor) (B : block) : Prop :=
  exists Lb, In Lb canon /\ bref Lb = cu_lib cu /\ bnum Lb <= bnum B /\
             (matches_undo (cu_step cu) = true -> bnum Lb < bnum B).

Definition C07_seamless_target_nu_full : Prop :=
  forall (U : list block) (c : jcfg) (w : world) (ps : list (N * N)) (merged_end : N) (canon forked : list block)
         (cu : cursor) (B : block),
    wf_b U = true -> lib_ok_b LNone U = true ->
    hub_of_universe U c w ->
    chain_ok canon -> incl canon U ->
    let merged := filter (fun b => bnum b <? merged_end) canon in
    eventual_tip c w canon ->
    j_mode c = 2 -> j_cursor c = Some cu -> has_nu (j_filter c) (j_custom c) = true ->
    0 < j_bundle c -> Forall (fun b => bnum b < file_bound) merged ->
    In B canon -> bref B = cu_blk cu -> cursor_lib_on canon cu B ->
    let res := stream_run c w ps merged_end merged forked in
    let start := run_start c w in
    (exists b, In b canon /\ bnum b = start) ->
    exists c', cons_fold_aside cons0 (map as_new (filter is_nu (fst res))) = Some c' /\
               (snd res = JNil ->
                  (exists D1 D2, from_num start merged = D1 ++ D2 /\ rev (cs_stack c') = D1) \/
                  from_num start (rev (cs_stack c')) = from_num start canon).

(* ... in the form of C07_seamless_target (Spec/C07_Compose_Spec.v): default filter, no stop block *)
Definition C07_seamless_target_full : Prop :=
  forall (U : list block) (c : jcfg) (w : world) (ps : list (N * N)) (merged_end : N) (canon forked : list block)
         (cu : cursor) (B : block),
    wf_b U = true -> lib_ok_b LNone U = true ->
    hub_of_universe U c w ->
    chain_ok canon -> incl canon U ->
    let merged := filter (fun b => bnum b <? merged_end) canon in
    eventual_tip c w canon ->
    j_mode c = 2 -> j_cursor c = Some cu -> j_filter c = 0 -> j_stop c = 0 ->
    0 < j_bundle c -> Forall (fun b => bnum b < file_bound) merged ->
    In B canon -> bref B = cu_blk cu -> cursor_lib_on canon cu B ->
    let res := stream_run c w ps merged_end merged forked in
    let start := run_start c w in
    (exists b, In b canon /\ bnum b = start) ->
    exists c', cons_fold_aside cons0 (map as_new (fst res)) = Some c' /\
               (snd res = JNil ->
                  (exists D1 D2, from_num start merged = D1 ++ D2 /\ rev (cs_stack c') = D1) \/
                  from_num start (rev (cs_stack c')) = from_num start canon).

(* cursor_lib_on cannot simply be dropped from C07_seamless_target_full: a (malformed) target cursor whose LIB reference names
   a block of the hub's chain under a WRONG NUMBER - here {New, block 14, LIB (id 12, number 14)} - meets every other
   hypothesis, and when the hub stores the cursor block off its chain blocksFromCursor serves "from the cursor LIB number
   on": delivered are ... New 14, Undo 14, New 115 (parent 114 never delivered).  Cursors minted by a stream carry the LIB's
   own number; this is a statement about the model only (the harness cannot craft such a cursor). *)
Definition C07_target_cursor_lib_needed : Prop :=
  exists (U : list block) (c : jcfg) (w : world) (ps : list (N * N)) (merged_end : N) (canon forked : list block)
         (cu : cursor) (B : block),
    let merged := filter (fun b => bnum b <? merged_end) canon in
    wf_b U = true /\ lib_ok_b LNone U = true /\ hub_of_universe U c w /\
    chain_ok canon /\ incl canon U /\ eventual_tip c w canon /\
    j_mode c = 2 /\ j_cursor c = Some cu /\ j_filter c = 0 /\ j_stop c = 0 /\ 0 < j_bundle c /\
    Forall (fun b => bnum b < file_bound) merged /\
    In B canon /\ bref B = cu_blk cu /\
    (exists Lb, In Lb canon /\ bid Lb = ri (cu_lib cu) /\ bnum Lb <= bnum B) /\
    (exists b, In b canon /\ bnum b = run_start c w) /\
    cons_fold_aside cons0 (map as_new (fst (stream_run c w ps merged_end merged forked))) = None.
