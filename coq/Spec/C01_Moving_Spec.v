(* C01 for histories in which the LIB MOVES (addition to Spec/C01_Spec.v): the class of histories and the
   statement.  The same class carries the C02 theorem (Spec/C02_Spec.v). *)
From BV Require Import Base.Prelude Model.Block Model.ForkDB Model.Forkable Spec.Consumer Spec.Universe Spec.C01_Spec.
Local Open Scope N_scope.

(* the starting LIB r0 is coherent with the blocks of the history: no empty parent id; a child of r0
   is higher than r0; a block that carries r0's id has r0's number *)
Definition moving_block_b (r0 : ref) (b : block) : bool :=
  negb (bparent b =? 0) &&
  (if bparent b =? ri r0 then rn r0 <? bnum b else true) &&
  (if bid b =? ri r0 then bnum b =? rn r0 else true).

(* the class (lib_ok_b (LIncl r0) is the same function as lib_ok_b (LExcl r0)): a well-formed history (any tree, any arrival order, duplicates, unlinkable blocks, blocks
   under the LIB) whose LIB declarations are in the class lib_ok_b of Spec/Universe.v (the declared
   number is the height of an ancestor-or-self in the history, or lies at/below the starting LIB;
   non-decreasing from parent to child); LIB jumps of any size, branches that disagree on finality *)
Definition moving_scope_b (r0 : ref) (h : list block) : bool :=
  wf_b h && lib_ok_b (LExcl r0) h && negb (ri r0 =? 0) && forallb (moving_block_b r0) h.

(* a configured starting LIB r0, exclusive or inclusive (forkable.WithExclusiveLIB / WithInclusiveLIB) *)
Definition rooted_mode (r0 : ref) (m : libmode) : Prop := m = LExcl r0 \/ m = LIncl r0.

(* everything else universally quantified: the includeInitialLIB flag, the handler oracle (never
   failing, or failing at any call), the first streamable block, retention (kept final blocks),
   all-blocks-trigger, the Irreversible and Stalled filter bits.  Besides c01_statement: no call
   panics or exhausts the fuel of the model's walks; with a handler that never fails every call
   returns normally and every block of the history is processed *)
Definition c01_moving_lib_statement : Prop :=
  forall cfg r0 m h,
    rooted_mode r0 m ->
    f_new (c_filter cfg) = true -> f_undo (c_filter cfg) = true ->
    moving_scope_b r0 h = true ->
    c01_statement cfg m h /\
    Forall (fun x => snd x = ROk \/ snd x = RHandlerErr) (fk_run cfg (fs_init m) h) /\
    (c_fail_at cfg = None ->
     Forall (fun x => snd x = ROk) (fk_run cfg (fs_init m) h) /\
     length (fk_run cfg (fs_init m) h) = length h).

(* ---- discovery mode (no configured LIB, hold-until-LIB, as the hub uses): the LIB is the first stored
   ancestor-or-self at the height a block declares; nothing is delivered before ---- *)
Definition disc_scope_b (h : list block) : bool :=
  wf_b h && lib_ok_b LNone h && forallb (fun b => negb (bparent b =? 0)) h.

Definition c01_discovery_statement : Prop :=
  forall cfg h,
    c_hold cfg = true -> c_incl cfg = false ->
    f_new (c_filter cfg) = true -> f_undo (c_filter cfg) = true ->
    disc_scope_b h = true ->
    c01_statement cfg LNone h /\
    Forall (fun x => snd x = ROk \/ snd x = RHandlerErr) (fk_run cfg (fs_init LNone) h) /\
    (c_fail_at cfg = None ->
     Forall (fun x => snd x = ROk) (fk_run cfg (fs_init LNone) h) /\
     length (fk_run cfg (fs_init LNone) h) = length h).
