(* Model of the on-disk block file format:
     - github.com/streamingfast/dbin (dependency): Writer.WriteHeader / WriteMessage,
       Reader.ReadHeader / ReadMessage / readBytes, exactly as that code behaves on a byte
       stream that ends (io.ReadFull into a freshly made, zero-filled buffer);
     - /repo writer.go: DBinBlockWriter.Write;
     - /repo reader.go: NewDBinBlockReader, readMessage (WITH repo_patches/C16_fix_truncated_message
       applied; the unfixed function is kept as [bs_read_message_orig] for the refutation theorem),
       Read, ReadAsBlockMeta, supportLegacy, supportLegacyMeta.
   Files and messages are byte lists ([str] = list N, one N per byte).  Protobuf
   marshalling is NOT modelled here: every function takes the decoder closure as an argument,
   exactly like the generic Go function readMessage[T].  Definitions only, no proofs. *)
From BV Require Import Base.Prelude Base.Decimal.
From Coq Require String Ascii.
Local Open Scope N_scope.

(* the type URLs supportLegacy fills in, as byte lists (String is imported only inside this module) *)
Module Urls.
  Import String Ascii.
  Fixpoint bytes_of_string (s : string) : str :=
    match s with
    | EmptyString => []
    | String a s' => N_of_ascii a :: bytes_of_string s'
    end.
  Definition url_eos := Eval compute in bytes_of_string "type.googleapis.com/sf.antelope.type.v1.Block".
  Definition url_eth := Eval compute in bytes_of_string "type.googleapis.com/sf.ethereum.type.v2.Block".
  Definition url_cosmos := Eval compute in bytes_of_string "type.googleapis.com/sf.cosmos.type.v1.Block".
  Definition url_solana := Eval compute in bytes_of_string "type.googleapis.com/sf.solana.type.v1.Block".
End Urls.
Definition url_eos := Urls.url_eos.
Definition url_eth := Urls.url_eth.
Definition url_cosmos := Urls.url_cosmos.
Definition url_solana := Urls.url_solana.

Definition lenN {A} (l : list A) : N := N.of_nat (length l).

(* ------------------------------------------------------------------ big-endian integers *)

Definition be_val (l : str) : N := fold_left (fun a c => a * 256 + c) l 0.
(* binary.BigEndian.PutUint32(b, uint32(n)) : the conversion to uint32 drops the bits >= 2^32 *)
Definition be32_bytes (n : N) : str :=
  [(n / 16777216) mod 256; (n / 65536) mod 256; (n / 256) mod 256; n mod 256].
(* binary.BigEndian.PutUint16(b, uint16(n)) *)
Definition be16_bytes (n : N) : str := [(n / 256) mod 256; n mod 256].

(* ------------------------------------------------------------------ dbin.Reader.readBytes *)

(* error value of io.ReadFull on a stream that delivers its bytes and then ends *)
Inductive rerr := ENone | EEOF | EUnexp.   (* nil | io.EOF | io.ErrUnexpectedEOF *)

(* the buffer readBytes returns is ALWAYS [length] bytes long: the bytes that could be read
   followed by the zero bytes of make([]byte, length).  The padding is kept symbolic so that a
   4 GiB length prefix costs nothing in the model. *)
Record pbuf := mkPbuf { pb_data : str; pb_pad : N }.
Definition pb_len (b : pbuf) : N := lenN (pb_data b) + pb_pad b.
Definition pb_bytes (b : pbuf) : str := pb_data b ++ repeat 0 (N.to_nat (pb_pad b)).

(* the first n bytes of s and the rest, when s has that many (n counts down in binary: a 4 GiB
   request costs at most a walk over s) *)
Fixpoint take (n : N) (s : str) {struct s} : option (str * str) :=
  if n =? 0 then Some ([], s)
  else match s with
       | [] => None
       | c :: r =>
           match take (n - 1) r with
           | Some (a, b) => Some (c :: a, b)
           | None => None
           end
       end.

Definition read_bytes (n : N) (s : str) : pbuf * str * rerr :=
  match take n s with
  | Some (a, r) => (mkPbuf a 0, r, ENone)
  | None =>
      match s with
      | [] => (mkPbuf [] n, [], EEOF)
      | _ :: _ => (mkPbuf s (n - lenN s), [], EUnexp)
      end
  end.

(* ------------------------------------------------------------------ dbin header *)

Definition magic : str := [100; 98; 105; 110].   (* "dbin" *)

Record header := mkHdr { h_ver : N; h_ctype : str }.

(* Writer.WriteHeader: version 1, 2-byte big-endian length, content type; None = error *)
Definition write_header (ct : str) : option str :=
  if (65535 <? lenN ct) || (lenN ct =? 0) then None
  else Some (magic ++ 1 :: be16_bytes (lenN ct) ++ ct).

(* Reader.ReadHeader: None = error *)
Definition read_header (s : str) : option (header * str) :=
  let '(ph, s1, e1) := read_bytes 5 s in
  match e1 with
  | ENone =>
      match pb_data ph with
      | [m0; m1; m2; m3; ver] =>
          if eqb_list [m0; m1; m2; m3] magic then
            if ver =? 0 then
              let '(ctb, s2, e2) := read_bytes 3 s1 in
              match e2 with
              | ENone =>
                  let '(_, s3, e3) := read_bytes 2 s2 in
                  match e3 with
                  | ENone => Some (mkHdr 0 (pb_data ctb), s3)
                  | _ => None
                  end
              | _ => None
              end
            else if ver =? 1 then
              let '(lb, s2, e2) := read_bytes 2 s1 in
              match e2 with
              | ENone =>
                  let '(ctb, s3, e3) := read_bytes (be_val (pb_data lb)) s2 in
                  match e3 with
                  | ENone => Some (mkHdr 1 (pb_data ctb), s3)
                  | _ => None
                  end
              | _ => None
              end
            else None
          else None
      | _ => None
      end
  | _ => None
  end.

(* ------------------------------------------------------------------ dbin messages *)

(* Writer.WriteMessage *)
Definition frame (m : str) : str := be32_bytes (lenN m) ++ m.

(* Reader.ReadMessage.  [len(lengthBytes) < 4] can never hold (readBytes always returns 4
   bytes), so after a short read of the length prefix the zero-padded prefix is decoded and
   used as the length; the returned slice is nil on a clean EOF (modelled as the empty buffer:
   bstream only looks at len(message)). *)
Definition dbin_read_message (s : str) : pbuf * str * rerr :=
  let '(lb, s1, e1) := read_bytes 4 s in
  match e1 with
  | EEOF => (mkPbuf [] 0, s1, EEOF)
  | _ =>
      let length := be_val (pb_bytes lb) in
      if length =? 0 then (mkPbuf [] 0, s1, e1)
      else read_bytes length s1
  end.

(* ------------------------------------------------------------------ bstream readMessage *)

Inductive rres (T : Type) := RItem (x : T) | REOF | RErr.
Arguments RItem {T} x.
Arguments REOF {T}.
Arguments RErr {T}.

(* reader.go readMessage[T] after the fix: decode only a completely read, non-empty
   message; io.EOF is a clean end only when nothing at all was read *)
Definition bs_read_message {T} (dec : str -> option T) (s : str) : rres T * str :=
  let '(m, s', e) := dbin_read_message s in
  match e with
  | ENone =>
      if 0 <? pb_len m
      then (match dec (pb_data m) with Some x => RItem x | None => RErr end, s')
      else (RErr, s')
  | EEOF => if pb_len m =? 0 then (REOF, s') else (RErr, s')
  | EUnexp => (RErr, s')
  end.

(* reader.go readMessage[T] as found (before the fix): decodes whenever the buffer is
   non-empty, whatever ReadMessage's error was *)
Definition bs_read_message_orig {T} (dec : str -> option T) (s : str) : rres T * str :=
  let '(m, s', e) := dbin_read_message s in
  if 0 <? pb_len m
  then (match dec (pb_bytes m) with Some x => RItem x | None => RErr end, s')
  else match e with
       | EEOF => (REOF, s')
       | _ => (RErr, s')
       end.

(* how a read of a whole file ends *)
Inductive outcome := OEOF | OErr | OHdr | OFuel.
Definition outcome_eqb (a b : outcome) : bool :=
  match a, b with
  | OEOF, OEOF | OErr, OErr | OHdr, OHdr | OFuel, OFuel => true
  | _, _ => false
  end.

(* "call Read until it returns an error"; every delivered item consumes at least 5 bytes, so
   fuel = S (length s) is never exhausted (proved); exhaustion is the distinguished OFuel *)
Fixpoint read_loop_with {T} (rm : str -> rres T * str) (fuel : nat) (s : str) : list T * outcome :=
  match fuel with
  | O => ([], OFuel)
  | S f =>
      match rm s with
      | (RItem x, s') => let '(l, o) := read_loop_with rm f s' in (x :: l, o)
      | (REOF, _) => ([], OEOF)
      | (RErr, _) => ([], OErr)
      end
  end.

Definition read_loop {T} (dec : str -> option T) := read_loop_with (bs_read_message dec).

(* NewDBinBlockReader followed by the read loop *)
Definition read_file_with {T} (rm : str -> rres T * str) (s : str) : option header * list T * outcome :=
  match read_header s with
  | None => (None, [], OHdr)
  | Some (h, s1) => let '(l, o) := read_loop_with rm (S (length s1)) s1 in (Some h, l, o)
  end.

Definition read_file {T} (dec : str -> option T) := read_file_with (bs_read_message dec).
Definition read_file_orig {T} (dec : str -> option T) := read_file_with (bs_read_message_orig dec).

Definition rf_items {T} (r : option header * list T * outcome) : list T := snd (fst r).
Definition rf_outcome {T} (r : option header * list T * outcome) : outcome := snd r.
Definition rf_header {T} (r : option header * list T * outcome) : option header := fst (fst r).

(* the bytes a correct writer produces for content type ct and messages ms *)
Definition frames (ms : list str) : str := concat (map frame ms).
Definition file_bytes (ct : str) (ms : list str) : str :=
  magic ++ 1 :: be16_bytes (lenN ct) ++ ct ++ frames ms.
Definition header_len (ct : str) : nat := (7 + length ct)%nat.

(* ------------------------------------------------------------------ blocks (pbbstream.Block) *)

Record any := mkAny { a_url : str; a_val : str }.

(* every field of pbbstream.Block; timestamp = (seconds, nanos), None = nil message *)
Record blk := mkBlk {
  b_num : N; b_id : str; b_parent : str; b_ts : option (Z * Z); b_lib : N;
  b_kind : N; b_pver : Z; b_pbuf : str; b_head : N; b_pnum : N;
  b_payload : option any }.

Record bmeta := mkMeta {
  m_num : N; m_id : str; m_parent : str; m_ts : option (Z * Z); m_lib : N; m_pnum : N }.

Definition meta_of (b : blk) : bmeta :=
  mkMeta (b_num b) (b_id b) (b_parent b) (b_ts b) (b_lib b) (b_pnum b).

(* boolean equalities (used by the checker and by the examples) *)
Definition ts_eqb (a b : option (Z * Z)) : bool :=
  opt_eqb (fun x y => (fst x =? fst y)%Z && (snd x =? snd y)%Z) a b.
Definition any_eqb (a b : any) : bool :=
  eqb_list (a_url a) (a_url b) && eqb_list (a_val a) (a_val b).
Definition blk_eqb (x y : blk) : bool :=
  (b_num x =? b_num y) && eqb_list (b_id x) (b_id y) && eqb_list (b_parent x) (b_parent y) &&
  ts_eqb (b_ts x) (b_ts y) && (b_lib x =? b_lib y) && (b_kind x =? b_kind y) &&
  (b_pver x =? b_pver y)%Z && eqb_list (b_pbuf x) (b_pbuf y) && (b_head x =? b_head y) &&
  (b_pnum x =? b_pnum y) && opt_eqb any_eqb (b_payload x) (b_payload y).
Definition meta_eqb (x y : bmeta) : bool :=
  (m_num x =? m_num y) && eqb_list (m_id x) (m_id y) && eqb_list (m_parent x) (m_parent y) &&
  ts_eqb (m_ts x) (m_ts y) && (m_lib x =? m_lib y) && (m_pnum x =? m_pnum y).

(* block.GetPayload().GetTypeUrl() (writer.go after C16_fix_writer_nil_payload) *)
Definition url_of (b : blk) : str :=
  match b_payload b with Some a => a_url a | None => [] end.

(* reader.go supportLegacy; first = GetProtocolFirstStreamableBlock, accept_solana = the
   environment variable ACCEPT_SOLANA_LEGACY_BLOCK_FORMAT is set; None = error *)
Definition support_legacy (first : N) (accept_solana : bool) (b : blk) : option blk :=
  match b_payload b with
  | Some _ => Some b
  | None =>
      let k := b_kind b in
      let url :=
        if k =? 1 then Some url_eos
        else if k =? 2 then Some url_eth
        else if k =? 5 then Some url_cosmos
        else if k =? 3 then (if accept_solana then Some url_solana else None)
        else if k =? 4 then None
        else Some [] in
      match url with
      | None => None
      | Some u =>
          Some (mkBlk (b_num b) (b_id b) (b_parent b) (b_ts b) (b_lib b) (b_kind b) (b_pver b)
                      (b_pbuf b) (b_head b)
                      (if first <? b_num b then b_num b - 1 else b_pnum b)
                      (Some (mkAny u (b_pbuf b))))
      end
  end.

(* reader.go supportLegacyMeta *)
Definition support_legacy_meta (first : N) (m : bmeta) : option bmeta :=
  if (m_pnum m =? 0) && ((first + 15) mod two64 <? m_num m) then None else Some m.

(* ------------------------------------------------------------------ DBinBlockWriter *)

Inductive wres := WOk | WErr.
Record wstate := mkW { w_hdr : bool; w_out : str }.

(* writer.go Write, generic in the marshaller (None = proto.Marshal error); a block whose encoding is
   empty is refused (fix C16-writer-empty-encoding: the reader takes a zero-length message for a damaged
   file and would lose the blocks after it) *)
Definition writer_write (penc : blk -> option str) (st : wstate) (b : blk) : wstate * wres :=
  let st1 :=
    if w_hdr st then Some st
    else match write_header (url_of b) with
         | Some h => Some (mkW true (w_out st ++ h))
         | None => None
         end in
  match st1 with
  | None => (st, WErr)
  | Some st1 =>
      match penc b with
      | None => (st1, WErr)
      | Some [] => (st1, WErr)
      | Some m => (mkW (w_hdr st1) (w_out st1 ++ frame m), WOk)
      end
  end.

(* the writer as shipped: an empty encoding is written as the frame 00 00 00 00 *)
Definition writer_write_unfixed (penc : blk -> option str) (st : wstate) (b : blk) : wstate * wres :=
  let st1 :=
    if w_hdr st then Some st
    else match write_header (url_of b) with
         | Some h => Some (mkW true (w_out st ++ h))
         | None => None
         end in
  match st1 with
  | None => (st, WErr)
  | Some st1 =>
      match penc b with
      | None => (st1, WErr)
      | Some m => (mkW (w_hdr st1) (w_out st1 ++ frame m), WOk)
      end
  end.

(* write the blocks in order, stopping at the first error *)
Fixpoint write_from (penc : blk -> option str) (st : wstate) (bs : list blk) : wstate * wres :=
  match bs with
  | [] => (st, WOk)
  | b :: r =>
      match writer_write penc st b with
      | (st', WOk) => write_from penc st' r
      | (st', WErr) => (st', WErr)
      end
  end.
Definition write_all (penc : blk -> option str) (bs : list blk) : str * wres :=
  let '(st, r) := write_from penc (mkW false []) bs in (w_out st, r).

(* the same writer used for every block of the sequence, whatever the earlier calls returned:
   the bytes produced and the result of each call *)
Fixpoint write_cont (penc : blk -> option str) (st : wstate) (bs : list blk) : wstate * list bool :=
  match bs with
  | [] => (st, [])
  | b :: r =>
      let '(st', res) := writer_write penc st b in
      let '(st'', oks) := write_cont penc st' r in
      (st'', (match res with WOk => true | WErr => false end) :: oks)
  end.

(* what reading a correctly written file of bs must deliver: the blocks after the legacy
   upgrade, up to the first one the reader refuses *)
Fixpoint decode_run {A T} (dec : A -> option T) (l : list A) : list T * outcome :=
  match l with
  | [] => ([], OEOF)
  | m :: r =>
      match dec m with
      | Some x => let '(xs, o) := decode_run dec r in (x :: xs, o)
      | None => ([], OErr)
      end
  end.

(* ------------------------------------------------------------------ fault injection *)

(* replace the byte at offset p by v *)
Definition corrupt (f : str) (p : nat) (v : N) : str := firstn p f ++ v :: skipn (S p) f.

(* a toy codec used only for concrete witnesses: a "block" is (number, payload byte) *)
Definition toy_enc (b : N * N) : str := [fst b; snd b].
Definition toy_dec (m : str) : option (N * N) :=
  match m with [n; p] => Some (n, p) | _ => None end.
