(* Common vocabulary of the fork-aware models: blocks, references, steps, events.
   Block ids are N; 0 stands for the empty string. *)
From BV Require Import Base.Prelude.
Local Open Scope N_scope.

Record block := mkBlock { bid : N; bnum : N; bparent : N; blib : N }.
Record ref := mkR { ri : N; rn : N }.                (* bstream.BlockRef; (0,0) = BlockRefEmpty *)

Definition ref_empty : ref := mkR 0 0.
Definition is_empty (r : ref) : bool := (rn r =? 0) && (ri r =? 0).   (* bstream.IsEmpty *)
Definition ref_eqb (a b : ref) : bool := (ri a =? ri b) && (rn a =? rn b).
Definition bref (b : block) : ref := mkR (bid b) (bnum b).         (* Block.AsRef *)
Definition block_eqb (a b : block) : bool :=
  (bid a =? bid b) && (bnum a =? bnum b) && (bparent a =? bparent b) && (blib a =? blib b).

Inductive step := SNew | SUndo | SIrr | SStalled | SNewIrr.
Definition step_eqb (a b : step) : bool :=
  match a, b with
  | SNew, SNew | SUndo, SUndo | SIrr, SIrr | SStalled, SStalled | SNewIrr, SNewIrr => true
  | _, _ => false
  end.
(* StepType.Matches on the bit encodings New=1 Undo=2 Irr=16 Stalled=32 NewIrr=17 *)
Definition matches_new (s : step) : bool := match s with SNew | SNewIrr => true | _ => false end.
Definition matches_undo (s : step) : bool := match s with SUndo => true | _ => false end.
Definition matches_irr (s : step) : bool := match s with SIrr | SNewIrr => true | _ => false end.

(* one handler call: the block, the step, and the cursor/junction/index data of the object *)
Record event := mkEv {
  estep : step;
  eblk : block;            (* the block handed to the handler *)
  ecblk : ref;             (* cursor block (ForkableObject.block) *)
  ehead : ref;             (* cursor head block *)
  elib : ref;              (* cursor LIB (lastLIBSent) *)
  ejunc : option ref;      (* ReorgJunctionBlock(), Undo events only *)
  eidx : N; ecount : N     (* StepIndex / StepCount *)
}.

Definition oref_eqb := opt_eqb ref_eqb.
Definition event_eqb (a b : event) : bool :=
  step_eqb (estep a) (estep b) && block_eqb (eblk a) (eblk b) && ref_eqb (ecblk a) (ecblk b) &&
  ref_eqb (ehead a) (ehead b) && ref_eqb (elib a) (elib b) && oref_eqb (ejunc a) (ejunc b) &&
  (eidx a =? eidx b) && (ecount a =? ecount b).
