(* Model of /repo/stream/stream.go (argument checks, handler chain) on top of /repo/joiningsource.go
   (live first, else file with join handler, then live), composed with the hub model (Model/Hub.v,
   Model/Burst.v), the cursor resolver and the sequential file delivery (Model/CursorResolver.v).
   The interleaving of the hub's live growth with the stream is an input: growth happens when the
   user handler has received a given number of events (`pauses`), and, once the stream is live and
   has consumed everything, one block at a time. *)
From BV Require Import Base.Prelude Model.Block Model.ForkDB Model.Forkable Model.ForkableLookups
  Model.Burst Model.Hub Model.CursorResolver.
Local Open Scope N_scope.

Record jcfg := mkJ {
  j_first : N; j_kept : N; j_bundle : N;
  j_mode : N;                 (* 0 from number | 1 from cursor | 2 target cursor *)
  j_start : Z;                (* requested start block, may be negative *)
  j_cursor : option cursor;
  j_stop : N;                 (* 0 = none *)
  j_filter : N;               (* 0 default (New|Undo) | 1 final blocks only | 2 custom *)
  j_custom : N                (* StepType bitmask of the custom filter *)
}.

Definition step_bits (s : step) : N :=
  match s with SNew => 1 | SUndo => 2 | SIrr => 16 | SStalled => 32 | SNewIrr => 17 end.

Definition filter_pass (c : jcfg) (s : step) : bool :=
  if j_filter c =? 0 then matches_new s || matches_undo s
  else if j_filter c =? 1 then matches_irr s
  else negb (N.land (step_bits s) (j_custom c) =? 0).

(* the handler chain of createSource: step filter outermost, then the stop-block handler.
   (delivered to the user, stop-block-reached) *)
Definition chain (c : jcfg) (e : event) : bool * bool :=
  if filter_pass c (estep e) then
    if negb (j_stop c =? 0) && (j_stop c <? bnum (eblk e)) then (false, true)
    else (true, negb (j_stop c =? 0) && (bnum (eblk e) =? j_stop c))
  else (false, false).

Inductive jerr := JNil | JStop | JInvalidArg | JOther | JFuel.
Definition jerr_code (e : jerr) : N :=
  match e with JNil => 0 | JStop => 1 | JInvalidArg => 2 | JOther => 3 | JFuel => 5 end.

(* resolveNegativeStartBlockNum + clamp at the first streamable block *)
Definition abs_start (first : N) (start : Z) (head : N) : N :=
  let a := if (start <? 0)%Z then (let d := Z.to_N (- start) in if head <? d then 0 else head - d)
           else Z.to_N start in
  if a <? first then first else a.

Definition on_final_block (c : cursor) : bool := (rn (cu_blk c) =? rn (cu_lib c)) && matches_irr (cu_step c).

(* the hub seen by the stream: model hub + the arrival blocks not yet pushed *)
Record world := mkW { w_hub : hub; w_rest : list block }.

Definition push_one (c : jcfg) (w : world) : world * list event :=
  match w_rest w with
  | [] => (w, [])
  | b :: rest =>
      let '(h', evs, _) := hub_live (j_first c) (j_kept c) (w_hub w) (PBlocks []) b in
      (mkW h' rest, evs)
  end.

Fixpoint push_n (c : jcfg) (n : nat) (w : world) : world * list event :=
  match n with
  | O => (w, [])
  | S n' => let '(w1, e1) := push_one c w in
            let '(w2, e2) := push_n c n' w1 in (w2, e1 ++ e2)
  end.

(* pauses: (after this many user events, push this many blocks); sorted by count *)
Fixpoint apply_pauses (c : jcfg) (count : N) (ps : list (N * N)) (w : world) : list (N * N) * world * list event :=
  match ps with
  | (after, n) :: ps' =>
      if after <=? count then
        let '(w1, e1) := push_n c (N.to_nat n) w in
        let '(ps2, w2, e2) := apply_pauses c count ps' w1 in (ps2, w2, e1 ++ e2)
      else (ps, w, [])
  | [] => ([], w, [])
  end.

(* live phase: a FIFO of hub events *)
Fixpoint live_phase (fuel : nat) (c : jcfg) (w : world) (queue : list event) (count : N) (ps : list (N * N))
         (out : list event) : list event * jerr :=
  match fuel with
  | O => (out, JFuel)
  | S f =>
      match queue with
      | e :: q =>
          let '(deliver, stop) := chain c e in
          if deliver then
            let count' := count + 1 in
            let '(ps', w', evs) := apply_pauses c count' ps w in
            if stop then (out ++ [e], JStop)
            else live_phase f c w' (q ++ evs) count' ps' (out ++ [e])
          else if stop then (out, JStop)
          else live_phase f c w q count ps out
      | [] =>
          match w_rest w with
          | [] => (out, JNil)                          (* waiting at head: nothing more will arrive *)
          | _ => let '(w', evs) := push_one c w in live_phase f c w' evs count ps out
          end
      end
  end.

Definition live_try (c : jcfg) (h : hub) (start : N) : burst :=
  if negb (h_ready h) then BErr else
  if j_mode c =? 0 then blocks_from_num (h_f h) start
  else match j_cursor c with
       | None => BErr
       | Some cu => if j_mode c =? 1 then blocks_from_cursor (h_f h) cu
                    else hub_through_cursor (h_f h) start cu
       end.

(* fileSourceHandler over the events coming out of the file source (after the cursor resolver) *)
Fixpoint file_phase (fuel : nat) (c : jcfg) (w : world) (lowest : N) (fevs : list event) (fend : jerr)
         (count : N) (ps : list (N * N)) (out : list event) : list event * jerr :=
  match fevs with
  | [] => (out, fend)
  | e :: rest =>
      let n := bnum (eblk e) in
      let join : option (list event) :=
        if (lowest <=? n) && matches_new (estep e) then   (* fix: join only on a first delivery *)
          match (if j_mode c =? 2
                 then match j_cursor c with Some cu => hub_through_cursor (h_f (w_hub w)) n cu | None => BErr end
                 else blocks_from_num (h_f (w_hub w)) n) with
          | BOk evs =>
              (* fix: the join is made on the IDENTITY of the file block (SourceFromBlockRef): the hub answers only
                 when its canonical block of that height is this very block.  In target-cursor mode too when the
                 cursor block is below the file block (fix "target join on identity": liveSourceThrough; the hub's
                 answer is then blocks_from_num n); otherwise hub_through_cursor n answers through the cursor. *)
              let passed := match j_cursor c with Some cu => rn (cu_blk cu) <? n | None => false end in
              let same := ((j_mode c =? 2) && negb passed)
                          || match evs with b0 :: _ => bid (eblk b0) =? bid (eblk e) | [] => false end in
              if h_ready (w_hub w) && same then Some evs else None
          | _ => None
          end
        else None in
      match join with
      | Some burst => live_phase fuel c w burst count ps out
      | None =>
          let lowest' := if (lowest <=? n) && matches_new (estep e) then hub_lowest (w_hub w) else lowest in
          let '(deliver, stop) := chain c e in
          if deliver then
            let count' := count + 1 in
            let '(ps', w', _) := apply_pauses c count' ps w in
            if stop then (out ++ [e], JStop)
            else file_phase fuel c w' lowest' rest fend count' ps' (out ++ [e])
          else if stop then (out, JStop)
          else file_phase fuel c w lowest' rest fend count ps out
      end
  end.

(* Final blocks only (fix "each final block once"): finalBlocksFilterHandler is stateful.  It remembers the number of
   the last final block it forwarded and drops every Irreversible / new+irreversible event whose block number is at or
   below it (after the switch from merged files to a live hub whose LIB is behind the files, the hub announces again,
   as Irreversible, blocks the files already delivered).  A dropped event is not delivered, does not count for the
   pauses, and is not seen by the stop-block handler, which sits inside the filter.
   (delivered to the user, stop-block-reached, the filter's memory afterwards) *)
Definition chain_fin (c : jcfg) (lastfin : option N) (e : event) : bool * bool * option N :=
  if filter_pass c (estep e) then
    if match lastfin with Some n => bnum (eblk e) <=? n | None => false end then (false, false, lastfin)
    else (chain c e, Some (bnum (eblk e)))
  else (false, false, lastfin).

Fixpoint live_phase_fin (fuel : nat) (c : jcfg) (w : world) (lastfin : option N) (queue : list event) (count : N)
         (ps : list (N * N)) (out : list event) : list event * jerr :=
  match fuel with
  | O => (out, JFuel)
  | S f =>
      match queue with
      | e :: q =>
          let '(deliver, stop, lastfin') := chain_fin c lastfin e in
          if deliver then
            let count' := count + 1 in
            let '(ps', w', evs) := apply_pauses c count' ps w in
            if stop then (out ++ [e], JStop)
            else live_phase_fin f c w' lastfin' (q ++ evs) count' ps' (out ++ [e])
          else if stop then (out, JStop)
          else live_phase_fin f c w lastfin' q count ps out
      | [] =>
          match w_rest w with
          | [] => (out, JNil)
          | _ => let '(w', evs) := push_one c w in live_phase_fin f c w' lastfin evs count ps out
          end
      end
  end.

Fixpoint file_phase_fin (fuel : nat) (c : jcfg) (w : world) (lastfin : option N) (lowest : N) (fevs : list event)
         (fend : jerr) (count : N) (ps : list (N * N)) (out : list event) : list event * jerr :=
  match fevs with
  | [] => (out, fend)
  | e :: rest =>
      let n := bnum (eblk e) in
      let join : option (list event) :=
        if (lowest <=? n) && matches_new (estep e) then
          match (if j_mode c =? 2
                 then match j_cursor c with Some cu => hub_through_cursor (h_f (w_hub w)) n cu | None => BErr end
                 else blocks_from_num (h_f (w_hub w)) n) with
          | BOk evs =>
              let passed := match j_cursor c with Some cu => rn (cu_blk cu) <? n | None => false end in
              let same := ((j_mode c =? 2) && negb passed)
                          || match evs with b0 :: _ => bid (eblk b0) =? bid (eblk e) | [] => false end in
              if h_ready (w_hub w) && same then Some evs else None
          | _ => None
          end
        else None in
      match join with
      | Some burst => live_phase_fin fuel c w lastfin burst count ps out
      | None =>
          let lowest' := if (lowest <=? n) && matches_new (estep e) then hub_lowest (w_hub w) else lowest in
          let '(deliver, stop, lastfin') := chain_fin c lastfin e in
          if deliver then
            let count' := count + 1 in
            let '(ps', w', _) := apply_pauses c count' ps w in
            if stop then (out ++ [e], JStop)
            else file_phase_fin fuel c w' lastfin' lowest' rest fend count' ps' (out ++ [e])
          else if stop then (out, JStop)
          else file_phase_fin fuel c w lastfin' lowest' rest fend count ps out
      end
  end.

(* the memory the final-blocks-only filter starts with (fix "none at or below the cursor"): a consumer that resumes from
   a cursor (cursor-is-start, not a target cursor) holds every final block up to the cursor block *)
Definition start_mem (c : jcfg) : option N :=
  if j_mode c =? 1 then match j_cursor c with Some cu => Some (rn (cu_blk cu)) | None => None end else None.

(* How the file source ends when it runs out of work (FileSource.launchReader).  It polls for the bundle
   lowBoundary(fstart), fstart = the block number it was started at, then for the following bundles; the stop-block marker
   (ErrStopBlockReached) is sent only AFTER a file was queued, once the next base is above the stop block.  So the marker
   needs the bundle that contains the stop block to exist AND the first bundle of the file source to exist; otherwise the
   source polls for the next file for ever: "waiting".
   fstart is the start block in number mode and in target-cursor mode (NewFileSourceThroughCursor), where a stop block below
   the start block is rejected (invalid argument) - the first bundle is then at or below the bundle of the stop block and the
   second condition is implied.  In cursor mode (NewFileSourceFromCursor) fstart is the CURSOR LIB, which the argument check
   does not look at: a cursor above the stop block and beyond the last merged file waits for its own bundle
   (model infidelity W3-C13-M1, found by the W3 audit on the unchanged library; before, the model answered JStop there). *)
Definition first_bundle_ok (c : jcfg) (merged_end : N) : bool :=
  if j_mode c =? 1
  then match j_cursor c with
       | Some cu => (rn (cu_lib cu) / j_bundle c) * j_bundle c <? merged_end
       | None => true
       end
  else true.
Definition file_end (c : jcfg) (merged_end : N) : jerr :=
  if negb (j_stop c =? 0) && ((j_stop c / j_bundle c + 1) * j_bundle c <=? merged_end) && first_bundle_ok c merged_end
  then JStop else JNil.

(* Stream.Run: merged = canonical blocks present in merged files *)
(* the default and custom step filters are stateless (live_phase, file_phase); final-blocks-only runs the
   stateful phases from the memory start_mem *)
Definition stream_run (c : jcfg) (w : world) (ps : list (N * N)) (merged_end : N) (merged forked : list block) : list event * jerr :=
  let head := match hub_head (w_hub w) with Some (r, _) => rn r | None => 0 end in
  let start := abs_start (j_first c) (j_start c) head in
  if negb (j_stop c =? 0) && (j_stop c <? start) then ([], JInvalidArg) else
  let cur := if j_mode c =? 0 then None else j_cursor c in
  if (j_filter c =? 1) && match cur with Some cu => negb (on_final_block cu) | None => false end
  then ([], JInvalidArg) else
  let fuel := (40 * (length (w_rest w) + length merged + 20))%nat in
  match live_try c (w_hub w) start with
  | BOk burst => if j_filter c =? 1 then live_phase_fin fuel c w (start_mem c) burst 0 ps []
                 else live_phase fuel c w burst 0 ps []
  | BFuel | BPanic => ([], JFuel)
  | BErr =>
      let stop_for_files := if j_stop c =? 0 then 1000000000000 else j_stop c in
      let '(fevs, r) :=
        if j_mode c =? 0 then (map (file_event SNewIrr) (file_delivery merged start stop_for_files (j_bundle c)), RsOk)
        else match j_cursor c with
             | None => ([], RsOk)
             | Some cu => if j_mode c =? 1 then from_cursor_run merged forked cu stop_for_files (j_bundle c)
                          else through_cursor_run merged forked start cu stop_for_files (j_bundle c)
             end in
      let fend := match r with
                  | RsOk => file_end c merged_end
                  | RsResolveErr => JInvalidArg   (* Stream.Run maps ErrResolveCursor to invalid argument *)
                  | RsNotImplemented => JOther
                  | RsFuel => JFuel end in
      if j_filter c =? 1 then file_phase_fin fuel c w (start_mem c) (hub_lowest (w_hub w)) fevs fend 0 ps []
      else file_phase fuel c w (hub_lowest (w_hub w)) fevs fend 0 ps []
  end.
