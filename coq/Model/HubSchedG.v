(* Model/HubSched.v for an arbitrary event production function hp (Model/HubAll.v [hprod]).

   Everything of Model/HubSched.v is reused (threads, program counters, state, requester and consumer
   steps, ghost serialisation); the only step that depends on WHAT the Forkable produces is the producer's
   step at PLocked, which there is Model/Hub.v [hub_live] (events only while the hub is ready).  Here it is
   the parameter hp; [prod_step] is the instance hp := hub_push first kept ([prod_step_g_old] in
   Proofs/C08G_SchedSerial.v), and the faithful instance is [hub_push_all first kept (fun _ => PBlocks [])]
   (Model/HubAll.v): with an empty one-block pass [hub_live_all] is at most ONE Forkable.ProcessBlock call
   whether the hub is ready or not (bootstrap(): the one-block source plays nothing, then
   h.forkable.ProcessBlock(blk)), i.e. one critical section of the write lock as written here.  With a
   non-empty pass the one-block files are separate ProcessBlock calls, each with its own Lock/Unlock, and a
   request can be served between two of them: that is coarser in this model than in the code (stated in
   Spec/C08_All_Spec.v). *)
From BV Require Import Base.Prelude Model.Block Model.ForkDB Model.Forkable Model.ForkableLookups
  Model.Burst Model.Hub Model.HubSubs Model.HubAll Model.HubSched.
Local Open Scope N_scope.

(* ------------------------------------------------------------------ the producer *)

Definition prod_step_g (fixed : bool) (hp : hprod) (st : cstate) : cstate :=
  match g_ppc st with
  | PIdle =>
      match g_script st with
      | b :: rest => set_wpend (set_script (set_ppc st (PWait b)) rest) true
      | [] => st
      end
  | PWait b =>
      if Nat.eqb (g_readers st) 0
      then set_writer (set_wpend (set_ppc st (PLocked b)) false) true
      else st
  | PLocked b =>
      let '(h', evs) := hp (g_hub st) b in
      set_log (set_hub (set_ppc st (PEvents evs)) h') (g_log st ++ [(TProd, XBlock b)])
  | PEvents [] => set_writer (set_ppc st PIdle) false
  | PEvents (e :: evs) =>
      if mutex_free fixed st then set_ppc st (PFan e (g_subs st) evs) else st
  | PFan e [] evs =>
      set_tail (set_log (set_ppc st (PEvents evs)) (g_log st ++ (TProd, XFan e) :: g_tail st)) []
  | PFan e (k :: todo) evs =>
      match nth_error (g_reqs st) k with
      | Some c =>
          match r_sub c with
          | Some s =>
              if N.of_nat (length (ms_queue s)) =? ms_cap s
              then set_ppc (put_req st k (set_rsub c (mkSub (ms_queue s) (ms_cap s) true))) (PDrop e k todo evs)
              else set_ppc (put_req st k (set_rsub c (mkSub (ms_queue s ++ [QEv e]) (ms_cap s) (ms_dropped s))))
                           (PFan e todo evs)
          | None => set_ppc st (PFan e todo evs)        (* a listed subscription always exists (proved) *)
          end
      | None => set_ppc st (PFan e todo evs)
      end
  | PDrop e k todo evs =>
      if mutex_free fixed st
      then set_subs (set_ppc st (PFan e todo evs)) (filter (fun j => negb (Nat.eqb j k)) (g_subs st))
      else st
  end.

Definition cstep_g (fixed : bool) (hp : hprod) (st : cstate) (t : tid) : cstate :=
  match t with
  | TProd => prod_step_g fixed hp st
  | TReq i => req_step fixed st i
  | TCons i => cons_step st i
  end.

Definition crun_g (fixed : bool) (hp : hprod) (st : cstate) (sched : list tid) : cstate :=
  fold_left (cstep_g fixed hp) sched st.

