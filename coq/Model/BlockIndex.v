(* C15 — executable model of transform/block_indexer.go, transform/block_index.go,
   transform/block_index_provider.go (with the two C15 fix patches applied) and of the index-related
   part of filesource.go (tweakRangeIndexResults, lookupBlockIndex, launchReader, streamReader) and
   blocktypes.go (PassesFilter).  Definitions only; proofs live in Proofs/.

   Numbers are unbounded N (uint64 wrap-around is outside the property).  A Go panic (integer
   division by zero on a zero index size / bundle size, unaligned defined start block) is the
   distinguished outcome [Panic] / [EPanic]; loops that wait on the outside world carry explicit
   fuel and return [LkFuel] / [EFuel] on exhaustion. *)
From BV Require Import Base.Prelude.
Local Open Scope N_scope.

Inductive res (A : Type) := Ok (a : A) | Panic.
Arguments Ok {A} a.
Arguments Panic {A}.

(* lowBoundary(i, mod) = i - i % mod   (callers never pass mod = 0, see the Panic branches) *)
Definition low_boundary (i m : N) : N := i - i mod m.

(* ------------------------------------------------------------------------------------------ *)
(* roaring64 bitmaps as strictly ascending lists: Add = set_insert, FastOr = set_union,
   ToArray = the list itself                                                                   *)
Fixpoint set_insert (x : N) (l : list N) : list N :=
  match l with
  | [] => [x]
  | y :: l' => if x <? y then x :: l else if x =? y then l else y :: set_insert x l'
  end.

Definition set_union (a b : list N) : list N := fold_right set_insert b a.

(* ------------------------------------------------------------------------------------------ *)
(* blockIndex.kv : map[string]*roaring64.Bitmap as an association list with distinct keys      *)
Definition kvmap := list (str * list N).

Fixpoint kv_get (k : str) (kv : kvmap) : option (list N) :=
  match kv with
  | [] => None
  | (k', s) :: kv' => if eqb_list k k' then Some s else kv_get k kv'
  end.

(* blockIndex.add *)
Fixpoint kv_add (k : str) (n : N) (kv : kvmap) : kvmap :=
  match kv with
  | [] => [(k, [n])]
  | (k', s) :: kv' => if eqb_list k k' then (k', set_insert n s) :: kv' else (k', s) :: kv_add k n kv'
  end.

Definition kv_add_keys (keys : list str) (n : N) (kv : kvmap) : kvmap :=
  fold_left (fun acc k => kv_add k n acc) keys kv.

(* ------------------------------------------------------------------------------------------ *)
(* key filters handed to the provider's filterFunc: exact keys (BitmapGetter.Get) and
   prefix/suffix pairs (BitmapGetter.GetByPrefixAndSuffix, which ignores the ("","") pair);
   the filterFunc ORs every bitmap it gets and returns ToArray of the union                    *)
Inductive fitem := FExact (k : str) | FPreSuf (p s : str).

Fixpoint is_prefix (p k : str) : bool :=
  match p, k with
  | [], _ => true
  | x :: p', y :: k' => N.eqb x y && is_prefix p' k'
  | _ :: _, [] => false
  end.
Definition is_suffix (s k : str) : bool := is_prefix (rev s) (rev k).
Definition is_nil (s : str) : bool := match s with [] => true | _ => false end.

Definition item_matches (it : fitem) (k : str) : bool :=
  match it with
  | FExact k' => eqb_list k' k
  | FPreSuf p s => negb (is_nil p && is_nil s) && is_prefix p k && is_suffix s k
  end.
Definition key_matches (f : list fitem) (k : str) : bool := existsb (fun it => item_matches it k) f.

Definition filter_blocks (m : str -> bool) (kv : kvmap) : list N :=
  fold_right (fun e acc => if m (fst e) then set_union (snd e) acc else acc) [] kv.

(* ------------------------------------------------------------------------------------------ *)
(* Index files.  The protobuf + roaring serialisation is the codec (enc, dec) over an abstract
   blob type; file names "%010d.%d.%s.idx" are the pair (low, size) (one short name per store). *)
Section Codec.
  Variable B : Type.
  Variable enc : kvmap -> B.
  Variable dec : B -> option kvmap.

  Record idxfile := mkIdx { if_low : N; if_size : N; if_blob : B }.
  (* newest write first: a later WriteObject of the same name replaces the earlier one *)
  Definition store := list idxfile.

  Definition store_find (st : store) (low size : N) : option B :=
    match find (fun f => (if_low f =? low) && (if_size f =? size)) st with
    | Some f => Some (if_blob f)
    | None => None
    end.

  (* ---------------- BlockIndexer ---------------- *)
  Record indexer := mkIx {
    ix_size : N;                      (* indexSize *)
    ix_start : option N;              (* definedStartBlock *)
    ix_cur : option (N * kvmap);      (* currentIndex: lowBlockNum, kv *)
    ix_store : store }.

  (* NewBlockIndexer: panics when the defined start block is not aligned (or indexSize = 0) *)
  Definition new_indexer (st : store) (size : N) (start : option N) : res indexer :=
    match start with
    | Some d => if (size =? 0) || negb (d mod size =? 0) then Panic
                else Ok (mkIx size start None st)
    | None => Ok (mkIx size start None st)
    end.

  (* BlockIndexer.Add; fsb = bstream.GetProtocolFirstStreamableBlock *)
  Definition indexer_add (fsb : N) (ix : indexer) (keys : list str) (n : N) : res indexer :=
    let size := ix_size ix in
    if size =? 0 then Panic (* blockNum % 0 *) else
    let cur0 :=
      match ix_cur ix with
      | Some c => Some c
      | None =>
          if n mod size =? 0 then Some (n, [])
          else if n =? fsb then Some (low_boundary n size, [])
          else match ix_start ix with
               | Some d => Some (d, [])
               | None => None            (* "couldn't determine boundary": block dropped *)
               end
      end in
    match cur0 with
    | None => Ok ix
    | Some (low, kv) =>
        if low + size <=? n then
          (* upper bound reached: writeIndex, then a fresh index at lowBoundary(blockNum) *)
          Ok (mkIx size (ix_start ix)
                (Some (low_boundary n size, kv_add_keys keys n []))
                (mkIdx low size (enc kv) :: ix_store ix))
        else
          Ok (mkIx size (ix_start ix) (Some (low, kv_add_keys keys n kv)) (ix_store ix))
    end.

  Definition feed := list (list str * N).

  Fixpoint indexer_run (fsb : N) (ix : indexer) (fd : feed) : res indexer :=
    match fd with
    | [] => Ok ix
    | (keys, n) :: fd' =>
        match indexer_add fsb ix keys n with
        | Ok ix' => indexer_run fsb ix' fd'
        | Panic => Panic
        end
    end.

  (* ---------------- GenericBlockIndexProvider ---------------- *)
  Record prov := mkProv {
    p_low : N;                 (* loadedLowBoundary *)
    p_high : N;                (* loadedExclusiveHighBoundary *)
    p_blocks : list N }.       (* matchingBlocks *)
  Definition prov0 : prov := mkProv 0 0 [].

  (* findIndexContaining (with fix: the file must cover [blockNum, blockNum+bundle)) *)
  Fixpoint find_index (st : store) (possible : list N) (blockNum bundle : N) : option (B * N * N) :=
    match possible with
    | [] => None
    | size :: rest =>
        if size <? bundle then find_index st rest blockNum bundle
        else
          let base := low_boundary blockNum size in
          if base + size <? blockNum + bundle then find_index st rest blockNum bundle
          else match store_find st base size with
               | Some blob => Some (blob, base, size)
               | None => find_index st rest blockNum bundle
               end
    end.

  (* loadRange: None = error, the provider state is then unchanged *)
  Definition load_range (st : store) (possible : list N) (m : str -> bool) (p : prov)
             (blockNum bundle : N) : option prov :=
    if (p_low p <=? blockNum) && (blockNum + bundle <=? p_high p) then Some p
    else match find_index st possible blockNum bundle with
         | None => None
         | Some (blob, low, size) =>
             match dec blob with
             | None => None
             | Some kv => Some (mkProv low (low + size) (filter_blocks m kv))
             end
         end.

  (* the loop of BlocksInRange (with fix: break on block >= exclusiveUpperBound) *)
  Fixpoint scan (lo hi : N) (l : list N) : list N :=
    match l with
    | [] => []
    | b :: l' => if b <? lo then scan lo hi l' else if hi <=? b then [] else b :: scan lo hi l'
    end.

  (* BlocksInRange: Ok (state', Some blocks) | Ok (state, None) = error | Panic (bundleSize = 0) *)
  Definition blocks_in_range (fsb : N) (st : store) (possible : list N) (m : str -> bool)
             (p : prov) (base bundle : N) : res (prov * option (list N)) :=
    if bundle =? 0 then Panic else
    if negb (base mod bundle =? 0) then Ok (p, None) else
    match load_range st possible m p base bundle with
    | None => Ok (p, None)
    | Some p' => Ok (p', Some (scan (N.max base fsb) (base + bundle) (p_blocks p')))
    end.

  (* BlocksInRange as the file source calls it (fixed bundle size; an error is None) *)
  Definition generic_query (fsb : N) (st : store) (possible : list N) (m : str -> bool) (bundle : N)
             (p : prov) (base : N) : prov * option (list N) :=
    match blocks_in_range fsb st possible m p base bundle with
    | Ok r => r
    | Panic => (p, None)
    end.
End Codec.

Arguments mkIdx {B}.
Arguments if_low {B}.
Arguments if_size {B}.
Arguments if_blob {B}.
Arguments mkIx {B}.
Arguments ix_size {B}.
Arguments ix_start {B}.
Arguments ix_cur {B}.
Arguments ix_store {B}.
Arguments store_find {B}.
Arguments new_indexer {B}.
Arguments indexer_add {B}.
Arguments indexer_run {B}.
Arguments find_index {B}.
Arguments load_range {B}.
Arguments blocks_in_range {B}.
Arguments generic_query {B}.

(* ------------------------------------------------------------------------------------------ *)
(* The file source with a block index provider: sequential model.
   PS/query: state and BlocksInRange(base, bundleSize) of whatever provider is attached
   (None = error; "no match" is the nil slice = []).
   prog: the progress timer, an oracle asked with the base of a bundle in which nothing is wanted.
   exists_/blocks: the merged bundle files (block numbers in file order).                        *)
Section FileSource.
  Variable PS : Type.
  Variable query : PS -> N -> PS * option (list N).
  Variables start stop bundle : N.        (* stop = 0: no stop block *)
  Variable prog : N -> bool.
  Variable exists_ : N -> bool.
  Variable blocks : N -> list N.

  Definition in_bundle (base x : N) : bool := (base <=? x) && (x <? base + bundle).
  Definition bounded (b : N) : bool := (start <=? b) && ((stop =? 0) || (b <=? stop)).

  (* tweakRangeIndexResults: returns the pruned whitelist and the blocks to let through *)
  Definition tweak_add (base : N) (wl : list N) : list N :=
    filter (in_bundle base) wl
    ++ (if in_bundle base start then [start] else [])
    ++ (if negb (stop =? 0) && in_bundle base stop then [stop] else []).

  Definition tweak (base : N) (wl inb : list N) : list N * list N :=
    let add := tweak_add base wl in
    let wl' := filter (fun w => base + bundle <=? w) wl in
    (wl', match add with
          | [] => inb
          | _ => filter bounded (fold_right set_insert [] (inb ++ add))
          end).

  (* lookupBlockIndex *)
  Inductive lk := LkFuel | LkRes (ps : PS) (wl : list N) (base : N) (out : list N) (noMore : bool).

  Fixpoint lookup_loop (fuel : nat) (ps : PS) (wl : list N) (base : N) : lk :=
    match fuel with
    | O => LkFuel
    | S f =>
        let (ps', r) := query ps base in
        match r with
        | None => LkRes ps' wl base [] true
        | Some inb =>
            let (wl', out) := tweak base wl inb in
            match out with
            | [] => if prog base then LkRes ps' wl' base [base] false
                    else lookup_loop f ps' wl' (base + bundle)
            | _ => LkRes ps' wl' base out false
            end
        end
    end.

  Definition lookup (fuel : nat) (ps : PS) (wl : list N) (inn : N) : lk :=
    if negb (stop =? 0) && (stop <? inn) then LkRes ps wl inn [] true
    else lookup_loop fuel ps wl inn.

  (* incomingBlocksFile.PassesFilter on a non-nil filter: drop every entry <= blockNum, pass iff
     one was dropped *)
  Fixpoint drop_le (n : N) (l : list N) : list N :=
    match l with
    | [] => []
    | x :: l' => if x <=? n then drop_le n l' else l
    end.
  Definition passes (n : N) (l : list N) : bool :=
    match l with x :: _ => x <=? n | [] => false end.

  (* streamReader: filt = None is the nil filter (everything passes) *)
  Fixpoint stream_file (base : N) (filt : option (list N)) (bl : list N) : list N :=
    match bl with
    | [] => []
    | b :: bl' =>
        if (b <? start) || (b <? base) then stream_file base filt bl'
        else match filt with
             | None => b :: stream_file base None bl'
             | Some l =>
                 if passes b l then b :: stream_file base (Some (drop_le b l)) bl'
                 else stream_file base (Some (drop_le b l)) bl'
             end
    end.

  (* what launchReader decides before opening a bundle *)
  Inductive plan_res :=
  | PlFuel
  | Pl (prov' : option PS) (wl' : list N) (filt : option (list N)) (base' : N).

  Definition plan (lfuel : nat) (prov : option PS) (wl : list N) (base : N) : plan_res :=
    match prov with
    | None => Pl None wl None base
    | Some ps =>
        match lookup lfuel ps wl base with
        | LkFuel => PlFuel
        | LkRes ps' wl' nb out noMore =>
            if noMore then
              (* provider dropped for good; the bundle is read entirely *)
              if negb (exists_ nb) && (base <? nb) then Pl None wl' None (nb - bundle)
              else Pl None wl' None nb
            else Pl (Some ps') wl' (Some out) nb
        end
    end.

  (* how a run ends: ErrStopBlockReached | waiting (forever) for the bundle file at base |
     model fuel exhausted | panic (bundle size 0) *)
  Inductive fend := EStop | EWait (base : N) | EFuel | EPanic.

  Fixpoint run (fuel lfuel : nat) (prov : option PS) (wl : list N) (base : N) : list N * fend :=
    match fuel with
    | O => ([], EFuel)
    | S f =>
        match plan lfuel prov wl base with
        | PlFuel => ([], EFuel)
        | Pl prov' wl' filt base' =>
            if negb (exists_ base') then
              (* the reader retries the same base forever; with a provider still attached every
                 retry calls lookupBlockIndex again, now with the whitelist pruned by the previous
                 call, which can move it forward; once nothing was pruned the retries repeat *)
              if (length wl' <? length wl)%nat then run f lfuel prov' wl' base'
              else ([], EWait base')
            else
              let d := stream_file base' filt (blocks base') in
              if negb (stop =? 0) && (stop <? base' + bundle) then (d, EStop)
              else let (ds, e) := run f lfuel prov' wl' (base' + bundle) in (d ++ ds, e)
        end
    end.

  Definition file_source_run (fuel lfuel : nat) (prov : option PS) (wl : list N) : list N * fend :=
    if bundle =? 0 then ([], EPanic)
    else run fuel lfuel prov wl (low_boundary start bundle).
End FileSource.
