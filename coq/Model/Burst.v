(* Model of the burst computations of /repo/forkable/forkable.go that the hub serves subscriptions
   from: blocksFromNum, blocksFromNumWithForks, blocksFromCursor (with the fix: an Undo cursor whose
   block is now final gets new+irreversible), blocksThroughCursor, and hub.SourceThroughCursor's
   shortcut.  Burst events reuse the event record (eidx = ecount = 0). *)
From BV Require Import Base.Prelude Model.Block Model.ForkDB Model.Forkable.
Local Open Scope N_scope.

Record cursor := mkCursor { cu_step : step; cu_blk : ref; cu_head : ref; cu_lib : ref }.

Inductive burst :=
| BOk (evs : list event)
| BErr            (* any error: the hub answers "no source" *)
| BPanic          (* nil dereference of lastBlockSent *)
| BFuel.

(* wrapBlockForkableObject *)
Definition wrap (sg : seg) (st : step) (head lib : ref) (junc : option ref) : event :=
  mkEv st (eb (sent sg)) (bref (eb (sent sg))) head lib (if matches_undo st then junc else None) 0 0.

Definition block_in (id : N) (sg : list seg) : bool := existsb (fun s => sid s =? id) sg.

(* blocksFromNum *)
Definition blocks_from_num (s : fstate) (num : N) : burst :=
  if negb (has_lib (db s)) then BErr else
  match last_sent s with
  | None => BErr
  | Some hd =>
      match complete_segment (db s) (bref hd) with
      | None => BFuel
      | Some (_, false) => BErr
      | Some (sg, true) =>
          let libr := libref (db s) in
          let fix go (l : list seg) (seen : bool) : list event :=
            match l with
            | [] => []
            | x :: l' =>
                let seen' := seen || (snum x =? num) in
                if seen' then
                  let lib := if snum x <? rn libr then seg_ref x else libr in
                  let st := if snum x <=? rn libr then SNewIrr else SNew in
                  wrap x st (bref hd) lib None :: go l' seen'
                else go l' seen'
            end in
          match go sg false with [] => BErr | evs => BOk evs end
      end
  end.

(* blocksFromNumWithForks: no steps; returned as the block list sorted by (number, id) — the code's
   sort is not stable, the harness canonicalises the same way *)
Fixpoint insert_nb (b : block) (l : list block) : list block :=
  match l with
  | [] => [b]
  | x :: l' => if (bnum b <? bnum x) || ((bnum b =? bnum x) && (bid b <=? bid x)) then b :: l else x :: insert_nb b l'
  end.
Definition blocks_from_num_with_forks (s : fstate) (num : N) : option (list block) :=
  if negb (has_lib (db s)) then None
  else Some (fold_right insert_nb [] (map eb (filter (fun e => num <=? bnum (eb e)) (store (db s))))).

(* the fast path of blocksFromCursor: cursor block and LIB on the head's complete segment *)
Definition from_cursor_fast (s : fstate) (hd : block) (sg : list seg) (c : cursor) : list event :=
  let libr := libref (db s) in
  flat_map (fun x =>
    if snum x <=? rn (cu_lib c) then []
    else if snum x <=? rn libr then
      let st := if (rn (cu_blk c) <? snum x) || (matches_undo (cu_step c) && (snum x =? rn (cu_blk c)))
                then SNewIrr else SIrr in
      [wrap x st (bref hd) (seg_ref x) None]
    else if (rn (cu_blk c) <? snum x) || (matches_undo (cu_step c) && (snum x =? rn (cu_blk c)))
      then [wrap x SNew (bref hd) libr None]
    else []) sg.

(* walk from the cursor block down to the first id on the segment; Some (undos, junction id) *)
Fixpoint undo_walk (fuel : nat) (d : forkdb) (sg : list seg) (c : cursor) (id : N) (acc : list seg)
  : option (option (list seg * N)) :=
  match fuel with
  | O => None
  | S f =>
      match block_for_id d id with
      | None => Some None
      | Some found =>
          let already := (id =? ri (cu_blk c)) && step_eqb (cu_step c) SUndo in
          let acc' := if already then acc else acc ++ [found] in
          let next := bparent (eb (sent found)) in
          if block_in next sg then Some (Some (acc', next)) else undo_walk f d sg c next acc'
      end
  end.

Fixpoint from_cursor_loop (fuel : nat) (s : fstate) (hd : block) (sg : list seg) (c : cursor) : burst :=
  match fuel with
  | O => BFuel
  | S f =>
      if block_in (ri (cu_blk c)) sg && block_in (ri (cu_lib c)) sg
      then BOk (from_cursor_fast s hd sg c)
      else match undo_walk (fuel_of (db s)) (db s) sg c (ri (cu_blk c)) [] with
           | None => BFuel
           | Some None => BErr
           | Some (Some (undos, j)) =>
               match block_for_id (db s) j with
               | None => BPanic       (* unreachable: j is on the segment, hence stored *)
               | Some jb =>
                   let uev := map (fun u => wrap u SUndo (bref hd) (cu_lib c) (Some (seg_ref jb))) undos in
                   match from_cursor_loop f s hd sg (mkCursor SNew (seg_ref jb) (bref hd) (cu_lib c)) with
                   | BOk evs => BOk (uev ++ evs)
                   | other => other
                   end
               end
           end
  end.

(* blocksFromCursor *)
Definition blocks_from_cursor (s : fstate) (c : cursor) : burst :=
  if negb (has_lib (db s)) then BErr else
  match last_sent s with
  | None => BPanic
  | Some hd =>
      match complete_segment (db s) (bref hd) with
      | None => BFuel
      | Some (_, false) => BErr
      | Some ([], true) => BErr
      | Some ((s0 :: _) as sg, true) =>
          if rn (cu_lib c) <? snum s0 then BErr
          else from_cursor_loop (fuel_of (db s)) s hd sg c
      end
  end.

(* blocksThroughCursor *)
Fixpoint through_branch (l : list seg) (start : N) (c : cursor) (hd : block) (acc : list event) : option (list event) :=
  match l with
  | [] => None                                   (* "cannot match requested block" *)
  | x :: l' =>
      if snum x <? start then through_branch l' start c hd acc
      else
        let st := if snum x <=? rn (cu_lib c) then SNewIrr else SNew in
        let n := bnum (eb (sent x)) in
        let lib := if snum x <? rn (cu_lib c) then seg_ref x else cu_lib c in   (* never a LIB above the block *)
        let acc' := if (n <? rn (cu_blk c)) || ((n =? rn (cu_blk c)) && negb (matches_undo (cu_step c)))
                    then acc ++ [wrap x st (bref hd) lib None] else acc in
        if n =? rn (cu_blk c) then Some acc' else through_branch l' start c hd acc'
  end.

Definition blocks_through_cursor (s : fstate) (start : N) (c : cursor) : burst :=
  if negb (has_lib (db s)) then BErr else
  match last_sent s with
  | None => BPanic
  | Some hd =>
      match complete_segment (db s) (bref hd) with
      | None => BFuel
      | Some (_, false) => BErr
      | Some ([], true) => BErr
      | Some ((s0 :: _) as sg, true) =>
          if start <? snum s0 then BErr else
          let libr := libref (db s) in
          if block_in (ri (cu_blk c)) sg then
            BOk (flat_map (fun x =>
                   if snum x <? start then []
                   else [wrap x (if snum x <=? rn libr then SNewIrr else SNew) (bref hd)
                              (if snum x <? rn libr then seg_ref x else libr) None]) sg)
          else
            match complete_segment (db s) (cu_blk c) with
            | None => BFuel
            | Some (_, false) => BErr
            | Some ([], true) => BErr
            | Some ((c0 :: _) as csg, true) =>
                if start <? snum c0 then BErr else
                match through_branch csg start c hd [] with
                | None => BErr
                | Some pre =>
                    match blocks_from_cursor s c with
                    | BOk evs => BOk (pre ++ evs)
                    | other => other
                    end
                end
            end
      end
  end.

(* hub.SourceThroughCursor *)
Definition hub_through_cursor (s : fstate) (start : N) (c : cursor) : burst :=
  if rn (cu_blk c) <? start then blocks_from_num s start else blocks_through_cursor s start c.

(* Forkable.Linkable *)
Definition linkable (s : fstate) (b : block) : option bool :=
  match find (bid b) (store (db s)) with
  | Some _ => match block_in_chain (db s) (bref b) (blib b) with
              | None => None | Some r => Some (negb (is_empty r)) end
  | None =>
      match find (bparent b) (store (db s)) with
      | Some pe =>
          let prev := bparent (eb pe) in
          match num_of (db s) prev with
          | None => Some false
          | Some pn => match block_in_chain (db s) (mkR prev pn) (blib b) with
                       | None => None | Some r => Some (negb (is_empty r)) end
          end
      | None => Some false
      end
  end.
