(* Sequential reference semantics of bstream.FileSource (filesource.go, blockIndexProvider = nil,
   no gator): which blocks a file source hands to its handler, in which order, and how it ends.
   Definitions only.

   Anchors (filesource.go, after the C11 fix patches):
     launchReader : baseBlockNum := lowBoundary(start, bundleSize); one file per bundle, in
                    ascending base order; after a file has been queued
                    `baseBlockNum += bundleSize; if stop != 0 && baseBlockNum > stop` the
                    stop marker (ErrStopBlockReached) is queued and the reader ends;
                    a bundle file that does not exist (yet) is polled for ever.
     streamReader : per block `if blockNum < startBlockNum continue`,
                    `if blockNum < incomingBlockFile.baseNum continue` (legacy leading block).
     run          : `if lastBlockID != "" && ParentId != lastBlockID` -> non-sequential error,
                    before the handler is called.
   Heights and ids are unbounded N; id 0 stands for the empty string. *)
From BV Require Import Base.Prelude.
Local Open Scope N_scope.

Record blk := mkBlk { b_id : N; b_num : N; b_par : N }.

Definition blk_eqb (a b : blk) : bool :=
  (b_id a =? b_id b) && (b_num a =? b_num b) && (b_par a =? b_par b).

(* files = the consecutive bundle files that exist in the store, the first one being the
   bundle that contains the start block (base lowBoundary(start, bundle)); the next bundle
   (index length files) does not exist. *)
Record layout := mkLayout {
  l_files : list (list blk);
  l_start : N;
  l_bundle : N;      (* > 0; the code divides by it *)
  l_stop : N         (* 0 = no stop block *)
}.

Definition base0 (L : layout) : N := l_start L - (l_start L mod l_bundle L).   (* lowBoundary *)
Definition base_of (L : layout) (i : nat) : N := base0 L + N.of_nat i * l_bundle L.
Definition file_of (L : layout) (i : nat) : list blk := nth i (l_files L) [].
Definition nfiles (L : layout) : nat := length (l_files L).

(* streamReader's two skip tests *)
Definition keep (L : layout) (i : nat) (b : blk) : bool :=
  (l_start L <=? b_num b) && (base_of L i <=? b_num b).

(* launchReader: after file i has been queued, is the stop marker queued? *)
Definition stop_after (L : layout) (i : nat) : bool :=
  negb (l_stop L =? 0) && (l_stop L <? base_of L (S i)).

(* number of files that are read: up to and including the first file after which the stop
   marker is queued, all existing files otherwise *)
Fixpoint nsend_from (L : layout) (i fuel : nat) : nat :=
  match fuel with
  | O => i
  | S fuel' => if stop_after L i then S i else nsend_from L (S i) fuel'
  end.
Definition nsend (L : layout) : nat := nsend_from L 0 (nfiles L).

Fixpoint stopped_from (L : layout) (i fuel : nat) : bool :=
  match fuel with
  | O => false
  | S fuel' => if stop_after L i then true else stopped_from L (S i) fuel'
  end.
(* true iff the stop marker is reached with the files that exist *)
Definition stopped (L : layout) : bool := stopped_from L 0 (nfiles L).

(* blocks of file i that are submitted to the preprocessor / handler, in stored order *)
Definition kept (L : layout) (i : nat) : list blk := filter (keep L i) (file_of L i).

(* the candidate sequence: kept blocks of the files read, in file order *)
Definition candidates (L : layout) : list blk := flat_map (kept L) (seq 0 (nsend L)).

(* run's continuity check: longest prefix in which every block names its predecessor as
   parent (the first block is not checked; an empty id disables the next check exactly as
   `lastBlockID != ""` does); the flag says whether a break was found *)
Fixpoint seq_cut (last : N) (l : list blk) : list blk * bool :=
  match l with
  | [] => ([], false)
  | b :: l' =>
      if negb (last =? 0) && negb (b_par b =? last) then ([], true)
      else let (r, br) := seq_cut (b_id b) l' in (b :: r, br)
  end.

Inductive outcome :=
| ONonSeq   (* Run returns, Err() = non-sequential blocks *)
| OStop     (* Run returns, Err() = ErrStopBlockReached *)
| OTail.    (* every existing block delivered; the source keeps polling for the next bundle *)

Definition outcome_eqb (a b : outcome) : bool :=
  match a, b with ONonSeq, ONonSeq | OStop, OStop | OTail, OTail => true | _, _ => false end.

(* expected deliveries and the way the run ends when nothing fails and nobody shuts it down *)
Definition expected (L : layout) : list blk * outcome :=
  let (d, br) := seq_cut 0 (candidates L) in
  (d, if br then ONonSeq else if stopped L then OStop else OTail).

Definition expected_blocks (L : layout) : list blk := fst (expected L).
Definition expected_outcome (L : layout) : outcome := snd (expected L).

(* the stored blocks of the files read, each tagged with its file index, in stored order *)
Definition stored (L : layout) : list (nat * blk) :=
  flat_map (fun i => map (fun b => (i, b)) (file_of L i)) (seq 0 (nsend L)).

(* is_prefix a b : a is a prefix of b *)
Fixpoint is_prefix {A} (eqb : A -> A -> bool) (a b : list A) : bool :=
  match a, b with
  | [], _ => true
  | x :: a', y :: b' => eqb x y && is_prefix eqb a' b'
  | _ :: _, [] => false
  end.
