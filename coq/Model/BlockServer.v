(* Executable model of blockstream.Server (blockstream/server.go), subscription
   (blockstream/subscription.go) and the part of bstream.Buffer (buffer.go) the server uses.
   The model follows the Go code WITH the C20 fix patches applied
   (repo_patches/C20_fix_1_negative_burst, C20_fix_2_zero_size_buffer, C20_fix_3_evict_after_append);
   the code as it was before the fixes is kept at the end (suffix _orig) for the refutation
   theorems.  Definitions only, no proofs.

   Conventions: a block is its id (N).  Go `int` values (burst, buffer size, lengths, channel
   sizes) are unbounded Z: the only arithmetic the code performs on them is `len(blocks) -
   requestedBurst` and `chanSize += requestedBurst` with 0 <= requestedBurst < len(blocks) after
   the clamp, which cannot wrap (the ORIGINAL code wraps for bursts near -2^63; both behaviours are
   the panic outcome in subscribe_orig).  Panics and a blocking channel send are distinguished
   outcomes, never silently totalised. *)
From BV Require Import Base.Prelude.
Local Open Scope Z_scope.

(* ------------------------------------------------------------------ bstream.Buffer *)

(* list.List (Front = oldest = "tail", Back = newest = "head") + the key set of `elements` *)
Record buffer := mkBuf { blist : list N; bset : list N }.

Definition buf_new : buffer := mkBuf [] [].

Definition zlen {A} (l : list A) : Z := Z.of_nat (length l).

Fixpoint remove_first (x : N) (l : list N) : list N :=
  match l with
  | [] => []
  | y :: l' => if N.eqb x y then l' else y :: remove_first x l'
  end.

Definition set_remove (x : N) (s : list N) : list N := filter (fun y => negb (N.eqb x y)) s.

Definition buf_len (b : buffer) : Z := zlen (blist b).
Definition buf_all (b : buffer) : list N := blist b.                 (* AllBlocks: oldest first *)
Definition buf_tail (b : buffer) : option N := hd_error (blist b).   (* Tail: nil when empty *)
Definition buf_head (b : buffer) : option N := last (map Some (blist b)) None.
Definition buf_exists (x : N) (b : buffer) : bool := memN x (bset b).

(* AppendHead: skipped when the id is already a key of `elements` *)
Definition buf_append_head (x : N) (b : buffer) : buffer :=
  if memN x (bset b) then b else mkBuf (blist b ++ [x]) (x :: bset b).

(* Delete(blk): blk.Id on a nil block is a nil-pointer panic (None); otherwise the element the
   map points to is removed from the list and the key is deleted *)
Definition buf_delete (o : option N) (b : buffer) : option buffer :=
  match o with
  | None => None
  | Some x => Some (mkBuf (if memN x (bset b) then remove_first x (blist b) else blist b)
                          (set_remove x (bset b)))
  end.

Definition buf_pop_tail (b : buffer) : option N * buffer :=
  match blist b with
  | [] => (None, b)
  | x :: l => (Some x, mkBuf l (set_remove x (bset b)))
  end.

(* HeadBlocks(count) *)
Definition buf_head_blocks (count : Z) (b : buffer) : option (list N) :=
  if count >=? buf_len b then Some (blist b)
  else if buf_len b - count >? buf_len b then None     (* negative count: slice bounds panic *)
  else Some (skipn (Z.to_nat (buf_len b - count)) (blist b)).

(* ------------------------------------------------------------------ subscription *)

Record sub := mkSub {
  s_q : list N;          (* content of the channel incomingBlock, oldest first *)
  s_cap : N;             (* cap(incomingBlock) *)
  s_closed : bool;       (* field `closed` *)
  s_once : bool;         (* quitOnce already fired *)
  s_chclosed : bool;     (* the channel itself is closed *)
  s_ncloses : N;         (* ghost: number of close(incomingBlock) executed *)
  s_recv : list N;       (* ghost (consumer side): blocks received so far, in order *)
  s_listed : bool        (* the subscription is in Server.subscriptions *)
}.

Definition new_sub (cap : N) : sub := mkSub [] cap false false false 0 [] true.

Inductive sres := SOk (s : sub) | SBlock | SPanic.

Definition qlen (s : sub) : N := N.of_nat (length (s_q s)).

(* `ch <- blk` on a buffered channel: panics when closed, blocks when full *)
Definition chan_send (s : sub) (x : N) : sres :=
  if s_chclosed s then SPanic
  else if N.ltb (qlen s) (s_cap s) then
    SOk (mkSub (s_q s ++ [x]) (s_cap s) (s_closed s) (s_once s) (s_chclosed s) (s_ncloses s) (s_recv s) (s_listed s))
  else SBlock.

(* close(ch): panics when already closed *)
Definition chan_close (s : sub) : sres :=
  if s_chclosed s then SPanic
  else SOk (mkSub (s_q s) (s_cap s) (s_closed s) (s_once s) true (s_ncloses s + 1)%N (s_recv s) (s_listed s)).

Definition set_closed (s : sub) : sub :=
  mkSub (s_q s) (s_cap s) true (s_once s) (s_chclosed s) (s_ncloses s) (s_recv s) (s_listed s).
Definition set_once (s : sub) : sub :=
  mkSub (s_q s) (s_cap s) (s_closed s) true (s_chclosed s) (s_ncloses s) (s_recv s) (s_listed s).
Definition set_listed (v : bool) (s : sub) : sub :=
  mkSub (s_q s) (s_cap s) (s_closed s) (s_once s) (s_chclosed s) (s_ncloses s) (s_recv s) v.

(* subscription.Push *)
Definition sub_push (s : sub) (x : N) : sres :=
  if N.eqb (qlen s) (s_cap s) then
    (* quitOnce.Do(func(){ closed = true; close(incomingBlock) }) ; return *)
    if s_once s then SOk s else chan_close (set_closed (set_once s))
  else if s_closed s then SOk s
  else chan_send s x.

(* the consumer side of Server.Blocks, as a non-blocking receive *)
Inductive cres := CGot (x : N) | CEmpty | CClosed.

Definition sub_recv (s : sub) : cres * sub :=
  match s_q s with
  | x :: q => (CGot x, mkSub q (s_cap s) (s_closed s) (s_once s) (s_chclosed s) (s_ncloses s) (s_recv s ++ [x]) (s_listed s))
  | [] => (if s_chclosed s then CClosed else CEmpty, s)
  end.

(* ------------------------------------------------------------------ Server *)

Record server := mkSrv {
  sv_buf : option buffer;   (* Server.buffer (nil without ServerOptionWithBuffer / NewBufferedServer) *)
  sv_size : Z;              (* Server.bufferSize *)
  sv_subs : list sub        (* every subscription ever created, by handle; Server.subscriptions =
                               those with s_listed (their relative order is the creation order) *)
}.

Definition init_server (buffered : bool) (size : Z) : server :=
  mkSrv (if buffered then Some buf_new else None) size [].

Definition chan_base : Z := 200.

Definition ready (sv : server) : bool :=
  match sv_buf sv with None => true | Some b => buf_len b >=? sv_size sv end.

Definition window (sv : server) : list N :=
  match sv_buf sv with None => [] | Some b => buf_all b end.

Inductive bres := BOk (b : option buffer) | BPanic.

(* the buffer part of PushBlock (fixed code):
     if s.buffer != nil && s.bufferSize > 0 {
        s.buffer.AppendHead(blk)
        if s.buffer.Len() > s.bufferSize { s.buffer.Delete(s.buffer.Tail()) } } *)
Definition push_buffer (ob : option buffer) (size : Z) (x : N) : bres :=
  match ob with
  | None => BOk None
  | Some b =>
      if size >? 0 then
        let b1 := buf_append_head x b in
        if buf_len b1 >? size then
          match buf_delete (buf_tail b1) b1 with
          | Some b2 => BOk (Some b2)
          | None => BPanic
          end
        else BOk (Some b1)
      else BOk (Some b)
  end.

Inductive lres := LOk (l : list sub) | LBlock | LPanic.

(* for _, sub := range s.subscriptions { if sub.closed { continue }; sub.Push(blk) } *)
Fixpoint push_subs (l : list sub) (x : N) : lres :=
  match l with
  | [] => LOk []
  | s :: l' =>
      let r := if s_listed s then (if s_closed s then SOk s else sub_push s x) else SOk s in
      match r with
      | SOk s' => match push_subs l' x with
                  | LOk l'' => LOk (s' :: l'')
                  | LBlock => LBlock
                  | LPanic => LPanic
                  end
      | SBlock => LBlock
      | SPanic => LPanic
      end
  end.

Inductive pres := POk (sv : server) | PBlock | PPanic.

Definition push_block (sv : server) (x : N) : pres :=
  match push_buffer (sv_buf sv) (sv_size sv) x with
  | BPanic => PPanic
  | BOk ob =>
      match push_subs (sv_subs sv) x with
      | LOk l => POk (mkSrv ob (sv_size sv) l)
      | LBlock => PBlock
      | LPanic => PPanic
      end
  end.

(* blocks[lo:] *)
Definition slice_from (lo : Z) (l : list N) : option (list N) :=
  if (lo <? 0) || (lo >? zlen l) then None else Some (skipn (Z.to_nat lo) l).

(* make(chan, n) panics for n < 0 *)
Definition mk_sub (n : Z) : option sub := if n <? 0 then None else Some (new_sub (Z.to_N n)).

(* the burst loop of subscribe: for _, blk := range blocks { if sub.closed { return nil }; sub.Push(blk) } *)
Inductive burst_res := BuOk (s : sub) | BuNil | BuBlock | BuPanic.

Fixpoint burst_push (s : sub) (blocks : list N) : burst_res :=
  match blocks with
  | [] => BuOk s
  | x :: bl =>
      if s_closed s then BuNil
      else match sub_push s x with
           | SOk s' => burst_push s' bl
           | SBlock => BuBlock
           | SPanic => BuPanic
           end
  end.

Inductive subres := SubOk (sv : server) (handle : nat) | SubNil (sv : server) | SubBlock | SubPanic.

(* the burst slice and channel size computed by subscribe (fixed code: negative burst clamped) *)
Definition burst_plan (ob : option buffer) (requested : Z) : option (list N * Z) :=
  let requested := if requested <? 0 then 0 else requested in
  match ob with
  | None => Some ([], chan_base)
  | Some b =>
      let blocks := buf_all b in
      if requested <? zlen blocks then
        match slice_from (zlen blocks - requested) blocks with
        | Some bl => Some (bl, chan_base + requested)
        | None => None
        end
      else Some (blocks, chan_base + zlen blocks)
  end.

Definition subscribe (sv : server) (requested : Z) : subres :=
  match burst_plan (sv_buf sv) requested with
  | None => SubPanic
  | Some (blocks, chansize) =>
      match mk_sub chansize with
      | None => SubPanic
      | Some s0 =>
          match burst_push s0 blocks with
          | BuOk s => SubOk (mkSrv (sv_buf sv) (sv_size sv) (sv_subs sv ++ [s])) (length (sv_subs sv))
          | BuNil => SubNil sv
          | BuBlock => SubBlock
          | BuPanic => SubPanic
          end
      end
  end.

(* harness-only operation (hook VerifAttach): a burst-less subscription of the given capacity *)
Definition attach (sv : server) (cap : N) : server :=
  mkSrv (sv_buf sv) (sv_size sv) (sv_subs sv ++ [new_sub cap]).

Fixpoint upd_nth {A} (k : nat) (f : A -> A) (l : list A) {struct l} : list A :=
  match l with
  | [] => []
  | x :: l' => match k with
               | O => f x :: l'
               | S k' => x :: upd_nth k' f l'
               end
  end.

(* unsubscribe(toRemove): the list is filtered by pointer inequality *)
Definition unsubscribe (sv : server) (k : nat) : server :=
  mkSrv (sv_buf sv) (sv_size sv) (upd_nth k (set_listed false) (sv_subs sv)).

Definition listed_count (sv : server) : N :=
  N.of_nat (length (filter s_listed (sv_subs sv))).

Definition consume (sv : server) (k : nat) : cres * server :=
  match nth_error (sv_subs sv) k with
  | None => (CEmpty, sv)
  | Some s => let '(r, s') := sub_recv s in
              (r, mkSrv (sv_buf sv) (sv_size sv) (upd_nth k (fun _ => s') (sv_subs sv)))
  end.

(* ------------------------------------------------------------------ operation sequences *)

Inductive op :=
| OPush (x : N)
| OSubscribe (burst : Z)
| OAttach (cap : N)
| OUnsubscribe (k : nat)
| OConsume (k : nat).

(* what one operation lets its caller observe *)
Inductive oobs :=
| ObPush (win : list N) (rdy : bool)        (* PushBlock returned nil; window and Ready() after it *)
| ObSub (handle : option nat) (cap qlen : N) (* subscription (handle, cap, len of the channel) or nil *)
| ObUnsub (count : N)                        (* len(Server.subscriptions) afterwards *)
| ObCons (r : cres)
| ObBlocked                                  (* the operation would never return *)
| ObPanic.

Inductive step_res := StOk (sv : server) (o : oobs) | StStop (o : oobs).

Definition step (sv : server) (o : op) : step_res :=
  match o with
  | OPush x =>
      match push_block sv x with
      | POk sv' => StOk sv' (ObPush (window sv') (ready sv'))
      | PBlock => StStop ObBlocked
      | PPanic => StStop ObPanic
      end
  | OSubscribe b =>
      match subscribe sv b with
      | SubOk sv' h =>
          let s := nth h (sv_subs sv') (new_sub 0) in
          StOk sv' (ObSub (Some h) (s_cap s) (qlen s))
      | SubNil sv' => StOk sv' (ObSub None 0 0)%N
      | SubBlock => StStop ObBlocked
      | SubPanic => StStop ObPanic
      end
  | OAttach c =>
      let sv' := attach sv c in
      StOk sv' (ObSub (Some (length (sv_subs sv))) c 0%N)
  | OUnsubscribe k =>
      let sv' := unsubscribe sv k in StOk sv' (ObUnsub (listed_count sv'))
  | OConsume k =>
      let '(r, sv') := consume sv k in StOk sv' (ObCons r)
  end.

(* run a sequence; the trace stops at the first panic / blocking operation *)
Fixpoint run (sv : server) (ops : list op) : server * list oobs :=
  match ops with
  | [] => (sv, [])
  | o :: ops' =>
      match step sv o with
      | StOk sv' ob => let '(svf, tr) := run sv' ops' in (svf, ob :: tr)
      | StStop ob => (sv, [ob])
      end
  end.

Definition final (buffered : bool) (size : Z) (ops : list op) : server :=
  fst (run (init_server buffered size) ops).
Definition trace (buffered : bool) (size : Z) (ops : list op) : list oobs :=
  snd (run (init_server buffered size) ops).

(* ------------------------------------------------------------------ the code before the fixes *)

(* PushBlock: if s.buffer != nil { if Len() >= bufferSize { Delete(Tail()) }; AppendHead(blk) } *)
Definition push_buffer_orig (ob : option buffer) (size : Z) (x : N) : bres :=
  match ob with
  | None => BOk None
  | Some b =>
      if buf_len b >=? size then
        match buf_delete (buf_tail b) b with
        | Some b1 => BOk (Some (buf_append_head x b1))
        | None => BPanic
        end
      else BOk (Some (buf_append_head x b))
  end.

Definition wrap64 (z : Z) : Z := (z + 2^63) mod 2^64 - 2^63.

(* subscribe without the clamp; len(blocks)-requestedBurst wraps like Go's int *)
Definition burst_plan_orig (ob : option buffer) (requested : Z) : option (list N * Z) :=
  match ob with
  | None => Some ([], chan_base)
  | Some b =>
      let blocks := buf_all b in
      if requested <? zlen blocks then
        match slice_from (wrap64 (zlen blocks - requested)) blocks with
        | Some bl => Some (bl, wrap64 (chan_base + requested))
        | None => None
        end
      else Some (blocks, chan_base + zlen blocks)
  end.

Fixpoint push_all_orig (ob : option buffer) (size : Z) (l : list N) : bres :=
  match l with
  | [] => BOk ob
  | x :: l' => match push_buffer_orig ob size x with
               | BOk ob' => push_all_orig ob' size l'
               | BPanic => BPanic
               end
  end.
