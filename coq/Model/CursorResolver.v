(* Model of /repo/cursor_resolver.go on top of the sequential semantics of a FileSource reading
   the canonical chain (what C10 proves the pipeline delivers): NewFileSourceFromCursor /
   NewFileSourceThroughCursor.  Block ids are compared whole: the harness generates ids that are
   unique in their last 16 characters, so TruncateBlockID / HasSuffix matching coincides with
   equality (assumption recorded in the trusted base). *)
From BV Require Import Base.Prelude Model.Block Model.Burst.
Local Open Scope N_scope.

(* a block as the FileSource hands it to its handler: new+irreversible, cursor = the block itself *)
Definition file_event (st : step) (b : block) : event :=
  mkEv st b (bref b) (bref b) (bref b) None 0 0.

Record rstate := mkRS { r_seen : list block; r_resolved : bool }.
Definition rs_init : rstate := mkRS [] false.

Inductive rres := RsOk | RsResolveErr | RsNotImplemented | RsFuel.

(* sendMergedBlocksBetween *)
Definition send_between (st : step) (seen : list block) (lo hi : N) : list event :=
  map (file_event st) (filter (fun b => (lo <? bnum b) && (bnum b <=? hi)) seen).

Fixpoint lookup_blk (id : N) (l : list block) : option block :=
  match l with [] => None | b :: l' => if bid b =? id then Some b else lookup_blk id l' end.

(* resolve: Some (Some (undos, junction)) | Some None = cursor-resolution error | None = fuel *)
Fixpoint resolve_walk (fuel : nat) (c : cursor) (seen forked : list block) (prev : N) (undos : list block)
  : option (option (list block * block)) :=
  match fuel with
  | O => None
  | S f =>
      match lookup_blk prev seen with
      | Some j => Some (Some (undos, j))
      | None =>
          match lookup_blk prev forked with
          | None => Some None
          | Some fb =>
              if bnum fb <? rn (cu_lib c) then Some None
              else
                let undos' := if (bnum fb =? rn (cu_blk c)) && step_eqb (cu_step c) SUndo
                              then undos else undos ++ [fb] in
                resolve_walk f c seen forked (bparent fb) undos'
          end
      end
  end.

(* cursorResolver.ProcessBlock; forked = one-block files visible to the walk (number >= cursor LIB) *)
Definition resolver_step (c : cursor) (pass : bool) (forked : list block) (s : rstate) (b : block)
  : rstate * list event * rres :=
  if r_resolved s then (s, [file_event SNewIrr b], RsOk) else
  if pass && (bnum b <=? rn (cu_lib c)) then
    (* fix: a target cursor on a final block is resolved when that block is passed through *)
    (mkRS (r_seen s) (bid b =? ri (cu_blk c)), [file_event SNewIrr b], RsOk) else
  if bnum b <? rn (cu_blk c) then (mkRS (r_seen s ++ [b]) false, [], RsOk) else
  let seen := r_seen s ++ [b] in
  if bid b =? ri (cu_blk c) then
    if pass then (mkRS seen true, send_between SNewIrr seen (rn (cu_lib c)) (rn (cu_blk c)), RsOk)
    else if matches_undo (cu_step c) then
      (mkRS seen true,
       (if 0 <? rn (cu_blk c) then send_between SIrr seen (rn (cu_lib c)) (rn (cu_blk c) - 1) else [])
       ++ [file_event SNewIrr b], RsOk)
    else (mkRS seen true, send_between SIrr seen (rn (cu_lib c)) (rn (cu_blk c)), RsOk)
  else if pass then (mkRS seen false, [], RsNotImplemented)
  else
    let visible := filter (fun x => rn (cu_lib c) <=? bnum x) forked in
    match resolve_walk (S (length visible)) c seen visible (ri (cu_blk c)) [] with
    | None => (mkRS seen false, [], RsFuel)
    | Some None => (mkRS seen false, [], RsResolveErr)
    | Some (Some (undos, j)) =>
        (mkRS seen true,
         map (fun u => mkEv SUndo u (bref u) (cu_head c) (cu_lib c) (Some (bref j)) 0 0) undos
         ++ send_between SIrr seen (rn (cu_lib c)) (bnum j)
         ++ send_between SNewIrr seen (bnum j) (bnum b), RsOk)
    end.

Fixpoint resolver_run (c : cursor) (pass : bool) (forked : list block) (s : rstate) (l : list block)
  : list event * rres :=
  match l with
  | [] => ([], RsOk)
  | b :: l' =>
      let '(s', evs, r) := resolver_step c pass forked s b in
      match r with
      | RsOk => let '(evs', r') := resolver_run c pass forked s' l' in (evs ++ evs', r')
      | _ => (evs, r)
      end
  end.

(* the blocks a FileSource started at `start` with stop block `stop` hands over: stored order,
   from the first block >= start, through the end of the bundle that contains the stop block *)
Definition file_delivery (canon : list block) (start stop bundle : N) : list block :=
  filter (fun b => (start <=? bnum b) && (bnum b <? (stop / bundle + 1) * bundle)) canon.

Definition from_cursor_run (canon forked : list block) (c : cursor) (stop bundle : N) :=
  resolver_run c false forked rs_init (file_delivery canon (rn (cu_lib c)) stop bundle).
(* NewFileSourceThroughCursor: a target cursor whose block is below the start block "has already
   passed" and is ignored (fix C06-through-cursor-passed, the rule of ForkableHub.SourceThroughCursor):
   a plain FileSource, every block new+irreversible *)
Definition through_resolver_run (canon forked : list block) (start : N) (c : cursor) (stop bundle : N) :=
  resolver_run c true forked rs_init (file_delivery canon start stop bundle).
Definition through_cursor_run (canon forked : list block) (start : N) (c : cursor) (stop bundle : N) :=
  if rn (cu_blk c) <? start
  then (map (file_event SNewIrr) (file_delivery canon start stop bundle), RsOk)
  else through_resolver_run canon forked start c stop bundle.
