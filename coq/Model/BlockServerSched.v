(* Interleaving model of blockstream.Server for C20 (definitions only).

   Threads: ONE producer calling PushBlock for every id of its script; clients i = 0..n-1, each
   calling subscribe(burst_i) once and later unsubscribe once (the schedule decides when, or never);
   one consumer per client receiving from that client's subscription channel.  A schedule is a
   `list tid`; `cstep st t` performs the next atomic step of thread t, or leaves the state unchanged
   when that step is not enabled (waiting for the lock, for a non-empty channel, or finished).

   Atomic steps are the code segments between synchronisation operations, with the locking of the
   code (blockstream/server.go):
     PushBlock    : s.lock.RLock() ... defer RUnlock      -> read lock
     subscribe    : s.lock.Lock()  ... defer Unlock       -> write lock (append to s.subscriptions inside)
     unsubscribe  : s.lock.Lock()  ... defer Unlock       -> write lock (filter of s.subscriptions inside)
   sync.RWMutex with one reader thread: RLock is enabled iff no writer holds the lock, Lock iff
   neither the reader nor a writer holds it.  Inside PushBlock each buffer call (AppendHead,
   Len/Tail/Delete), each channel operation (len==cap test, close, send) is its own step, since
   Ready() (Buffer has its own mutex) and the consumers (channel receive) are NOT excluded by the
   server lock.  The body of subscribe / unsubscribe touches only lock-protected state and the fresh
   subscription, so it is one step together with the release of the lock.

   Ghost state (never read by a step): g_pushed = ids whose AppendHead step was executed, in order;
   c_start / c_stop = length of g_pushed when the client's subscribe / unsubscribe body ran. *)
From BV Require Import Base.Prelude Model.BlockServer.
Local Open Scope Z_scope.

Inductive tid := TProd | TClient (i : nat) | TCons (i : nat).

Inductive ppc :=
| PIdle                                      (* not inside PushBlock *)
| PLocked (x : N)                            (* RLock taken *)
| PAppended (x : N)                          (* buffer.AppendHead(blk) done *)
| PLoop (x : N) (todo : list nat)            (* for _, sub := range s.subscriptions: entries left *)
| PClose (x : N) (k : nat) (todo : list nat) (* sub.Push saw len == cap: about to quitOnce.Do(close) *)
| PSend (x : N) (k : nat) (todo : list nat). (* sub.Push saw len < cap, not closed: about to send *)

Inductive cpc :=
| CStart            (* before subscribe *)
| CSubLocked        (* inside subscribe, write lock held *)
| CSubscribed       (* subscribe returned *)
| CUnsubLocked      (* inside unsubscribe, write lock held *)
| CDone.            (* unsubscribe returned *)

Record client := mkClient {
  c_pc : cpc;
  c_burst : Z;
  c_sub : option sub;        (* the subscription subscribe created (s_listed = still in s.subscriptions) *)
  c_start : nat;             (* ghost *)
  c_stop : option nat        (* ghost *)
}.

Record cstate := mkC {
  g_buf : option buffer;
  g_size : Z;
  g_order : list nat;        (* Server.subscriptions, as client ids in subscription order *)
  g_rlock : bool;            (* the producer holds the read lock *)
  g_wlock : option nat;      (* the client holding the write lock *)
  g_ppc : ppc;
  g_script : list N;         (* ids the producer still has to push *)
  g_clients : list client;
  g_pushed : list N;         (* ghost *)
  g_bad : bool               (* a step panicked (nil tail, slice bounds, send on / close of a closed channel) *)
}.

Definition cinit (buffered : bool) (size : Z) (script : list N) (bursts : list Z) : cstate :=
  mkC (if buffered then Some buf_new else None) size [] false None PIdle script
      (map (fun b => mkClient CStart b None 0 None) bursts) [] false.

Definition set_ppc (st : cstate) (pc : ppc) : cstate :=
  mkC (g_buf st) (g_size st) (g_order st) (g_rlock st) (g_wlock st) pc (g_script st)
      (g_clients st) (g_pushed st) (g_bad st).

Definition set_bad (st : cstate) : cstate :=
  mkC (g_buf st) (g_size st) (g_order st) (g_rlock st) (g_wlock st) (g_ppc st) (g_script st)
      (g_clients st) (g_pushed st) true.

Definition set_clients (st : cstate) (cl : list client) : cstate :=
  mkC (g_buf st) (g_size st) (g_order st) (g_rlock st) (g_wlock st) (g_ppc st) (g_script st)
      cl (g_pushed st) (g_bad st).

Definition set_csub (s : sub) (c : client) : client :=
  mkClient (c_pc c) (c_burst c) (Some s) (c_start c) (c_stop c).

Definition sub_of (st : cstate) (i : nat) : option sub :=
  match nth_error (g_clients st) i with Some c => c_sub c | None => None end.

Definition put_sub (st : cstate) (i : nat) (s : sub) : cstate :=
  set_clients st (upd_nth i (set_csub s) (g_clients st)).

(* ------------------------------------------------------------------ the producer *)

Definition buffering (st : cstate) : bool :=
  match g_buf st with Some _ => g_size st >? 0 | None => false end.

Definition prod_step (st : cstate) : cstate :=
  match g_ppc st with
  | PIdle =>
      match g_script st, g_wlock st with
      | x :: rest, None =>      (* s.lock.RLock() *)
          mkC (g_buf st) (g_size st) (g_order st) true None (PLocked x) rest
              (g_clients st) (g_pushed st) (g_bad st)
      | _, _ => st
      end
  | PLocked x =>                (* SetHeadInfo; if buffer != nil && size > 0 { buffer.AppendHead(blk) *)
      mkC (match g_buf st with
           | Some b => Some (if g_size st >? 0 then buf_append_head x b else b)
           | None => None end)
          (g_size st) (g_order st) (g_rlock st) (g_wlock st) (PAppended x) (g_script st)
          (g_clients st) (g_pushed st ++ [x]) (g_bad st)
  | PAppended x =>              (* if buffer.Len() > size { buffer.Delete(buffer.Tail()) } }; range subscriptions *)
      match g_buf st with
      | Some b =>
          if (g_size st >? 0) && (buf_len b >? g_size st) then
            match buf_delete (buf_tail b) b with
            | Some b' =>
                mkC (Some b') (g_size st) (g_order st) (g_rlock st) (g_wlock st) (PLoop x (g_order st))
                    (g_script st) (g_clients st) (g_pushed st) (g_bad st)
            | None => set_bad st
            end
          else set_ppc st (PLoop x (g_order st))
      | None => set_ppc st (PLoop x (g_order st))
      end
  | PLoop x [] =>               (* RUnlock; return nil *)
      mkC (g_buf st) (g_size st) (g_order st) false (g_wlock st) PIdle (g_script st)
          (g_clients st) (g_pushed st) (g_bad st)
  | PLoop x (k :: todo) =>      (* if sub.closed { continue }; Push: len == cap ? ; if s.closed return *)
      match sub_of st k with
      | Some s =>
          if s_closed s then set_ppc st (PLoop x todo)
          else if N.eqb (qlen s) (s_cap s) then set_ppc st (PClose x k todo)
          else set_ppc st (PSend x k todo)
      | None => set_bad st      (* a subscription in the list always exists (proved) *)
      end
  | PClose x k todo =>          (* quitOnce.Do(func(){ closed = true; close(incomingBlock) }); return *)
      match sub_of st k with
      | Some s =>
          if s_once s then set_ppc st (PLoop x todo)
          else match chan_close (set_closed (set_once s)) with
               | SOk s' => set_ppc (put_sub st k s') (PLoop x todo)
               | _ => set_bad st
               end
      | None => set_bad st
      end
  | PSend x k todo =>           (* s.incomingBlock <- blk *)
      match sub_of st k with
      | Some s =>
          match chan_send s x with
          | SOk s' => set_ppc (put_sub st k s') (PLoop x todo)
          | SBlock => st        (* the send blocks: the producer waits for the consumer *)
          | SPanic => set_bad st
          end
      | None => set_bad st
      end
  end.

(* is the producer's next step enabled?  (it can only ever wait at the two places below) *)
Definition prod_enabled (st : cstate) : bool :=
  match g_ppc st with
  | PIdle => match g_script st, g_wlock st with _ :: _, None => true | _, _ => false end
  | PSend x k todo =>
      match sub_of st k with
      | Some s => match chan_send s x with SBlock => false | _ => true end
      | None => true
      end
  | _ => true
  end.

(* ------------------------------------------------------------------ clients *)

Definition set_client (st : cstate) (i : nat) (c : client) : list client :=
  upd_nth i (fun _ => c) (g_clients st).

Definition client_step (st : cstate) (i : nat) : cstate :=
  match nth_error (g_clients st) i with
  | None => st
  | Some c =>
      match c_pc c with
      | CStart =>               (* s.lock.Lock() *)
          if negb (g_rlock st) && match g_wlock st with None => true | Some _ => false end then
            mkC (g_buf st) (g_size st) (g_order st) (g_rlock st) (Some i) (g_ppc st) (g_script st)
                (set_client st i (mkClient CSubLocked (c_burst c) (c_sub c) (c_start c) (c_stop c)))
                (g_pushed st) (g_bad st)
          else st
      | CSubLocked =>           (* body of subscribe, then Unlock *)
          match burst_plan (g_buf st) (c_burst c) with
          | None => set_bad st
          | Some (blocks, chansize) =>
              match mk_sub chansize with
              | None => set_bad st
              | Some s0 =>
                  match burst_push s0 blocks with
                  | BuOk s =>
                      mkC (g_buf st) (g_size st) (g_order st ++ [i]) (g_rlock st) None (g_ppc st) (g_script st)
                          (set_client st i (mkClient CSubscribed (c_burst c) (Some s) (length (g_pushed st)) None))
                          (g_pushed st) (g_bad st)
                  | _ => set_bad st      (* nil subscription / blocked / panic: proved unreachable *)
                  end
              end
          end
      | CSubscribed =>          (* unsubscribe: s.lock.Lock() *)
          if negb (g_rlock st) && match g_wlock st with None => true | Some _ => false end then
            mkC (g_buf st) (g_size st) (g_order st) (g_rlock st) (Some i) (g_ppc st) (g_script st)
                (set_client st i (mkClient CUnsubLocked (c_burst c) (c_sub c) (c_start c) (c_stop c)))
                (g_pushed st) (g_bad st)
          else st
      | CUnsubLocked =>         (* body of unsubscribe (filter), then Unlock *)
          mkC (g_buf st) (g_size st) (filter (fun j => negb (Nat.eqb j i)) (g_order st)) (g_rlock st) None
              (g_ppc st) (g_script st)
              (set_client st i (mkClient CDone (c_burst c) (option_map (set_listed false) (c_sub c))
                                         (c_start c) (Some (length (g_pushed st)))))
              (g_pushed st) (g_bad st)
      | CDone => st
      end
  end.

(* ------------------------------------------------------------------ consumers *)

Definition cons_step (st : cstate) (i : nat) : cstate :=
  match sub_of st i with
  | Some s => match sub_recv s with
              | (CGot _, s') => put_sub st i s'
              | _ => st          (* empty: blocked; closed and drained: Server.Blocks returns *)
              end
  | None => st
  end.

Definition cstep (st : cstate) (t : tid) : cstate :=
  match t with
  | TProd => prod_step st
  | TClient i => client_step st i
  | TCons i => cons_step st i
  end.

Definition crun (st : cstate) (sched : list tid) : cstate := fold_left cstep sched st.

Definition cready (st : cstate) : bool :=
  match g_buf st with None => true | Some b => buf_len b >=? g_size st end.

Definition cwindow (st : cstate) : list N :=
  match g_buf st with None => [] | Some b => buf_all b end.
