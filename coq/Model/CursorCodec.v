(* Model of /repo/cursor.go: Cursor.String, FromString, readCursorStep, readCursorBlockRef,
   and steps.go's StepType values.  Strings are byte lists. *)
From BV Require Import Base.Prelude Base.Decimal.
Local Open Scope N_scope.

Record bref := mkRef { rid : str; rnum : N }.
(* step is the raw StepType integer; resumable steps are 1, 2, 16, 17 *)
Record cursor := mkCur { cstep : N; cblk : bref; chead : bref; clib : bref }.

Definition colon : N := 58.

(* strings.Split(s, ":") — never returns the empty list *)
Fixpoint split_on (sep : N) (s : str) (cur : str) : list str :=
  match s with
  | [] => [rev cur]
  | c :: s' => if c =? sep then rev cur :: split_on sep s' [] else split_on sep s' (c :: cur)
  end.
Definition split (sep : N) (s : str) : list str := split_on sep s [].

Fixpoint join (sep : N) (l : list str) : str :=
  match l with
  | [] => []
  | [x] => x
  | x :: l' => x ++ sep :: join sep l'
  end.

Definition step_ok (s : N) : bool := (s =? 1) || (s =? 2) || (s =? 16) || (s =? 17).

Definition cursor_string (c : cursor) : str :=
  let blk := rid (cblk c) in
  let head := rid (chead c) in
  let lib := rid (clib c) in
  if eqb_list head blk then
    join colon [[99;49]; print_dec (cstep c); print_dec (rnum (cblk c)); blk; print_dec (rnum (clib c)); lib]
  else if eqb_list blk lib then
    join colon [[99;50]; print_dec (cstep c); print_dec (rnum (cblk c)); blk; print_dec (rnum (chead c)); head]
  else
    join colon [[99;51]; print_dec (cstep c); print_dec (rnum (cblk c)); blk;
                print_dec (rnum (chead c)); head; print_dec (rnum (clib c)); lib].

Definition read_step (p : str) : option N :=
  match parse_int two63 p with
  | Some z => if (0 <=? z)%Z && step_ok (Z.to_N z) then Some (Z.to_N z) else None
  | None => None
  end.

Definition read_ref (numS idS : str) : option bref :=
  match parse_uint two64 numS with
  | Some n => Some (mkRef idS n)
  | None => None
  end.

Definition from_string (s : str) : option cursor :=
  match split colon s with
  | [p0; p1; p2; p3; p4; p5] =>
      if eqb_list p0 [99;49] then
        match read_step p1, read_ref p2 p3, read_ref p4 p5 with
        | Some st, Some b, Some l => Some (mkCur st b b l)
        | _, _, _ => None
        end
      else if eqb_list p0 [99;50] then
        match read_step p1, read_ref p2 p3, read_ref p4 p5 with
        | Some st, Some b, Some h => Some (mkCur st b h b)
        | _, _, _ => None
        end
      else None
  | [p0; p1; p2; p3; p4; p5; p6; p7] =>
      if eqb_list p0 [99;51] then
        match read_step p1, read_ref p2 p3, read_ref p4 p5, read_ref p6 p7 with
        | Some st, Some b, Some h, Some l => Some (mkCur st b h l)
        | _, _, _, _ => None
        end
      else None
  | _ => None
  end.

(* what a decode of String(c) yields: aliasing ids collapse the aliased reference *)
Definition normalize (c : cursor) : cursor :=
  if eqb_list (rid (chead c)) (rid (cblk c)) then mkCur (cstep c) (cblk c) (cblk c) (clib c)
  else if eqb_list (rid (cblk c)) (rid (clib c)) then mkCur (cstep c) (cblk c) (chead c) (cblk c)
  else c.

Definition ref_eqb (a b : bref) : bool := eqb_list (rid a) (rid b) && (rnum a =? rnum b).
Definition cursor_eqb (a b : cursor) : bool :=
  (cstep a =? cstep b) && ref_eqb (cblk a) (cblk b) && ref_eqb (chead a) (chead b) && ref_eqb (clib a) (clib b).

(* Cursor.Equals of the code: ids only *)
Definition cursor_equiv (a b : cursor) : bool :=
  (cstep a =? cstep b) && ref_eqb (cblk a) (cblk b) &&
  eqb_list (rid (chead a)) (rid (chead b)) && eqb_list (rid (clib a)) (rid (clib b)).

Definition layout_of (s : str) : N :=
  match s with 99 :: d :: _ => d - 48 | _ => 0 end.

(* the well-formedness of the C14 quantifier *)
Definition id_ok (i : str) : bool := negb (memN colon i).
Definition ref_ok (r : bref) : bool := id_ok (rid r) && (rnum r <? two64).
Definition cursor_ok (c : cursor) : bool :=
  step_ok (cstep c) && ref_ok (cblk c) && ref_ok (chead c) && ref_ok (clib c).
(* "equal ids imply equal heights" *)
Definition alias_ok (c : cursor) : bool :=
  (negb (eqb_list (rid (chead c)) (rid (cblk c))) || (rnum (chead c) =? rnum (cblk c))) &&
  (negb (eqb_list (rid (clib c)) (rid (cblk c))) || (rnum (clib c) =? rnum (cblk c))) &&
  (negb (eqb_list (rid (clib c)) (rid (chead c))) || (rnum (clib c) =? rnum (chead c))).
