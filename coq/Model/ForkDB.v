(* Model of /repo/forkable/forkdb.go.  The three Go maps links/nums/objects are one association
   list `store` of entries (a link, its number and its object are always written together by
   Forkable) plus `extra`, the nums entry InitLIB writes without a link (dropped by the first
   PurgeBeforeLIB, which rebuilds nums from links).  Parent walks run on explicit fuel; running
   out of fuel is the distinguished outcome None (a parent cycle; the Go code has loop detection
   in the segment walks and none in BlockInCurrentChain / ChainSwitchSegments). *)
From BV Require Import Base.Prelude Model.Block.
Local Open Scope N_scope.

Record entry := mkEntry { eb : block; esent : bool }.          (* ForkableBlock + sentAsNew *)

Record forkdb := mkDB {
  store : list entry;          (* insertion order; keys (bid) unique *)
  extra : option ref;          (* nums[id] written by InitLIB *)
  libref : ref
}.

Definition db_empty : forkdb := mkDB [] None ref_empty.

Fixpoint find (id : N) (l : list entry) : option entry :=
  match l with
  | [] => None
  | e :: l' => if bid (eb e) =? id then Some e else find id l'
  end.

(* f.links[id]: "" when missing *)
Definition link_of (db : forkdb) (id : N) : N :=
  match find id (store db) with Some e => bparent (eb e) | None => 0 end.

(* f.nums[id] with the found flag *)
Definition num_of (db : forkdb) (id : N) : option N :=
  match find id (store db) with
  | Some e => Some (bnum (eb e))
  | None => match extra db with
            | Some r => if ri r =? id then Some (rn r) else None
            | None => None
            end
  end.
Definition num_or0 (db : forkdb) (id : N) : N := match num_of db id with Some n => n | None => 0 end.

Definition has_lib (db : forkdb) : bool := negb (ref_eqb (libref db) ref_empty).

Definition init_lib (db : forkdb) (r : ref) : forkdb := mkDB (store db) (Some r) r.
Definition move_lib (db : forkdb) (r : ref) : forkdb := mkDB (store db) (extra db) r.

Definition fuel_of (db : forkdb) : nat := S (S (length (store db))).

(* Exists: links[id] != "" *)
Definition exists_link (db : forkdb) (id : N) : bool := negb (link_of db id =? 0).

Fixpoint put (e : entry) (l : list entry) : list entry :=
  match l with
  | [] => [e]
  | x :: l' => if bid (eb x) =? bid (eb e) then e :: l' else x :: put e l'
  end.

(* AddLink: (db', exists) *)
Definition add_link (db : forkdb) (b : block) : forkdb * bool :=
  if (bid b =? bparent b) || (bid b =? 0) then (db, false)
  else if exists_link db (bid b) then (db, true)
  else (mkDB (put (mkEntry b false) (store db)) (extra db) (libref db), false).

(* BlockInCurrentChain *)
Fixpoint bic_loop (fuel : nat) (db : forkdb) (cur : N) (target : N) : option ref :=
  match fuel with
  | O => None
  | S f =>
      let prev := link_of db cur in
      match num_of db prev with
      | None => Some ref_empty
      | Some pn =>
          if pn =? target then Some (mkR prev pn)
          else if pn <? target then Some (mkR cur target)
          else bic_loop f db prev target
      end
  end.
Definition block_in_chain (db : forkdb) (start : ref) (target : N) : option ref :=
  if rn start =? target then Some start else bic_loop (fuel_of db) db (ri start) target.

(* a forkdb Block of a segment: id, the number the walk attributes to it, its stored entry *)
Record seg := mkSeg { sid : N; snum : N; sent : entry }.
Definition seg_ref (s : seg) : ref := mkR (sid s) (snum s).

(* ReversibleSegment: Some (blocks, reachLIB); the nil results of the code are Some ([], false) *)
Fixpoint rs_loop (fuel : nat) (db : forkdb) (first : N) (cur curnum : N) (acc : list seg)
  : option (list seg * bool) :=
  match fuel with
  | O => None
  | S f =>
      if (first <? curnum) && (curnum <? rn (libref db)) then Some ([], false)
      else if cur =? ri (libref db) then Some (acc, true)
      else match find cur (store db) with
           | None => if has_lib db then Some ([], false) else Some (acc, false)
           | Some e => rs_loop f db first (bparent (eb e)) (num_or0 db (bparent (eb e)))
                               (mkSeg cur curnum e :: acc)
           end
  end.
Definition reversible_segment (db : forkdb) (first : N) (start : ref) : option (list seg * bool) :=
  rs_loop (fuel_of db) db first (ri start) (rn start) [].

(* CompleteSegment *)
Fixpoint cs_loop (fuel : nat) (db : forkdb) (cur curnum : N) (acc : list seg) (reach : bool)
  : option (list seg * bool) :=
  match fuel with
  | O => None
  | S f =>
      let reach' := reach || (cur =? ri (libref db)) in
      match find cur (store db) with
      | None => Some (acc, reach')
      | Some e => cs_loop f db (bparent (eb e)) (num_or0 db (bparent (eb e)))
                          (mkSeg cur curnum e :: acc) reach'
      end
  end.
Definition complete_segment (db : forkdb) (start : ref) : option (list seg * bool) :=
  cs_loop (fuel_of db) db (ri start) (rn start) [] false.

(* ChainSwitchSegments: undo chain newest first, redo chain oldest first, junction id (0 = "") *)
Fixpoint undo_chain (fuel : nat) (db : forkdb) (cur : N) : option (list N) :=
  match fuel with
  | O => None
  | S f =>
      let prev := link_of db cur in
      if prev =? 0 then Some [cur]
      else match undo_chain f db prev with Some l => Some (cur :: l) | None => None end
  end.

Inductive css_result :=
| CssOk (undo redo : list N) (junction : N)
| CssUnlinked
| CssFuel.

Fixpoint redo_chain (fuel : nat) (db : forkdb) (seen : list N) (cur : N) (acc : list N) : option (option (list N * N)) :=
  match fuel with
  | O => None
  | S f =>
      if memN cur seen then Some (Some (acc, cur))
      else let prev := link_of db cur in
           if prev =? 0 then Some None
           else redo_chain f db seen prev (cur :: acc)
  end.

Fixpoint take_until (j : N) (l : list N) : list N :=
  match l with [] => [] | x :: l' => if x =? j then [] else x :: take_until j l' end.

Definition chain_switch_segments (db : forkdb) (old_head new_prev : N) : css_result :=
  match undo_chain (fuel_of db) db old_head with
  | None => CssFuel
  | Some uc =>
      match redo_chain (fuel_of db) db uc new_prev [] with
      | None => CssFuel
      | Some None => CssUnlinked
      | Some (Some (redo, j)) => CssOk (take_until j uc) redo j
      end
  end.

(* BlockForID *)
Definition block_for_id (db : forkdb) (id : N) : option seg :=
  match find id (store db) with
  | Some e => Some (mkSeg id (bnum (eb e)) e)
  | None => None
  end.

(* insertion sort by id: sort.Slice(out, BlockID <) on unique ids *)
Fixpoint insert_by_id (s : seg) (l : list seg) : list seg :=
  match l with
  | [] => [s]
  | x :: l' => if sid s <? sid x then s :: l else x :: insert_by_id s l'
  end.
Definition sort_by_id (l : list seg) : list seg := fold_right insert_by_id [] l.

(* stalledInSegment *)
Definition stalled_in_segment (db : forkdb) (blocks : list seg) : list seg :=
  match blocks with
  | [] => []
  | b0 :: _ =>
      if ri (libref db) =? 0 then []
      else
        let ids := map sid blocks in
        let lo := snum b0 in
        let hi := snum (last blocks b0) in
        sort_by_id
          (map (fun e => mkSeg (bid (eb e)) (bnum (eb e)) e)
             (filter (fun e => negb (memN (bid (eb e)) ids) && (lo <=? bnum (eb e)) && (bnum (eb e) <=? hi))
                     (store db)))
  end.

(* HasNewIrreversibleSegment (called with HasLIB true): None = fuel *)
Definition has_new_irr_segment (db : forkdb) (first : N) (newlib : ref) : option (bool * list seg * list seg) :=
  if ri (libref db) =? ri newlib then Some (false, [], [])
  else match reversible_segment db first newlib with
       | None => None
       | Some (irr, _) =>
           match irr with
           | [] => Some (false, [], [])
           | _ => Some (true, irr, stalled_in_segment db irr)
           end
       end.

(* PurgeBeforeLIB *)
Definition purge_before_lib (db : forkdb) (kept : N) : forkdb :=
  let cutoff := rn (libref db) - kept in      (* N subtraction saturates at 0 like the code *)
  mkDB (filter (fun e => cutoff <=? bnum (eb e)) (store db)) None (libref db).

(* SetLIB: None = fuel *)
Definition set_lib (db : forkdb) (first : N) (head : ref) (libnum : N) : option forkdb :=
  if rn head =? first then Some (move_lib db head)
  else match block_in_chain db head libnum with
       | None => None
       | Some r => if ri r =? 0 then Some db else Some (move_lib db r)
       end.

Fixpoint set_sent (id : N) (l : list entry) : list entry :=
  match l with
  | [] => []
  | e :: l' => if bid (eb e) =? id then mkEntry (eb e) true :: l' else e :: set_sent id l'
  end.
