(* C12 — executable model of the shutdown protocol of bstream sources.  Definitions only.

   Scheduling framework: a protocol is a state record, a type of thread ids and a TOTAL function
   step : state -> tid -> state; a thread that is blocked (lock held by somebody else, channel
   not ready, nothing left to do) STUTTERS (step s t = s).  run sched s = fold_left step sched s.

   Atomic steps are the code segments between synchronisation operations and the `verifPoint`
   schedule points of the hooks patch: a step of the Run thread ends exactly where the real
   goroutine can be paused by the harness.

   shutter (github.com/streamingfast/shutter v1.5.0, modelled from its source):
     Shutdown(err):  once.Do                                        -- stage SOnce  -> SClose
                     lock; err=..; close(terminatingCh); unlock     -- stage SClose -> SCb
                     terminatingFuncLock; callbacks...; unlock      -- stage SCb    -> STerm
                     lock; close(terminatedCh); unlock              -- stage STerm  -> SDone
     a second caller of Shutdown returns at once (it does NOT wait for the first one).
     LockedInit(fn): lock; if IsTerminating {unlock; return err}; fn(); unlock
   Reduction used throughout: the critical sections of the shutter's main lock (the two in
   Shutdown, LockedInit, Err) contain no blocking operation, so each of them is ONE atomic
   step and the lock itself disappears from the state.  The locks that ARE held across blocking
   operations (MultiplexedSource.sourcesLock, handlerLock) are modelled as locks.

   Inner sources of Eternal / Joining / Multiplexed sources are abstract: they obey the Source
   contract (Shutdown makes their Run return; handler calls are made from inside their Run;
   a handler error or a failure of their own makes them shut themselves down).  Their Shutdown
   is one atomic step.  What an inner source does is given by a finite script.

   Assumed to return (always enabled steps): handler calls, factory calls, time.Sleep.

   Every model carries ghost fields: `log` (events, newest first) is what the harness observes
   on the real code; `hbegun` counts handler calls begun. *)
From BV Require Import Base.Prelude.

(* ------------------------------------------------------------------ scheduling *)
Section Sched.
  Context {state tid : Type}.
  Variable step : state -> tid -> state.
  Definition run (sched : list tid) (s : state) : state := fold_left step sched s.


  (* weak fairness, finitely: a schedule is made of n fair segments when each segment gives a turn
     to every thread that is enabled (does not stutter) in the state at which the segment starts *)
  Inductive fair_rounds : nat -> state -> list tid -> Prop :=
  | fr_0 : forall s sched, fair_rounds 0 s sched
  | fr_S : forall n s seg rest,
      (forall t, step s t <> s -> In t seg) ->
      fair_rounds n (run seg s) rest ->
      fair_rounds (S n) s (seg ++ rest).
End Sched.

(* events of the observable log; all numbers are nat (indices, small block numbers) *)
Inductive ev :=
| EPoint (p : nat)                 (* the Run thread passed schedule point p *)
| EFactory (slot ref : nat)        (* a factory was called: (0, restart block) for eternal; (slot, 0) for multiplexed;
                                      (0 = file | 1 = live, 0) for joining *)
| EHBegin (src b : nat)            (* handler call begins: inner source src delivers block b *)
| EHEnd (src b : nat) (ok : bool)  (* handler call returns *)
| EDown (src : nat)                (* inner source src is shut down (first Shutdown call on it) *)
| ERet.                            (* Run returned *)

Definition ev_eqb (a b : ev) : bool :=
  match a, b with
  | EPoint p, EPoint q => Nat.eqb p q
  | EFactory a1 a2, EFactory b1 b2 => Nat.eqb a1 b1 && Nat.eqb a2 b2
  | EHBegin a1 a2, EHBegin b1 b2 => Nat.eqb a1 b1 && Nat.eqb a2 b2
  | EHEnd a1 a2 a3, EHEnd b1 b2 b3 => Nat.eqb a1 b1 && Nat.eqb a2 b2 && Bool.eqb a3 b3
  | EDown a1, EDown b1 => Nat.eqb a1 b1
  | ERet, ERet => true
  | _, _ => false
  end.

(* script of an abstract inner source: deliver block b (the user handler answers ok / error),
   or fail on its own.  With an empty script the source blocks until it is shut down. *)
Inductive iev := IBlock (b : nat) (ok : bool) | IFail.

(* l with its k-th element replaced by f of it (unchanged when k is out of range) *)
Fixpoint upd {A} (l : list A) (k : nat) (f : A -> A) : list A :=
  match l, k with
  | [], _ => []
  | x :: r, O => f x :: r
  | x :: r, S k' => x :: upd r k' f
  end.

(* stage of the one effective Shutdown() call of a shutter *)
Inductive sdstage := SOnce | SClose | SCb | STerm | SDone.
Definition sd_rank (g : sdstage) : nat :=
  match g with SOnce => 4 | SClose => 3 | SCb => 2 | STerm => 1 | SDone => 0 end.

(* ================================================================== EternalSource
   eternalsource.go Run():
     for { if IsTerminating {return}                    PCheck   -> point 0 (eternal.after_check)
           src := factory(lastProcessedBlockRef, h')    PFactory -> point 1 (eternal.after_factory)
           fixed:   LockedInit{currentSource = src} or {src.Shutdown; return}
           unfixed: currentSource = src                 PAssign  -> point 2 (eternal.after_assign)
           src.Run()                                    PRun / PInH
           <-src.Terminating()                          PWait    -> point 3 (eternal.inner_terminated)
           time.Sleep(restartDelay)                     PSleep   -> point 4 (eternal.after_sleep) }
   h' = handler wrapper: err := h(blk); if err == nil { lastProcessedBlockRef = blk }
   OnTerminating callback (registered by the constructor): if currentSource != nil { currentSource.Shutdown }
   Only the inner source created last can still be alive (Run of the previous one returned), so the
   state keeps that one; `cur_is_src` says whether es.currentSource is that source. *)
Module Et.
  Inductive pc := PCheck | PFactory | PAssign | PRun | PInH (b : nat) (ok : bool) | PWait | PSleep | PRet.
  Inductive tid := TRun | TX.

  Record state := mk {
    pcr : pc;                 (* Run thread *)
    xs : option sdstage;      (* external Shutdown thread: None = Shutdown not called yet *)
    terminating : bool; terminated : bool;
    nsrc : nat;               (* inner sources created so far; the local `src` is number nsrc-1 *)
    cur_is_src : bool;        (* es.currentSource == src *)
    src_term : bool;          (* src is terminating *)
    script : list iev;        (* what src still does *)
    supply : list (list iev); (* scripts of the sources the factory will create next *)
    last : nat;               (* lastProcessedBlockRef (0 = BlockRefEmpty) *)
    log : list ev; hbegun : nat }.

  Definition init (supply : list (list iev)) : state :=
    mk PCheck None false false 0 false false [] supply 0 [] 0.

  Definition set_pc (s : state) p := mk p (xs s) (terminating s) (terminated s) (nsrc s) (cur_is_src s) (src_term s) (script s) (supply s) (last s) (log s) (hbegun s).
  Definition emit (s : state) e := mk (pcr s) (xs s) (terminating s) (terminated s) (nsrc s) (cur_is_src s) (src_term s) (script s) (supply s) (last s) (e :: log s) (hbegun s).
  Definition set_xs (s : state) x := mk (pcr s) x (terminating s) (terminated s) (nsrc s) (cur_is_src s) (src_term s) (script s) (supply s) (last s) (log s) (hbegun s).
  Definition set_script (s : state) sc := mk (pcr s) (xs s) (terminating s) (terminated s) (nsrc s) (cur_is_src s) (src_term s) sc (supply s) (last s) (log s) (hbegun s).
  (* src.Shutdown(): atomic; logs EDown the first time *)
  Definition shut_src (s : state) : state :=
    if src_term s then s else
    mk (pcr s) (xs s) (terminating s) (terminated s) (nsrc s) (cur_is_src s) true (script s) (supply s) (last s) (EDown (nsrc s - 1) :: log s) (hbegun s).

  Definition step_run (fixed : bool) (s : state) : state :=
    match pcr s with
    | PCheck => if terminating s then emit (set_pc s PRet) ERet else emit (set_pc s PFactory) (EPoint 0)
    | PFactory =>
        let sc := match supply s with [] => [] | x :: _ => x end in
        mk PAssign (xs s) (terminating s) (terminated s) (S (nsrc s)) false false sc (tl (supply s)) (last s)
           (EPoint 1 :: EFactory 0 (last s) :: log s) (hbegun s)
    | PAssign =>
        if fixed && terminating s then emit (set_pc (shut_src s) PRet) ERet
        else mk PRun (xs s) (terminating s) (terminated s) (nsrc s) true (src_term s) (script s) (supply s) (last s) (EPoint 2 :: log s) (hbegun s)
    | PRun =>
        if src_term s then set_pc s PWait
        else match script s with
             | [] => s                                   (* blocked: waits for blocks or for its Terminating *)
             | IBlock b ok :: r =>
                 mk (PInH b ok) (xs s) (terminating s) (terminated s) (nsrc s) (cur_is_src s) (src_term s) r (supply s) (last s)
                    (EHBegin (nsrc s - 1) b :: log s) (S (hbegun s))
             | IFail :: r => shut_src (set_script s r)
             end
    | PInH b ok =>
        let s1 := mk PRun (xs s) (terminating s) (terminated s) (nsrc s) (cur_is_src s) (src_term s) (script s) (supply s)
                     (if ok then b else last s) (EHEnd (nsrc s - 1) b ok :: log s) (hbegun s) in
        if ok then s1 else shut_src s1                   (* handler error: the inner source shuts itself down *)
    | PWait => if src_term s then emit (set_pc s PSleep) (EPoint 3) else s
    | PSleep => emit (set_pc s PCheck) (EPoint 4)
    | PRet => s
    end.

  Definition step_x (s : state) : state :=
    match xs s with
    | None => set_xs s (Some SClose)                                              (* once.Do *)
    | Some SOnce => set_xs s (Some SClose)
    | Some SClose => mk (pcr s) (Some SCb) true (terminated s) (nsrc s) (cur_is_src s) (src_term s) (script s) (supply s) (last s) (log s) (hbegun s)
    | Some SCb => set_xs (if cur_is_src s then shut_src s else s) (Some STerm)    (* the OnTerminating callback *)
    | Some STerm => mk (pcr s) (Some SDone) (terminating s) true (nsrc s) (cur_is_src s) (src_term s) (script s) (supply s) (last s) (log s) (hbegun s)
    | Some SDone => s
    end.

  Definition step (fixed : bool) (s : state) (t : tid) : state :=
    match t with TRun => step_run fixed s | TX => step_x s end.

  Definition returned (s : state) : bool := match pcr s with PRet => true | _ => false end.
  Definition sd_done (s : state) : bool := match xs s with Some SDone => true | _ => false end.
  Definition done (s : state) : bool := returned s && terminated s.
End Et.

(* ================================================================== JoiningSource
   joiningsource.go (after fix: shutdownWith = LockedInit{OnTerminating(src.Shutdown)} or {src.Shutdown; return}):
     run(): if src := tryGetSource(live) != nil { liveSource = src        PStart    -> point 10 (joining.live_obtained)
                register(live)                                           PRegLive  -> point 11 (joining.live_registered)
                live.Run(); return live.Err() }                          PRunLive / PInHLive
            fileSrc := tryGetSource(file); if nil { return error }       PGetFile  -> point 12 (joining.file_obtained)
            register(fileSrc)                                            PRegFile  -> point 13 (joining.file_registered)
            fileSrc.Run()                                                PRunFile / PInHFile / PInJoinF / PJoinRet
            if liveSource == nil { return fileSrc.Err() }                          -> point 14 (joining.joined)
            register(live)                                               PRegLive  -> point 15 (joining.joined_registered)
            live.Run(); return live.Err()
     fileSourceHandler: the live-factory call of the join is a state of its own (PInJoinF: a Shutdown may complete
                        inside it); when the factory gives a source: liveSource = src     -> point 16 (joining.handler_live_obtained)
                        return stopSourceOnJoin (the file source shuts itself down); else user handler
     Run(): s.Shutdown(run())                                            PShut / PSdBusy
   Unfixed code: register(x) = OnTerminating(x.Shutdown) whatever the state of the shutter.
   Inner sources: 0 = file source, 1 = live source.  The OnTerminating callbacks run in registration
   order, which is always: file (if registered), then live (if registered). *)
Module Jn.
  Inductive fev := FBlock (b : nat) (ok : bool) | FJoin (b : nat) | FFail.
  Inductive pc :=
  | PStart | PRegLive (joined : bool) | PRunLive | PInHLive (b : nat) (ok : bool)
  | PGetFile | PRegFile | PRunFile | PInHFile (b : nat) (ok : bool) | PInJoinF | PJoinRet
  | PShut | PSdBusy | PRet.
  Inductive xstate := XIdle | XBusy | XDone.
  Inductive tid := TRun | TX.
  Record cfg := mkcfg { fixed : bool; live_first : bool; file_avail : bool }.

  Record state := mk {
    pcr : pc;   (* Run thread *)
    pcx : xstate;   (* external Shutdown thread *)
    sdst : option sdstage;   (* stage of the one effective Shutdown(); None = not called; Some SClose = once won *)
    have_live : bool;   (* s.liveSource != nil *)
    reg_file : bool;   (* OnTerminating(fileSrc.Shutdown) registered *)
    reg_live : bool;   (* OnTerminating(liveSource.Shutdown) registered *)
    file_term : bool;   (* file source terminating *)
    live_term : bool;   (* live source terminating *)
    fscript : list fev;   (* what the file source still does *)
    lscript : list iev;   (* what the live source still does *)
    log : list ev;
    hbegun : nat }.
  Definition set_pcr (s : state) v := mk v (pcx s) (sdst s) (have_live s) (reg_file s) (reg_live s) (file_term s) (live_term s) (fscript s) (lscript s) (log s) (hbegun s).
  Definition set_pcx (s : state) v := mk (pcr s) v (sdst s) (have_live s) (reg_file s) (reg_live s) (file_term s) (live_term s) (fscript s) (lscript s) (log s) (hbegun s).
  Definition set_sdst (s : state) v := mk (pcr s) (pcx s) v (have_live s) (reg_file s) (reg_live s) (file_term s) (live_term s) (fscript s) (lscript s) (log s) (hbegun s).
  Definition set_have_live (s : state) v := mk (pcr s) (pcx s) (sdst s) v (reg_file s) (reg_live s) (file_term s) (live_term s) (fscript s) (lscript s) (log s) (hbegun s).
  Definition set_reg_file (s : state) v := mk (pcr s) (pcx s) (sdst s) (have_live s) v (reg_live s) (file_term s) (live_term s) (fscript s) (lscript s) (log s) (hbegun s).
  Definition set_reg_live (s : state) v := mk (pcr s) (pcx s) (sdst s) (have_live s) (reg_file s) v (file_term s) (live_term s) (fscript s) (lscript s) (log s) (hbegun s).
  Definition set_file_term (s : state) v := mk (pcr s) (pcx s) (sdst s) (have_live s) (reg_file s) (reg_live s) v (live_term s) (fscript s) (lscript s) (log s) (hbegun s).
  Definition set_live_term (s : state) v := mk (pcr s) (pcx s) (sdst s) (have_live s) (reg_file s) (reg_live s) (file_term s) v (fscript s) (lscript s) (log s) (hbegun s).
  Definition set_fscript (s : state) v := mk (pcr s) (pcx s) (sdst s) (have_live s) (reg_file s) (reg_live s) (file_term s) (live_term s) v (lscript s) (log s) (hbegun s).
  Definition set_lscript (s : state) v := mk (pcr s) (pcx s) (sdst s) (have_live s) (reg_file s) (reg_live s) (file_term s) (live_term s) (fscript s) v (log s) (hbegun s).
  Definition set_log (s : state) v := mk (pcr s) (pcx s) (sdst s) (have_live s) (reg_file s) (reg_live s) (file_term s) (live_term s) (fscript s) (lscript s) v (hbegun s).
  Definition set_hbegun (s : state) v := mk (pcr s) (pcx s) (sdst s) (have_live s) (reg_file s) (reg_live s) (file_term s) (live_term s) (fscript s) (lscript s) (log s) v.


  Definition init (fs : list fev) (ls : list iev) : state :=
    mk PStart XIdle None false false false false false fs ls [] 0.

  Definition terminating (s : state) : bool :=
    match sdst s with Some SCb | Some STerm | Some SDone => true | _ => false end.
  Definition terminated (s : state) : bool := match sdst s with Some SDone => true | _ => false end.
  Definition emit (s : state) e := set_log s (e :: log s).
  Definition shut_file (s : state) := if file_term s then s else emit (set_file_term s true) (EDown 0).
  Definition shut_live (s : state) := if live_term s then s else emit (set_live_term s true) (EDown 1).

  (* one step of the effective Shutdown() call, whoever performs it *)
  Definition sd_advance (s : state) : state :=
    match sdst s with
    | Some SClose => set_sdst s (Some SCb)                                  (* close(terminatingCh) *)
    | Some SCb => let s1 := if reg_file s then shut_file s else s in
                  let s2 := if reg_live s1 then shut_live s1 else s1 in
                  set_sdst s2 (Some STerm)                                  (* callbacks *)
    | Some STerm => set_sdst s (Some SDone)                                 (* close(terminatedCh) *)
    | _ => s
    end.

  (* registration of inner source (is_live) with the joining source's shutter; `pt` is the point after it *)
  Definition register (c : cfg) (is_live : bool) (pt : nat) (next : pc) (s : state) : state :=
    if fixed c && terminating s
    then set_pcr (if is_live then shut_live s else shut_file s) PShut
    else emit (set_pcr (if is_live then set_reg_live s true else set_reg_file s true) next) (EPoint pt).

  Definition step_run (c : cfg) (s : state) : state :=
    match pcr s with
    | PStart =>
        if live_first c
        then emit (emit (set_pcr (set_have_live s true) (PRegLive false)) (EFactory 1 0)) (EPoint 10)
        else set_pcr s PGetFile
    | PRegLive joined => register c true (if joined then 15 else 11) PRunLive s
    | PRunLive =>
        if live_term s then set_pcr s PShut
        else match lscript s with
             | [] => s
             | IBlock b ok :: r => set_hbegun (emit (set_pcr (set_lscript s r) (PInHLive b ok)) (EHBegin 1 b)) (S (hbegun s))
             | IFail :: r => shut_live (set_lscript s r)
             end
    | PInHLive b ok =>
        let s1 := emit (set_pcr s PRunLive) (EHEnd 1 b ok) in
        if ok then s1 else shut_live s1
    | PGetFile =>
        if file_avail c then emit (emit (set_pcr s PRegFile) (EFactory 0 0)) (EPoint 12)
        else set_pcr s PShut
    | PRegFile => register c false 13 PRunFile s
    | PRunFile =>
        if file_term s
        then (if have_live s then emit (set_pcr s (PRegLive true)) (EPoint 14) else set_pcr s PShut)
        else match fscript s with
             | [] => s
             | FBlock b ok :: r => set_hbegun (emit (set_pcr (set_fscript s r) (PInHFile b ok)) (EHBegin 0 b)) (S (hbegun s))
             | FJoin b :: r => set_pcr (set_fscript s r) PInJoinF     (* inside the live-factory call of the join *)
             | FFail :: r => shut_file (set_fscript s r)
             end
    | PInHFile b ok =>
        let s1 := emit (set_pcr s PRunFile) (EHEnd 0 b ok) in
        if ok then s1 else shut_file s1
    | PInJoinF => emit (emit (set_pcr (set_have_live s true) PJoinRet) (EFactory 1 0)) (EPoint 16)
    | PJoinRet => shut_file (set_pcr s PRunFile)          (* stopSourceOnJoin: the file source shuts itself down *)
    | PShut =>
        match sdst s with
        | None => set_sdst (set_pcr s PSdBusy) (Some SClose)               (* once.Do won *)
        | Some _ => emit (set_pcr s PRet) ERet                             (* somebody else shuts down: return at once *)
        end
    | PSdBusy =>
        let s1 := sd_advance s in
        if terminated s1 then emit (set_pcr s1 PRet) ERet else s1
    | PRet => s
    end.

  Definition step_x (s : state) : state :=
    match pcx s with
    | XIdle => match sdst s with
               | None => set_sdst (set_pcx s XBusy) (Some SClose)
               | Some _ => set_pcx s XDone
               end
    | XBusy => let s1 := sd_advance s in if terminated s1 then set_pcx s1 XDone else s1
    | XDone => s
    end.

  Definition step (c : cfg) (s : state) (t : tid) : state :=
    match t with TRun => step_run c s | TX => step_x s end.

  Definition returned (s : state) : bool := match pcr s with PRet => true | _ => false end.
  Definition done (s : state) : bool := returned s && terminated s.
End Jn.

(* ================================================================== hub.Subscription
   hub/subscription.go:
     run(): for { select {                                              PSel (the scheduler resolves the choice
                  case ppblk := <-s.blocks:                                   when both arms are ready)
                      if s.IsTerminating() { return nil }               PChk   "deal with non-predictibility of select"
                      if err := handler(ppblk); err != nil { return err }  PInH
                  case <-s.Terminating(): return nil } }
     Run(): s.Shutdown(s.run())                                         PShut / PSdBusy
     push (called by the hub for every block): if len == cap { error -> the hub unsubscribes and calls
           sub.Shutdown(err) } else s.blocks <- ppblk
   The subscription registers no OnTerminating callback. *)
Module Sb.
  Inductive pc := PSel | PChk (b : nat) (ok : bool) | PInH (b : nat) (ok : bool) | PShut | PSdBusy | PRet.
  Inductive xstate := XIdle | XBusy | XDone.
  Inductive pstate := HIdle | HBusy.
  Inductive tid := TRun (pick_term : bool) | TPush | TX.

  Record state := mk {
    pcr : pc;   (* Subscription.Run thread *)
    pcx : xstate;   (* external Shutdown thread *)
    pcp : pstate;   (* the hub (pushes blocks; shuts the subscription down when its channel is full) *)
    sdst : option sdstage;   (* stage of the one effective Shutdown() *)
    buf : list (nat * bool);   (* s.blocks: queued blocks (with the answer the handler will give) *)
    cap : nat;   (* cap(s.blocks) *)
    pscript : list (nat * bool);   (* blocks the hub will still push *)
    log : list ev;
    hbegun : nat }.
  Definition set_pcr (s : state) v := mk v (pcx s) (pcp s) (sdst s) (buf s) (cap s) (pscript s) (log s) (hbegun s).
  Definition set_pcx (s : state) v := mk (pcr s) v (pcp s) (sdst s) (buf s) (cap s) (pscript s) (log s) (hbegun s).
  Definition set_pcp (s : state) v := mk (pcr s) (pcx s) v (sdst s) (buf s) (cap s) (pscript s) (log s) (hbegun s).
  Definition set_sdst (s : state) v := mk (pcr s) (pcx s) (pcp s) v (buf s) (cap s) (pscript s) (log s) (hbegun s).
  Definition set_buf (s : state) v := mk (pcr s) (pcx s) (pcp s) (sdst s) v (cap s) (pscript s) (log s) (hbegun s).
  Definition set_cap (s : state) v := mk (pcr s) (pcx s) (pcp s) (sdst s) (buf s) v (pscript s) (log s) (hbegun s).
  Definition set_pscript (s : state) v := mk (pcr s) (pcx s) (pcp s) (sdst s) (buf s) (cap s) v (log s) (hbegun s).
  Definition set_log (s : state) v := mk (pcr s) (pcx s) (pcp s) (sdst s) (buf s) (cap s) (pscript s) v (hbegun s).
  Definition set_hbegun (s : state) v := mk (pcr s) (pcx s) (pcp s) (sdst s) (buf s) (cap s) (pscript s) (log s) v.


  Definition init (cap : nat) (ps : list (nat * bool)) : state :=
    mk PSel XIdle HIdle None [] cap ps [] 0.

  Definition terminating (s : state) : bool :=
    match sdst s with Some SCb | Some STerm | Some SDone => true | _ => false end.
  Definition terminated (s : state) : bool := match sdst s with Some SDone => true | _ => false end.
  Definition emit (s : state) e := set_log s (e :: log s).

  Definition sd_advance (s : state) : state :=
    match sdst s with
    | Some SClose => set_sdst s (Some SCb)
    | Some SCb => set_sdst s (Some STerm)          (* no callback registered *)
    | Some STerm => set_sdst s (Some SDone)
    | _ => s
    end.

  Definition recv (s : state) : state :=
    match buf s with
    | (b, ok) :: r => set_pcr (set_buf s r) (PChk b ok)
    | [] => s
    end.

  Definition step_run (pick_term : bool) (s : state) : state :=
    match pcr s with
    | PSel =>
        match buf s, terminating s with
        | [], false => s                                               (* blocked *)
        | [], true => set_pcr s PShut
        | _ :: _, false => recv s
        | _ :: _, true => if pick_term then set_pcr s PShut else recv s
        end
    | PChk b ok =>
        if terminating s then set_pcr s PShut
        else set_hbegun (emit (set_pcr s (PInH b ok)) (EHBegin 0 b)) (S (hbegun s))
    | PInH b ok =>
        emit (set_pcr s (if ok then PSel else PShut)) (EHEnd 0 b ok)
    | PShut =>
        match sdst s with
        | None => set_sdst (set_pcr s PSdBusy) (Some SClose)
        | Some _ => emit (set_pcr s PRet) ERet
        end
    | PSdBusy =>
        let s1 := sd_advance s in
        if terminated s1 then emit (set_pcr s1 PRet) ERet else s1
    | PRet => s
    end.

  Definition step_push (s : state) : state :=
    match pcp s with
    | HIdle =>
        match pscript s with
        | [] => s
        | x :: r =>
            if Nat.leb (cap s) (length (buf s))
            then (* channel full: the hub unsubscribes and shuts the subscription down *)
                 match sdst s with
                 | None => set_sdst (set_pcp (set_pscript s []) HBusy) (Some SClose)
                 | Some _ => set_pscript s []
                 end
            else set_buf (set_pscript s r) (buf s ++ [x])
        end
    | HBusy => let s1 := sd_advance s in if terminated s1 then set_pcp s1 HIdle else s1
    end.

  Definition step_x (s : state) : state :=
    match pcx s with
    | XIdle => match sdst s with
               | None => set_sdst (set_pcx s XBusy) (Some SClose)
               | Some _ => set_pcx s XDone
               end
    | XBusy => let s1 := sd_advance s in if terminated s1 then set_pcx s1 XDone else s1
    | XDone => s
    end.

  Definition step (s : state) (t : tid) : state :=
    match t with TRun c => step_run c s | TPush => step_push s | TX => step_x s end.

  Definition returned (s : state) : bool := match pcr s with PRet => true | _ => false end.
  Definition done (s : state) : bool := returned s && terminated s.
End Sb.

(* ================================================================== MultiplexedSource
   multiplexedsource.go:
     Run(): for { if IsTerminating {return}                              PCheck -> point 20 (mux.after_check)
                  connectSources()                                       PLock / PLoop / PInit
                                                                                -> point 21 (mux.before_sleep)
                  time.Sleep(sourceReconnectDelay) }                     PSleep
     connectSources(): sourcesLock.Lock(); defer Unlock()
                  if IsTerminating {return}                              PLock  -> point 22 (mux.connect_checked)
                  for idx, factory := range factories {                  PLoop idx
                    if sources[idx] == nil || sources[idx].IsTerminating() {
                       newSrc := factory(wrapper)                               -> point 23 (mux.before_lockedinit)
                       err := LockedInit{ sources[idx] = newSrc; go newSrc.Run() }   PInit idx k
                       if err != nil { s.Shutdown(err) } (a no-op: already shut down)  -> point 24 (mux.after_lockedinit)
                    } }
     wrapper (runs on the inner source's goroutine):
                  handlerLock.Lock()                                     IWant   -> point 25 (mux.handler_locked)
                  fixed: if IsTerminating { handlerLock.Unlock(); return error }   ILocked (no handler call, no point 26)
                  err := handler(blk)                                    ILocked / IInH
                  handlerLock.Unlock()                                           -> point 26 (mux.handler_unlocked)
                  if err != nil { s.Shutdown(err) }; return err          IUnl / ISdBusy / IFailRet
     The test of the terminating channel and the handler call are made under handlerLock with no synchronisation
     operation and no schedule point between them: ONE atomic step (ILocked), as for hub.Subscription (PChk) and
     FileSource (RChk).  Unfixed code (`step false`): no test, the handler is called whatever the state of the shutter.
     OnTerminating callback: sourcesLock.Lock(); for each non-nil sources[i]: Shutdown(nil); Unlock()
   sourcesLock is held by the Run thread exactly while it is at PLoop / PInit; the callback takes it
   for one atomic step (inner Shutdowns do not block), so it is enabled iff Run is not at PLoop / PInit.
   Inner source k (abstract, thread TIn k) is created by a factory (INew), started by `go newSrc.Run()`
   (IIdle), and delivers its script through the wrapper; a handler error makes it shut itself down. *)
Module Mx.
  Inductive ipc :=
  | INew | IIdle | IWant (b : nat) (ok : bool) | ILocked (b : nat) (ok : bool) | IInH (b : nat) (ok : bool)
  | IUnl (b : nat) (ok : bool) | ISdBusy | IFailRet | IRet.
  Record inner := mki { i_slot : nat; i_term : bool; i_pc : ipc; i_script : list iev }.
  Inductive pc := PCheck | PLock | PLoop (idx : nat) | PInit (idx k : nat) | PSleep | PRet.
  Inductive xstate := XIdle | XBusy | XDone.
  Inductive tid := TRun | TX | TIn (k : nat).

  Record state := mk {
    pcr : pc;   (* MultiplexedSource.Run thread *)
    pcx : xstate;   (* external Shutdown thread *)
    sdst : option sdstage;   (* stage of the one effective Shutdown() *)
    hholder : option nat;   (* handlerLock: the inner source whose goroutine holds it *)
    sources : list (option nat);   (* s.sources: per factory slot, the inner source registered there *)
    inners : list inner;   (* every inner source created so far (thread TIn k runs number k) *)
    supply : list (list iev);   (* scripts of the sources the factories will create next *)
    log : list ev;
    hbegun : nat;
    hactive : nat;   (* ghost: handler calls in progress *)
    overlap : bool;   (* ghost: a handler call began while another one was in progress *)
    failed : bool }.   (* ghost: a handler call returned an error *)
  Definition set_pcr (s : state) v := mk v (pcx s) (sdst s) (hholder s) (sources s) (inners s) (supply s) (log s) (hbegun s) (hactive s) (overlap s) (failed s).
  Definition set_pcx (s : state) v := mk (pcr s) v (sdst s) (hholder s) (sources s) (inners s) (supply s) (log s) (hbegun s) (hactive s) (overlap s) (failed s).
  Definition set_sdst (s : state) v := mk (pcr s) (pcx s) v (hholder s) (sources s) (inners s) (supply s) (log s) (hbegun s) (hactive s) (overlap s) (failed s).
  Definition set_hholder (s : state) v := mk (pcr s) (pcx s) (sdst s) v (sources s) (inners s) (supply s) (log s) (hbegun s) (hactive s) (overlap s) (failed s).
  Definition set_sources (s : state) v := mk (pcr s) (pcx s) (sdst s) (hholder s) v (inners s) (supply s) (log s) (hbegun s) (hactive s) (overlap s) (failed s).
  Definition set_inners (s : state) v := mk (pcr s) (pcx s) (sdst s) (hholder s) (sources s) v (supply s) (log s) (hbegun s) (hactive s) (overlap s) (failed s).
  Definition set_supply (s : state) v := mk (pcr s) (pcx s) (sdst s) (hholder s) (sources s) (inners s) v (log s) (hbegun s) (hactive s) (overlap s) (failed s).
  Definition set_log (s : state) v := mk (pcr s) (pcx s) (sdst s) (hholder s) (sources s) (inners s) (supply s) v (hbegun s) (hactive s) (overlap s) (failed s).
  Definition set_hbegun (s : state) v := mk (pcr s) (pcx s) (sdst s) (hholder s) (sources s) (inners s) (supply s) (log s) v (hactive s) (overlap s) (failed s).
  Definition set_hactive (s : state) v := mk (pcr s) (pcx s) (sdst s) (hholder s) (sources s) (inners s) (supply s) (log s) (hbegun s) v (overlap s) (failed s).
  Definition set_overlap (s : state) v := mk (pcr s) (pcx s) (sdst s) (hholder s) (sources s) (inners s) (supply s) (log s) (hbegun s) (hactive s) v (failed s).
  Definition set_failed (s : state) v := mk (pcr s) (pcx s) (sdst s) (hholder s) (sources s) (inners s) (supply s) (log s) (hbegun s) (hactive s) (overlap s) v.


  Definition init (nslots : nat) (supply : list (list iev)) : state :=
    mk PCheck XIdle None None (repeat None nslots) [] supply [] 0 0 false false.

  Definition terminating (s : state) : bool :=
    match sdst s with Some SCb | Some STerm | Some SDone => true | _ => false end.
  Definition terminated (s : state) : bool := match sdst s with Some SDone => true | _ => false end.
  Definition emit (s : state) e := set_log s (e :: log s).
  Definition holds_slock (s : state) : bool := match pcr s with PLoop _ | PInit _ _ => true | _ => false end.

  Definition set_i_term (i : inner) := mki (i_slot i) true (i_pc i) (i_script i).
  Definition set_i_pc (p : ipc) (i : inner) := mki (i_slot i) (i_term i) p (i_script i).
  Definition set_i_script (sc : list iev) (i : inner) := mki (i_slot i) (i_term i) (i_pc i) sc.
  (* go newSrc.Run(): a created, not yet started source starts running *)
  Definition start_inner (i : inner) : inner := match i_pc i with INew => set_i_pc IIdle i | _ => i end.
  Definition inner_term (s : state) (k : nat) : bool :=
    match nth_error (inners s) k with Some i => i_term i | None => true end.

  (* inner source k .Shutdown(): atomic; logs EDown the first time *)
  Definition shut_inner (k : nat) (s : state) : state :=
    if inner_term s k then s else emit (set_inners s (upd (inners s) k set_i_term)) (EDown k).
  Fixpoint shut_all (l : list (option nat)) (s : state) : state :=
    match l with
    | [] => s
    | Some k :: r => shut_all r (shut_inner k s)
    | None :: r => shut_all r s
    end.

  (* one step of the effective Shutdown() call, whoever performs it *)
  Definition sd_advance (s : state) : state :=
    match sdst s with
    | Some SClose => set_sdst s (Some SCb)
    | Some SCb => if holds_slock s then s                                 (* callback blocked on sourcesLock *)
                  else set_sdst (shut_all (sources s) s) (Some STerm)
    | Some STerm => set_sdst s (Some SDone)
    | _ => s
    end.

  Definition step_run (s : state) : state :=
    match pcr s with
    | PCheck => if terminating s then emit (set_pcr s PRet) ERet else emit (set_pcr s PLock) (EPoint 20)
    | PLock => if terminating s then emit (set_pcr s PSleep) (EPoint 21) else emit (set_pcr s (PLoop 0)) (EPoint 22)
    | PLoop idx =>
        match nth_error (sources s) idx with
        | None => emit (set_pcr s PSleep) (EPoint 21)                     (* loop over: unlock *)
        | Some cur =>
            if match cur with None => true | Some k => inner_term s k end
            then let k := length (inners s) in
                 let sc := match supply s with [] => [] | x :: _ => x end in
                 emit (emit (set_pcr (set_supply (set_inners s (inners s ++ [mki idx false INew sc])) (tl (supply s)))
                                     (PInit idx k)) (EFactory idx 0)) (EPoint 23)
            else set_pcr s (PLoop (S idx))
        end
    | PInit idx k =>
        if terminating s then emit (set_pcr s (PLoop (S idx))) (EPoint 24)     (* LockedInit refuses: never started *)
        else emit (set_pcr (set_inners (set_sources s (upd (sources s) idx (fun _ => Some k)))
                                       (upd (inners s) k start_inner)) (PLoop (S idx))) (EPoint 24)
    | PSleep => set_pcr s PCheck
    | PRet => s
    end.

  Definition set_inner (s : state) (k : nat) (f : inner -> inner) := set_inners s (upd (inners s) k f).

  Definition step_inner (fixed : bool) (k : nat) (s : state) : state :=
    match nth_error (inners s) k with
    | None => s
    | Some i =>
        match i_pc i with
        | INew => s
        | IIdle =>
            if i_term i then set_inner s k (set_i_pc IRet)
            else match i_script i with
                 | [] => s
                 | IBlock b ok :: r => set_inner s k (fun i => set_i_pc (IWant b ok) (set_i_script r i))
                 | IFail :: r => shut_inner k (set_inner s k (set_i_script r))
                 end
        | IWant b ok =>
            match hholder s with
            | Some _ => s                                                       (* blocked on handlerLock *)
            | None => emit (set_hholder (set_inner s k (set_i_pc (ILocked b ok))) (Some k)) (EPoint 25)
            end
        | ILocked b ok =>
            if fixed && terminating s
            then set_hholder (set_inner s k (set_i_pc IFailRet)) None           (* unlock; return an error: no handler call *)
            else
            let s1 := set_inner s k (set_i_pc (IInH b ok)) in
            let s2 := set_overlap s1 (overlap s || Nat.ltb 0 (hactive s)) in
            emit (set_hactive (set_hbegun s2 (S (hbegun s))) (S (hactive s))) (EHBegin k b)
        | IInH b ok =>
            let s1 := set_inner s k (set_i_pc (IUnl b ok)) in
            let s2 := set_failed (set_hactive (set_hholder s1 None) (hactive s - 1)) (failed s || negb ok) in
            emit (emit s2 (EHEnd k b ok)) (EPoint 26)
        | IUnl b ok =>
            if ok then set_inner s k (set_i_pc IIdle)
            else match sdst s with
                 | None => set_sdst (set_inner s k (set_i_pc ISdBusy)) (Some SClose)   (* s.Shutdown(err): once.Do won *)
                 | Some _ => set_inner s k (set_i_pc IFailRet)
                 end
        | ISdBusy =>
            let s1 := sd_advance s in
            if terminated s1 then set_inner s1 k (set_i_pc IFailRet) else s1
        | IFailRet => shut_inner k (set_inner s k (set_i_pc IIdle))              (* the wrapper returned the error *)
        | IRet => s
        end
    end.

  Definition step_x (s : state) : state :=
    match pcx s with
    | XIdle => match sdst s with
               | None => set_sdst (set_pcx s XBusy) (Some SClose)
               | Some _ => set_pcx s XDone
               end
    | XBusy => let s1 := sd_advance s in if terminated s1 then set_pcx s1 XDone else s1
    | XDone => s
    end.

  Definition step (fixed : bool) (s : state) (t : tid) : state :=
    match t with TRun => step_run s | TX => step_x s | TIn k => step_inner fixed k s end.

  Definition returned (s : state) : bool := match pcr s with PRet => true | _ => false end.
  Definition done (s : state) : bool := returned s && terminated s.
  Definition started (i : inner) : bool := match i_pc i with INew => false | _ => true end.
  Definition i_returned (i : inner) : bool := match i_pc i with INew | IRet => true | _ => false end.
End Mx.

(* ================================================================== FileSource (shutdown granularity)
   filesource.go, only what matters for shutdown: every blocking point of every goroutine and whether it
   has a Terminating arm.  Blocks are (number, answer of the handler).  Assumed: OpenObject / the dbin
   header read succeed and return (their failure is property C11).
     run():           for { select { case <-Terminating: return                       RSel
                                     case f, ok := <-fileStream: (!ok -> return; f.err -> return err)
                              for blk := range f.blocks {                              RRange k
                                 if IsTerminating { return }                           RChk
                                 handler(blk) (error -> return) } } }                  RInH
     Run():           s.Shutdown(s.run())                                              RShut / RSdBusy
     launchReader():  defer close(fileStream)
                      for { select { case <-Terminating: return; case <-time.After(delay): }   LSel
                            exists? no -> delay = retryDelay; continue                 LExists
                            select { case <-Terminating: return; case fileStream <- f }        LSend
                            go streamIncomingFile(f)                                   LGo
                            stop block passed -> fileStream <- {err: stop}; return     LStop (plain send) }
     file goroutine k (streamIncomingFile + streamReader's forwarder + preprocess, merged):
                      open                                                             FOpening
                      for { select { case <-Terminating: close(blocks); return         FStreaming
                                     case blocks <- next block } }  EOF -> close(blocks)
   `blocks` is unbuffered: f_slot is the block currently offered to run().  A select with several ready
   arms is resolved by the scheduler (the bool carried by the thread id). *)
Module Fs.
  Inductive fsitem := FFile (k : nat) | FErr.
  Inductive fpc := FLaunched | FOpening | FStreaming | FClosed.
  Record fstate := mkf { f_pc : fpc; f_slot : option (nat * bool); f_left : list (nat * bool) }.
  Inductive pc := RSel | RRange (k : nat) | RChk (k b : nat) (ok : bool) | RInH (k b : nat) (ok : bool)
                | RShut | RSdBusy | RRet.
  Inductive lpc := LSel | LExists | LSend | LGo | LStop | LDone.
  Inductive xstate := XIdle | XBusy | XDone.
  Inductive tid := TRun (c : bool) | TLaunch (c : bool) | TFile (k : nat) (c : bool) | TX.

  Record state := mk {
    pcr : pc;   (* FileSource.run (the Run thread) *)
    pcl : lpc;   (* launchReader goroutine *)
    pcx : xstate;   (* external Shutdown thread *)
    sdst : option sdstage;   (* stage of the one effective Shutdown() *)
    fsbuf : option fsitem;   (* s.fileStream (capacity 1) *)
    fsclosed : bool;   (* close(s.fileStream) done by launchReader's defer *)
    delayed : bool;   (* launchReader's next time.After has a positive delay (file did not exist) *)
    files : list fstate;   (* the files sent on fileStream so far (thread TFile k streams number k) *)
    store : list (list (nat * bool));   (* merged files still to be found in the store, with their blocks *)
    stop_after : bool;   (* a stop block lies in the last file of the store *)
    log : list ev;
    hbegun : nat }.
  Definition set_pcr (s : state) v := mk v (pcl s) (pcx s) (sdst s) (fsbuf s) (fsclosed s) (delayed s) (files s) (store s) (stop_after s) (log s) (hbegun s).
  Definition set_pcl (s : state) v := mk (pcr s) v (pcx s) (sdst s) (fsbuf s) (fsclosed s) (delayed s) (files s) (store s) (stop_after s) (log s) (hbegun s).
  Definition set_pcx (s : state) v := mk (pcr s) (pcl s) v (sdst s) (fsbuf s) (fsclosed s) (delayed s) (files s) (store s) (stop_after s) (log s) (hbegun s).
  Definition set_sdst (s : state) v := mk (pcr s) (pcl s) (pcx s) v (fsbuf s) (fsclosed s) (delayed s) (files s) (store s) (stop_after s) (log s) (hbegun s).
  Definition set_fsbuf (s : state) v := mk (pcr s) (pcl s) (pcx s) (sdst s) v (fsclosed s) (delayed s) (files s) (store s) (stop_after s) (log s) (hbegun s).
  Definition set_fsclosed (s : state) v := mk (pcr s) (pcl s) (pcx s) (sdst s) (fsbuf s) v (delayed s) (files s) (store s) (stop_after s) (log s) (hbegun s).
  Definition set_delayed (s : state) v := mk (pcr s) (pcl s) (pcx s) (sdst s) (fsbuf s) (fsclosed s) v (files s) (store s) (stop_after s) (log s) (hbegun s).
  Definition set_files (s : state) v := mk (pcr s) (pcl s) (pcx s) (sdst s) (fsbuf s) (fsclosed s) (delayed s) v (store s) (stop_after s) (log s) (hbegun s).
  Definition set_store (s : state) v := mk (pcr s) (pcl s) (pcx s) (sdst s) (fsbuf s) (fsclosed s) (delayed s) (files s) v (stop_after s) (log s) (hbegun s).
  Definition set_stop_after (s : state) v := mk (pcr s) (pcl s) (pcx s) (sdst s) (fsbuf s) (fsclosed s) (delayed s) (files s) (store s) v (log s) (hbegun s).
  Definition set_log (s : state) v := mk (pcr s) (pcl s) (pcx s) (sdst s) (fsbuf s) (fsclosed s) (delayed s) (files s) (store s) (stop_after s) v (hbegun s).
  Definition set_hbegun (s : state) v := mk (pcr s) (pcl s) (pcx s) (sdst s) (fsbuf s) (fsclosed s) (delayed s) (files s) (store s) (stop_after s) (log s) v.


  Definition init (store : list (list (nat * bool))) (stop_after : bool) : state :=
    mk RSel LSel XIdle None None false false [] store stop_after [] 0.

  Definition terminating (s : state) : bool :=
    match sdst s with Some SCb | Some STerm | Some SDone => true | _ => false end.
  Definition terminated (s : state) : bool := match sdst s with Some SDone => true | _ => false end.
  Definition emit (s : state) e := set_log s (e :: log s).
  Definition set_file (s : state) (k : nat) (f : fstate -> fstate) := set_files s (upd (files s) k f).

  (* go streamIncomingFile(f): the goroutine of a file that was just sent starts *)
  Definition spawn_file (f : fstate) : fstate :=
    match f_pc f with FLaunched => mkf FOpening (f_slot f) (f_left f) | _ => f end.

  Definition sd_advance (s : state) : state :=
    match sdst s with
    | Some SClose => set_sdst s (Some SCb)
    | Some SCb => set_sdst s (Some STerm)          (* a FileSource registers no callback *)
    | Some STerm => set_sdst s (Some SDone)
    | _ => s
    end.

  (* the fileStream arm of run()'s select *)
  Definition recv_fs (s : state) : state :=
    match fsbuf s with
    | Some (FFile k) => set_pcr (set_fsbuf s None) (RRange k)
    | Some FErr => set_pcr (set_fsbuf s None) RShut
    | None => if fsclosed s then set_pcr s RShut else s
    end.

  Definition step_run (c : bool) (s : state) : state :=
    match pcr s with
    | RSel =>
        let ready_fs := match fsbuf s with Some _ => true | None => fsclosed s end in
        match ready_fs, terminating s with
        | false, false => s
        | false, true => set_pcr s RShut
        | true, false => recv_fs s
        | true, true => if c then set_pcr s RShut else recv_fs s
        end
    | RRange k =>
        match nth_error (files s) k with
        | None => s
        | Some f =>
            match f_slot f with
            | Some (b, ok) => set_pcr (set_file s k (fun f => mkf (f_pc f) None (f_left f))) (RChk k b ok)
            | None => match f_pc f with FClosed => set_pcr s RSel | _ => s end
            end
        end
    | RChk k b ok =>
        if terminating s then set_pcr s RShut
        else set_hbegun (emit (set_pcr s (RInH k b ok)) (EHBegin 0 b)) (S (hbegun s))
    | RInH k b ok => emit (set_pcr s (if ok then RRange k else RShut)) (EHEnd 0 b ok)
    | RShut =>
        match sdst s with
        | None => set_sdst (set_pcr s RSdBusy) (Some SClose)
        | Some _ => emit (set_pcr s RRet) ERet
        end
    | RSdBusy => let s1 := sd_advance s in if terminated s1 then emit (set_pcr s1 RRet) ERet else s1
    | RRet => s
    end.

  Definition launcher_returns (s : state) : state := set_pcl (set_fsclosed s true) LDone.

  Definition step_launch (c : bool) (s : state) : state :=
    match pcl s with
    | LSel =>
        if terminating s then (if delayed s || c then launcher_returns s else set_pcl s LExists)
        else set_pcl s LExists                                     (* the timer fires *)
    | LExists =>
        match store s with
        | [] => set_pcl (set_delayed s true) LSel                  (* file does not exist (yet): retry later *)
        | _ :: _ => set_pcl (set_delayed s false) LSend
        end
    | LSend =>
        let send (s : state) :=
          match store s with
          | [] => s
          | blocks :: r =>
              set_pcl (set_store (set_files (set_fsbuf s (Some (FFile (length (files s)))))
                                            (files s ++ [mkf FLaunched None blocks])) r) LGo
          end in
        match fsbuf s, terminating s with
        | Some _, false => s                                       (* fileStream full: blocked *)
        | Some _, true => launcher_returns s
        | None, false => send s
        | None, true => if c then launcher_returns s else send s
        end
    | LGo =>
        let s1 := set_file s (length (files s) - 1) spawn_file in
        match store s1 with
        | [] => if stop_after s1 then set_pcl s1 LStop else set_pcl s1 LSel
        | _ :: _ => set_pcl s1 LSel
        end
    | LStop =>
        match fsbuf s with
        | Some _ => s                                              (* plain send: blocked (for ever if run() is gone) *)
        | None => launcher_returns (set_fsbuf s (Some FErr))
        end
    | LDone => s
    end.

  Definition step_file (k : nat) (c : bool) (s : state) : state :=
    match nth_error (files s) k with
    | None => s
    | Some f =>
        match f_pc f with
        | FLaunched => s
        | FOpening => set_file s k (fun f => mkf FStreaming (f_slot f) (f_left f))
        | FStreaming =>
            let close (s : state) := set_file s k (fun f => mkf FClosed None (f_left f)) in
            let work (s : state) :=
              match f_left f with
              | [] => close s                                       (* EOF *)
              | x :: r => set_file s k (fun f => mkf FStreaming (Some x) r)
              end in
            match f_slot f, terminating s with
            | Some _, false => s                                   (* run() has not taken the block yet *)
            | Some _, true => close s
            | None, false => work s
            | None, true => if c then close s else work s
            end
        | FClosed => s
        end
    end.

  Definition step_x (s : state) : state :=
    match pcx s with
    | XIdle => match sdst s with
               | None => set_sdst (set_pcx s XBusy) (Some SClose)
               | Some _ => set_pcx s XDone
               end
    | XBusy => let s1 := sd_advance s in if terminated s1 then set_pcx s1 XDone else s1
    | XDone => s
    end.

  Definition step (s : state) (t : tid) : state :=
    match t with
    | TRun c => step_run c s | TLaunch c => step_launch c s | TFile k c => step_file k c s | TX => step_x s
    end.

  Definition returned (s : state) : bool := match pcr s with RRet => true | _ => false end.
  Definition done (s : state) : bool := returned s && terminated s.
End Fs.
