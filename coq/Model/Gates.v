(* Executable model of the gates of bstream (gates.go, forkable/gates.go, gator.go) AFTER the
   fix patches repo_patches/C17_fix_*.diff.  Definitions only; proofs are in Proofs/C17_*.v.

   One input event is what one ProcessBlock / Pass call looks at:
     eid, enum  blk.Id, blk.Number (uint64: only compared, never computed with -> unbounded N)
     estep      step of the *ForkableObject passed as obj (read by the irreversible gates only)
     ert        the real-time input: the boolean `delta < timeToRealtime` at the moment the call
                reads the clock (time.Since / nowFunc); read by the real-time gate, the tripper
                and the time gator only.
   The outcome of one call is an [action]:
     Forward  the wrapped handler is called once with the same (blk, obj); its result is returned
     Hold     nil is returned, the handler is not called
     HoldErr  the "maximum blocks held off busted" error is returned, the handler is not called
   For the gators (Pass : bool) Forward stands for true and Hold for false. *)
From BV Require Import Base.Prelude.
Local Open Scope N_scope.

Record ev := mkEv { eid : str; enum : N; estep : N; ert : bool }.

Inductive action := Hold | HoldErr | Forward.

Definition action_eqb (a b : action) : bool :=
  match a, b with Hold, Hold | HoldErr, HoldErr | Forward, Forward => true | _, _ => false end.

Definition step_irreversible : N := 16.           (* bstream.StepIrreversible *)
Definition zero_id : str := repeat 48 64%nat.     (* "000…0", 64 characters *)
Definition default_max_hold_off : Z := 15000.     (* set by the four New…Gate constructors *)

(* passed latch, current gate type (true = GateInclusive), maxHoldOffCount (Go int) *)
Record gstate := mkG { g_passed : bool; g_incl : bool; g_count : Z }.
Definition g_init (incl : bool) : gstate := mkG false incl 0.

(* the `if !g.passed { … return nil }` block shared by the four gates with a hold-off limit;
   MaxHoldOff is a Go int: 0 switches the limit off, a negative limit fails on the first block *)
Definition hold_off (maxhold : Z) (g : gstate) : gstate * action :=
  if (maxhold =? 0)%Z then (g, Hold)
  else
    let c := (g_count g + 1)%Z in
    (mkG (g_passed g) (g_incl g) c, if (c >? maxhold)%Z then HoldErr else Hold).

(* BlockNumGate, BlockIDGate, IrreversibleBlockNumGate, IrreversibleBlockIDGate are the same text
   up to three tests:
     relevant  the early `return nil` (irreversible gates: step != StepIrreversible)
     trig      g.passed = <test on the block>
     force     the "enable inclusively" test that sets gateType = GateInclusive and passed = true *)
Definition latch_step (relevant trig force : ev -> bool) (maxhold : Z) (g : gstate) (e : ev)
  : gstate * action :=
  if g_passed g then (g, Forward)
  else if negb (relevant e) then (g, Hold)
  else
    let passed := trig e in
    let incl := if force e then true else g_incl g in
    let passed := if force e then true else passed in
    let g' := mkG passed incl (g_count g) in
    if negb passed then hold_off maxhold g'
    else (g', if incl then Forward else Hold).

Definition always (_ : ev) : bool := true.
Definition is_irreversible (e : ev) : bool := estep e =? step_irreversible.

(* gates.go:80 — `first` is the package variable GetProtocolFirstStreamableBlock *)
Definition num_trig (target : N) (e : ev) : bool := target <=? enum e.
Definition num_force (first target : N) (e : ev) : bool := (target <? first) && (enum e =? first).
Definition num_gate_step (first target : N) :=
  latch_step always (num_trig target) (num_force first target).

(* gates.go:148 *)
Definition id_trig (target : str) (e : ev) : bool := eqb_list (eid e) target.
Definition id_force (target : str) (e : ev) : bool :=
  (eqb_list target [] || eqb_list target zero_id) && (enum e =? 2).
Definition id_gate_step (target : str) :=
  latch_step always (id_trig target) (id_force target).

(* forkable/gates.go:56 with the fix "IrreversibleBlockNumGate uses GetProtocolFirstStreamableBlock":
   the same first-streamable rule as BlockNumGate *)
Definition irrnum_gate_step (first target : N) :=
  latch_step is_irreversible (num_trig target) (num_force first target).

(* the same gate as shipped (the rule written with the constants 0, 1 and 2): used only for the
   refutation witness *)
Definition irrnum_force_unfixed (target : N) (e : ev) : bool :=
  ((target =? 0) || (target =? 1)) && (enum e =? 2).
Definition irrnum_gate_step_unfixed (target : N) :=
  latch_step is_irreversible (num_trig target) (irrnum_force_unfixed target).

(* forkable/gates.go:125 with C17_fix_irreversible_id_gate_step.diff *)
Definition irrid_gate_step (target : str) :=
  latch_step is_irreversible (id_trig target) (id_force target).

(* the same gate as shipped (no step test): used only for the refutation witness *)
Definition irrid_gate_step_unfixed (target : str) :=
  latch_step always (id_trig target) (id_force target).

(* gates.go:203 RealtimeGate: no gate type, no hold-off limit; state = passed *)
Definition realtime_gate_step (passed : bool) (e : ev) : bool * action :=
  if passed then (true, Forward)
  else if ert e then (true, Forward) else (false, Hold).

(* gates.go:255 RealtimeTripper: forwards everything; the first component of the output tells
   whether tripFunc was called (before the handler) *)
Definition tripper_step (passed : bool) (e : ev) : bool * (bool * action) :=
  if passed then (true, (false, Forward))
  else if ert e then (true, (true, Forward)) else (false, (false, Forward)).

(* gator.go:45 TimeThresholdGator.Pass *)
Definition time_gator_step (passed : bool) (e : ev) : bool * action :=
  if passed then (true, Forward)
  else if ert e then (true, Forward) else (false, Hold).

(* gator.go:95 BlockNumberGator.Pass *)
Definition num_gator_step (target : N) (exclusive : bool) (passed : bool) (e : ev) : bool * action :=
  if passed then (true, Forward)
  else if target <=? enum e then (true, if exclusive then Hold else Forward)
  else (false, Hold).

(* gates.go:297 MinimalBlockNumFilter: stateless *)
Definition min_filter_step (min : N) (u : unit) (e : ev) : unit * action :=
  (u, if enum e <? min then Hold else Forward).

(* ---- feeding a sequence ---- *)

Fixpoint run {S O : Type} (step : S -> ev -> S * O) (s : S) (l : list ev) : list O :=
  match l with
  | [] => []
  | e :: l' => let '(s', o) := step s e in o :: run step s' l'
  end.

(* the events the handler receives, in order *)
Fixpoint forwarded (acts : list action) (l : list ev) : list ev :=
  match acts, l with
  | Forward :: acts', e :: l' => e :: forwarded acts' l'
  | _ :: acts', _ :: l' => forwarded acts' l'
  | _, _ => []
  end.

(* ---- the wrapped handler ----
   A handler is any state machine; its ProcessBlock returns nil (None) or an error (Some code).
   The value ProcessBlock of the gate returns: *)
Inductive ret := RNil | RHoldOff | RHandler (code : N).

Definition ret_eqb (a b : ret) : bool :=
  match a, b with
  | RNil, RNil | RHoldOff, RHoldOff => true
  | RHandler x, RHandler y => x =? y
  | _, _ => false
  end.

Section Handler.
  Context {H : Type}.
  Variable hproc : H -> ev -> H * option N.

  Definition apply_action (a : action) (h : H) (e : ev) : H * (bool * ret) :=
    match a with
    | Forward => let '(h', r) := hproc h e in
                 (h', (true, match r with None => RNil | Some c => RHandler c end))
    | Hold => (h, (false, RNil))
    | HoldErr => (h, (false, RHoldOff))
    end.

  (* per call: was the handler called, and the returned value; the gate keeps being fed after
     an error (its own state never depends on what the handler returned) *)
  Fixpoint run_h {S : Type} (step : S -> ev -> S * action) (s : S) (h : H) (l : list ev)
    : list (bool * ret) :=
    match l with
    | [] => []
    | e :: l' =>
        let '(s', a) := step s e in
        let '(h', o) := apply_action a h e in
        o :: run_h step s' h' l'
    end.

  (* the handler alone on a list of events: its successive results *)
  Fixpoint handler_results (h : H) (l : list ev) : list (option N) :=
    match l with
    | [] => []
    | e :: l' => let '(h', r) := hproc h e in r :: handler_results h' l'
    end.
End Handler.

(* the test handler of the harness: the k-th call (from 0) fails iff the k-th flag is set *)
Definition flag_handler (flags : list bool) (k : nat) (_ : ev) : nat * option N :=
  (S k, if nth k flags false then Some 1 else None).
