(* Model of /repo/hub/hub.go: bootstrap from one-block passes, readiness latch, LowestBlockNum,
   HeadInfo, the SourceFromBlockNum* answers (Model/Burst.v) — sequential part (C09).
   The reconnection timer is not modelled. *)
From BV Require Import Base.Prelude Model.Block Model.ForkDB Model.Forkable Model.ForkableLookups Model.Burst.
Local Open Scope N_scope.

Record hub := mkHub { h_f : fstate; h_ready : bool }.

Definition hub_config (first kept : N) : config :=
  mkCfg first false true kept false (mkFilter true true true true) None.

Definition hub_init : hub := mkHub (fs_init LNone) false.

(* substractAndRoundDownBlocks *)
Definition sub_round (first n kept : N) : N :=
  let o := ((n - kept) / 100) * 100 in if o <? first then first else o.

(* a one-block source started at `start`: pushes its blocks >= start in order, stops at an error *)
Fixpoint feed (cfg : config) (s : fstate) (l : list block) : fstate :=
  match l with
  | [] => s
  | b :: l' => let '(s', _, r) := fk_step cfg s b in
               match r with ROk => feed cfg s' l' | _ => s' end
  end.

Inductive pass := PNil | PBlocks (l : list block).

(* bootstrapperHandler on one live block; returns the new hub, the events the Forkable delivered
   for the LIVE block while ready (what subscribers get), and the result *)
Definition hub_live (first kept : N) (h : hub) (p : pass) (b : block) : hub * list event * result :=
  let cfg := hub_config first kept in
  if h_ready h then
    let '(s', evs, r) := fk_step cfg (h_f h) b in (mkHub s' true, evs, r)
  else if bnum b <? head_num (h_f h) then
    let '(s', _, r) := fk_step cfg (h_f h) b in (mkHub s' false, [], r)
  else
    match linkable (h_f h) b with
    | None => (h, [], RFuel)
    | Some l0 =>
        let boot : option fstate :=
          if l0 then Some (h_f h)
          else match p with
               | PNil => None
               | PBlocks bl =>
                   let start := sub_round first (blib b) kept in
                   Some (feed cfg (h_f h) (filter (fun x => start <=? bnum x) bl))
               end in
        match boot with
        | None => (h, [], ROk)                     (* no one-block source yet: live block dropped *)
        | Some s1 =>
            let '(s2, _, r) := fk_step cfg s1 b in
            match r with
            | ROk => match linkable s2 b with
                     | None => (mkHub s2 false, [], RFuel)
                     | Some true =>
                         (* fix: ready only once the forkable has a head *)
                         (mkHub s2 (match head_info s2 with Some _ => true | None => false end), [], ROk)
                     | Some false => (mkHub s2 false, [], ROk)
                     end
            | _ => (mkHub s2 false, [], r)
            end
        end
    end.

Definition hub_lowest (h : hub) : N :=
  if h_ready h then match lowest_block_num (h_f h) with Some n => n | None => 0 end else 0.
Definition hub_head (h : hub) : option (ref * N) := if h_ready h then head_info (h_f h) else None.
