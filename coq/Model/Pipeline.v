(* Interleaving model of bstream.FileSource.Run (filesource.go) with a single-fault oracle.
   Definitions only.

   Scheduling framework (local to this file): a finite family of thread ids, a total function
   [step : state -> tid * bool -> state] in which a thread that cannot move stutters (returns
   the very same state), and [run sched s = fold_left step sched s].  The boolean that comes
   with the thread id resolves Go's `select` when the Terminating() arm and another arm are
   ready at the same time (true = take the Terminating() arm).

   Threads and what one atomic step is (the code segment between two channel operations /
   Terminating polls / Shutdown calls):
     TL        launchReader: [LSel i] the `select { Terminating | time.After(delay) }` followed
               by checkExists of bundle i; [LSend i] `select { Terminating | fileStream <- file i }`
               followed by `go streamIncomingFile` and the stop-block test; [LStop] the
               unguarded `fileStream <- {err: ErrStopBlockReached}`; exit closes fileStream.
     TR i      streamIncomingFile + the loop of streamReader for file i: [ROpen] OpenObject,
               header, `go drain`; [RLoop] IsTerminating poll, Read, the two skip tests;
               [RSend] `select { Terminating -> <-done | preprocessed <- out }` + `go preprocess`;
               [RWait] `<-done`; [RFail] exists only without fix 2 (see c_fix2).
     TD i      the drain goroutine of file i: three nested selects [DSel] [DCell k] [DSend v];
               leaving closes the per-file `blocks` channel and `done`.
     TP i k    preprocess of block k of file i: preprocFunc, then `select { Terminating | out <- }`.
     TM        run(): [MSel] outer select, [MFile i] receive from the per-file channel,
               [MPoll] the IsTerminating poll, [MCall] continuity check + handler call,
               [MRet e] `s.Shutdown(s.run())`, [MDone e] Run has returned (run() had returned e).
     TX        an outside caller of Shutdown(nil) (present iff c_ext).
   Channels: fileStream (capacity 1) = s_fs; per-file `blocks` (capacity 0): a rendezvous,
   executed by the sender's step when run() waits in [MFile i]; `preprocessed` (capacity
   threadCount) = f_q, holding cell ids; with threadCount = 0 it is a rendezvous executed by
   the sender when the drain goroutine waits in [DSel]; one-slot result cells = f_cell.
   shutter.Shutdown is one atomic step (first caller wins, error recorded, Terminating closed).

   Fix flags (the theorems are about c_fix1 = c_fix2 = true, i.e. the code with the two
   repo_patches/C11_fix_*.diff applied; the unfixed behaviours are kept for the refutations):
     c_fix1 = false : run() ranges over the per-file channel without watching Terminating().
     c_fix2 = false : on a read error streamReader closes `preprocessed` first and its caller
                      calls Shutdown in a later step ([RFail]).
   Ghost (history) fields, never read by the control flow: s_sent, s_taken, f_out. *)
From BV Require Import Base.Prelude Model.FileSeq.

Inductive errc := ENil | EStop | ENonSeq | EExists | EOpen | EHeader | ERead | EPre | EHandler.

Definition errc_eqb (a b : errc) : bool :=
  match a, b with
  | ENil, ENil | EStop, EStop | ENonSeq, ENonSeq | EExists, EExists | EOpen, EOpen
  | EHeader, EHeader | ERead, ERead | EPre, EPre | EHandler, EHandler => true
  | _, _ => false
  end.

(* the single fault site of a run *)
Inductive fault :=
| FNone
| FExists (i : nat)       (* checkExists of bundle i fails (all five attempts) *)
| FOpen (i : nat)         (* OpenObject of bundle i fails *)
| FHeader (i : nat)       (* the dbin header of bundle i is invalid *)
| FRead (i k : nat)       (* the k-th Read of bundle i (0-based; k = length = the EOF read) fails:
                             storage error, bad length prefix, truncated message, undecodable block *)
| FPre (i k : nat)        (* the preprocessor fails on block k of bundle i *)
| FHandler (n : nat).     (* the n-th handler call (0-based) returns an error *)

Record cfg := mkCfg {
  c_lay : layout;
  c_threads : nat;        (* preprocessorThreadCount *)
  c_fault : fault;
  c_ext : bool;           (* somebody outside may call Shutdown(nil) at any time *)
  c_fix1 : bool;
  c_fix2 : bool
}.

Inductive tid := TL | TR (i : nat) | TD (i : nat) | TP (i k : nat) | TM | TX.

Definition pblk := (blk * N)%type.       (* a block with its preprocessed object *)

Inductive lpc := LSel (i : nat) | LSend (i : nat) | LStop | LDone.
Inductive rpc := RIdle | ROpen | RLoop | RSend | RFail | RWait | RDone.
Inductive dpc := DIdle | DSel | DCell (k : nat) | DSend (v : pblk) | DDone.
Inductive cst := CNone | CRun | CFull (v : pblk) | CDead | CTaken.
Inductive mpc := MSel | MFile (i : nat) | MPoll (i : nat) (v : pblk) | MCall (i : nat) (v : pblk)
               | MRet (e : errc) | MDone (e : errc).
Inductive fsitem := IFile (i : nat) | IStop.

Record fstate := mkF {
  f_r : rpc;
  f_rk : nat;                 (* index of the next Read / of the block in hand at RSend *)
  f_d : dpc;
  f_q : list nat;             (* `preprocessed`: cell ids in channel order *)
  f_qclosed : bool;
  f_cell : nat -> cst;        (* result cell + preprocess goroutine of block k *)
  f_bclosed : bool;           (* per-file `blocks` channel (and `done`) closed *)
  f_out : list pblk           (* ghost: what the drain goroutine handed to run() *)
}.

Record state := mkS {
  s_err : option errc;        (* Some e = Shutdown(e) happened: Terminating() closed, Err() = e *)
  s_x : bool;                 (* the outside Shutdown is still to come *)
  s_l : lpc;
  s_sent : nat;               (* ghost: number of files queued so far *)
  s_fs : list fsitem;         (* fileStream *)
  s_fsclosed : bool;
  s_file : nat -> fstate;
  s_m : mpc;
  s_taken : nat;              (* ghost: number of files run() has taken from fileStream *)
  s_last : N;                 (* lastBlockID *)
  s_calls : list pblk         (* the handler calls so far *)
}.

(* ---- setters ---- *)
Definition set_r x f := mkF x (f_rk f) (f_d f) (f_q f) (f_qclosed f) (f_cell f) (f_bclosed f) (f_out f).
Definition set_rk x f := mkF (f_r f) x (f_d f) (f_q f) (f_qclosed f) (f_cell f) (f_bclosed f) (f_out f).
Definition set_d x f := mkF (f_r f) (f_rk f) x (f_q f) (f_qclosed f) (f_cell f) (f_bclosed f) (f_out f).
Definition set_q x f := mkF (f_r f) (f_rk f) (f_d f) x (f_qclosed f) (f_cell f) (f_bclosed f) (f_out f).
Definition set_qclosed x f := mkF (f_r f) (f_rk f) (f_d f) (f_q f) x (f_cell f) (f_bclosed f) (f_out f).
Definition set_cell k x f :=
  mkF (f_r f) (f_rk f) (f_d f) (f_q f) (f_qclosed f) (fun j => if Nat.eqb j k then x else f_cell f j)
      (f_bclosed f) (f_out f).
Definition set_bclosed x f := mkF (f_r f) (f_rk f) (f_d f) (f_q f) (f_qclosed f) (f_cell f) x (f_out f).
Definition set_out x f := mkF (f_r f) (f_rk f) (f_d f) (f_q f) (f_qclosed f) (f_cell f) (f_bclosed f) x.

Definition set_err x s := mkS x (s_x s) (s_l s) (s_sent s) (s_fs s) (s_fsclosed s) (s_file s) (s_m s) (s_taken s) (s_last s) (s_calls s).
Definition set_x x s := mkS (s_err s) x (s_l s) (s_sent s) (s_fs s) (s_fsclosed s) (s_file s) (s_m s) (s_taken s) (s_last s) (s_calls s).
Definition set_l x s := mkS (s_err s) (s_x s) x (s_sent s) (s_fs s) (s_fsclosed s) (s_file s) (s_m s) (s_taken s) (s_last s) (s_calls s).
Definition set_sent x s := mkS (s_err s) (s_x s) (s_l s) x (s_fs s) (s_fsclosed s) (s_file s) (s_m s) (s_taken s) (s_last s) (s_calls s).
Definition set_fs x s := mkS (s_err s) (s_x s) (s_l s) (s_sent s) x (s_fsclosed s) (s_file s) (s_m s) (s_taken s) (s_last s) (s_calls s).
Definition set_fsclosed x s := mkS (s_err s) (s_x s) (s_l s) (s_sent s) (s_fs s) x (s_file s) (s_m s) (s_taken s) (s_last s) (s_calls s).
Definition upd_file i x s :=
  mkS (s_err s) (s_x s) (s_l s) (s_sent s) (s_fs s) (s_fsclosed s)
      (fun j => if Nat.eqb j i then x else s_file s j) (s_m s) (s_taken s) (s_last s) (s_calls s).
Definition set_m x s := mkS (s_err s) (s_x s) (s_l s) (s_sent s) (s_fs s) (s_fsclosed s) (s_file s) x (s_taken s) (s_last s) (s_calls s).
Definition set_taken x s := mkS (s_err s) (s_x s) (s_l s) (s_sent s) (s_fs s) (s_fsclosed s) (s_file s) (s_m s) x (s_last s) (s_calls s).
Definition set_last x s := mkS (s_err s) (s_x s) (s_l s) (s_sent s) (s_fs s) (s_fsclosed s) (s_file s) (s_m s) (s_taken s) x (s_calls s).
Definition set_calls x s := mkS (s_err s) (s_x s) (s_l s) (s_sent s) (s_fs s) (s_fsclosed s) (s_file s) (s_m s) (s_taken s) (s_last s) x.

(* the error class with which a fault site reports itself through Shutdown *)
Definition fclass (f : fault) : errc :=
  match f with
  | FNone => ENil | FExists _ => EExists | FOpen _ => EOpen | FHeader _ => EHeader
  | FRead _ _ => ERead | FPre _ _ => EPre | FHandler _ => EHandler
  end.

Definition term (s : state) : bool := match s_err s with Some _ => true | None => false end.

(* shutter.Shutdown(e): only the first call has an effect *)
Definition shut (e : errc) (s : state) : state :=
  match s_err s with None => set_err (Some e) s | Some _ => s end.

Definition blk0 : blk := mkBlk 0 0 0.

Section Model.
  Variable pre : blk -> N.      (* the caller's PreprocessFunc, as a function of the block *)
  Variable C : cfg.

  Let L := c_lay C.
  Let T := c_threads C.

  Definition is_FExists i := match c_fault C with FExists j => Nat.eqb j i | _ => false end.
  Definition is_FOpen i := match c_fault C with FOpen j => Nat.eqb j i | _ => false end.
  Definition is_FHeader i := match c_fault C with FHeader j => Nat.eqb j i | _ => false end.
  Definition is_FRead i k := match c_fault C with FRead j l => Nat.eqb j i && Nat.eqb l k | _ => false end.
  Definition is_FPre i k := match c_fault C with FPre j l => Nat.eqb j i && Nat.eqb l k | _ => false end.
  Definition is_FHandler n := match c_fault C with FHandler m => Nat.eqb m n | _ => false end.

  Definition block_at (i k : nat) : blk := nth k (file_of L i) blk0.
  Definition pv (i k : nat) : pblk := (block_at i k, pre (block_at i k)).

  Definition fs_full (s : state) : bool := negb (Nat.ltb (length (s_fs s)) 1).

  Definition l_exit (s : state) : state := set_fsclosed true (set_l LDone s).

  Definition step_L (c : bool) (s : state) : state :=
    match s_l s with
    | LSel i =>
        if term s && c then l_exit s
        else if is_FExists i then l_exit (shut EExists s)
        else if Nat.ltb i (nfiles L) then set_l (LSend i) s
        else if term s then l_exit s
        else s                                   (* polls every retryDelay for the next bundle *)
    | LSend i =>
        if term s && (c || fs_full s) then l_exit s
        else if fs_full s then s
        else
          let s1 := set_fs (s_fs s ++ [IFile i]) (set_sent (S i) s) in
          let s2 := upd_file i (set_r ROpen (s_file s i)) s1 in
          set_l (if stop_after L i then LStop else LSel (S i)) s2
    | LStop =>
        if fs_full s then s else l_exit (set_fs (s_fs s ++ [IStop]) s)
    | LDone => s
    end.

  Definition is_DSel (d : dpc) : bool := match d with DSel => true | _ => false end.
  Definition is_DDone (d : dpc) : bool := match d with DDone => true | _ => false end.

  Definition step_R (i : nat) (c : bool) (s : state) : state :=
    let f := s_file s i in
    match f_r f with
    | RIdle => s
    | ROpen =>
        if is_FOpen i then upd_file i (set_r RDone f) (shut EOpen s)
        else if is_FHeader i then upd_file i (set_r RDone f) (shut EHeader s)
        else upd_file i (set_d DSel (set_r RLoop f)) s
    | RLoop =>
        if term s then upd_file i (set_r RDone f) s
        else
          let k := f_rk f in
          if is_FRead i k then
            if c_fix2 C then upd_file i (set_r RDone f) (shut ERead s)
            else upd_file i (set_qclosed true (set_r RFail f)) s
          else
            match nth_error (file_of L i) k with
            | None => upd_file i (set_qclosed true (set_r RWait f)) s
            | Some b =>
                if keep L i b then upd_file i (set_r RSend f) s
                else upd_file i (set_rk (S k) f) s
            end
    | RSend =>
        let k := f_rk f in
        let room := Nat.ltb (length (f_q f)) T in
        let hand := Nat.eqb T 0 && is_DSel (f_d f) in
        if term s && (c || negb (room || hand)) then upd_file i (set_r RWait f) s
        else if room then
          upd_file i (set_r RLoop (set_rk (S k) (set_cell k CRun (set_q (f_q f ++ [k]) f)))) s
        else if hand then
          upd_file i (set_r RLoop (set_rk (S k) (set_cell k CRun (set_d (DCell k) f)))) s
        else s
    | RFail => upd_file i (set_r RDone f) (shut ERead s)
    | RWait => if is_DDone (f_d f) then upd_file i (set_r RDone f) s else s
    | RDone => s
    end.

  Definition d_exit (f : fstate) : fstate := set_bclosed true (set_d DDone f).

  Definition m_waits_on (i : nat) (s : state) : bool :=
    match s_m s with MFile j => Nat.eqb j i | _ => false end.

  Definition step_D (i : nat) (c : bool) (s : state) : state :=
    let f := s_file s i in
    match f_d f with
    | DIdle => s
    | DSel =>
        match f_q f with
        | k :: q' =>
            if term s && c then upd_file i (d_exit f) s
            else upd_file i (set_d (DCell k) (set_q q' f)) s
        | [] => if term s || f_qclosed f then upd_file i (d_exit f) s else s
        end
    | DCell k =>
        match f_cell f k with
        | CFull v =>
            if term s && c then upd_file i (d_exit f) s
            else upd_file i (set_d (DSend v) (set_cell k CTaken f)) s
        | _ => if term s then upd_file i (d_exit f) s else s
        end
    | DSend v =>
        if term s && (c || negb (m_waits_on i s)) then upd_file i (d_exit f) s
        else if m_waits_on i s then
          set_m (MPoll i v) (upd_file i (set_d DSel (set_out (f_out f ++ [v]) f)) s)
        else s
    | DDone => s
    end.

  Definition step_P (i k : nat) (c : bool) (s : state) : state :=
    let f := s_file s i in
    match f_cell f k with
    | CRun =>
        if is_FPre i k then upd_file i (set_cell k CDead f) (shut EPre s)
        else if term s && c then upd_file i (set_cell k CDead f) s
        else upd_file i (set_cell k (CFull (pv i k)) f) s
    | _ => s
    end.

  Definition step_M (c : bool) (s : state) : state :=
    match s_m s with
    | MSel =>
        match s_fs s with
        | IFile i :: r =>
            if term s && c then set_m (MRet ENil) s
            else set_m (MFile i) (set_taken (S i) (set_fs r s))
        | IStop :: r =>
            if term s && c then set_m (MRet ENil) s
            else set_m (MRet EStop) (set_fs r s)
        | [] => if term s || s_fsclosed s then set_m (MRet ENil) s else s
        end
    | MFile i =>
        let closed := f_bclosed (s_file s i) in
        if c_fix1 C && term s && (c || negb closed) then set_m (MRet ENil) s
        else if closed then set_m MSel s
        else s
    | MPoll i v => if term s then set_m (MRet ENil) s else set_m (MCall i v) s
    | MCall i v =>
        let b := fst v in
        if negb (N.eqb (s_last s) 0) && negb (N.eqb (b_par b) (s_last s)) then set_m (MRet ENonSeq) s
        else
          let s1 := set_calls (s_calls s ++ [v]) (set_last (b_id b) s) in
          if is_FHandler (length (s_calls s)) then set_m (MRet EHandler) s1
          else set_m (MFile i) s1
    | MRet e => set_m (MDone e) (shut e s)
    | MDone _ => s
    end.

  Definition step_X (s : state) : state :=
    if s_x s then set_x false (shut ENil s) else s.

  Definition step (s : state) (tc : tid * bool) : state :=
    let (t, c) := tc in
    match t with
    | TL => step_L c s
    | TR i => step_R i c s
    | TD i => step_D i c s
    | TP i k => step_P i k c s
    | TM => step_M c s
    | TX => step_X s
    end.

  Definition run (sched : list (tid * bool)) (s : state) : state := fold_left step sched s.

  Definition file0 : fstate := mkF RIdle 0 DIdle [] false (fun _ => CNone) false [].

  Definition init : state :=
    mkS None (c_ext C) (LSel 0) 0 [] false (fun _ => file0) MSel 0 0 [].

  (* the finitely many threads that can ever move *)
  Definition file_tids (i : nat) : list tid :=
    TR i :: TD i :: map (TP i) (seq 0 (length (file_of L i))).
  Definition all_tids : list tid :=
    TL :: TM :: TX :: flat_map file_tids (seq 0 (nfiles L)).
  Definition all_moves : list (tid * bool) :=
    flat_map (fun t => [(t, false); (t, true)]) all_tids.

  (* a fair round: every thread once with each choice; [rounds n] = n fair rounds *)
  Fixpoint rounds (n : nat) : list (tid * bool) :=
    match n with O => [] | S n' => all_moves ++ rounds n' end.
End Model.

Definition returned (s : state) : bool := match s_m s with MDone _ => true | _ => false end.

(* nobody can move any more *)
Definition quiescent (pre : blk -> N) (C : cfg) (s : state) : Prop :=
  forall tc, step pre C s tc = s.

Definition reachable (pre : blk -> N) (C : cfg) (s : state) : Prop :=
  exists sched, s = run pre C sched (init C).

Definition fixed (C : cfg) : Prop := c_fix1 C = true /\ c_fix2 C = true.

(* the fault sites that exist in a given layout (used by generators and non-vacuity) *)
Definition fault_in_range (C : cfg) : bool :=
  let L := c_lay C in
  match c_fault C with
  | FNone => true
  | FExists i => Nat.leb i (nfiles L)
  | FOpen i | FHeader i => Nat.ltb i (nfiles L)
  | FRead i k => Nat.ltb i (nfiles L) && Nat.leb k (length (file_of L i))
  | FPre i k => Nat.ltb i (nfiles L) && Nat.ltb k (length (file_of L i))
  | FHandler _ => true
  end.
