(* Model of /repo oneblockfile.go (TruncateBlockID, BlockFileNameWithSuffix, ParseFilename with
   repo_patches/C16_fix_parsefilename_64bit applied, decodeOneblockfileData),
   oneblock_source.go (listOneBlocks over dstore's WalkFrom) and single_block_fetcher.go
   (FetchBlockFromOneBlockStore with repo_patches/C16_fix_fetch_wrong_height applied).
   Names are byte lists.  strings.Split / strings.Join are the functions of
   Model/CursorCodec.v (shared with C14).  Definitions only, no proofs. *)
From BV Require Import Base.Prelude Base.Decimal Model.CursorCodec Model.Dbin.
Local Open Scope N_scope.

Definition dash : N := 45.

(* TruncateBlockID: the last 16 BYTES when longer than 16 *)
Definition truncate_id (s : str) : str :=
  if (length s <=? 16)%nat then s else skipn (length s - 16) s.

(* fmt %010d of a uint64: at least 10 digits, zero padded *)
Definition pad10 (n : N) : str :=
  let d := print_dec n in repeat 48 (10 - length d) ++ d.

(* BlockFileNameWithSuffix *)
Definition block_file_name (num : N) (id parent : str) (lib : N) (suffix : str) : str :=
  join dash [pad10 num; truncate_id id; truncate_id parent; print_dec lib; suffix].

Record parsed := mkParsed { p_num : N; p_id : str; p_prev : str; p_lib : N; p_canon : str }.

(* ParseFilename: exactly 5 '-'-separated segments, 64-bit unsigned decimal numbers;
   None = error (the partially filled results Go returns next to an error are not observable
   through NewOneBlockFile and are not modelled) *)
Definition parse_filename (s : str) : option parsed :=
  match split dash s with
  | [a; b; c; d; e] =>
      match parse_uint two64 a with
      | None => None
      | Some n =>
          match parse_uint two64 d with
          | None => None
          | Some l => Some (mkParsed n b c l (join dash [a; b; c; d]))
          end
      end
  | _ => None
  end.

Definition parsed_eqb (x y : parsed) : bool :=
  (p_num x =? p_num y) && eqb_list (p_id x) (p_id y) && eqb_list (p_prev x) (p_prev y) &&
  (p_lib x =? p_lib y) && eqb_list (p_canon x) (p_canon y).

(* ------------------------------------------------------------------ one-block store *)

(* Go string comparison a <= b (bytewise lexicographic) *)
Fixpoint str_leb (a b : str) : bool :=
  match a, b with
  | [], _ => true
  | _ :: _, [] => false
  | x :: a', y :: b' => if x <? y then true else if y <? x then false else str_leb a' b'
  end.

(* strings.HasSuffix *)
Definition has_suffix (s suf : str) : bool :=
  (length suf <=? length s)%nat && eqb_list (skipn (length s - length suf) s) suf.

(* listOneBlocks(from, to) over dstore.WalkFrom("", "%010d" from): [names] is the order in which
   the store's Walk presents the file names; the gate opens at the first name >= start and
   stays open; unparsable names are skipped; a parsed number > to (when to <> 0) stops the walk *)
Fixpoint list_one_blocks (start : str) (to : N) (gate : bool) (names : list str) : list (str * parsed) :=
  match names with
  | [] => []
  | nm :: r =>
      let gate' := gate || str_leb start nm in
      if gate' then
        match parse_filename nm with
        | None => list_one_blocks start to gate' r
        | Some p =>
            if negb (to =? 0) && (to <? p_num p) then []
            else (nm, p) :: list_one_blocks start to gate' r
        end
      else list_one_blocks start to gate' r
  end.

Fixpoint lookup (nm : str) (store : list (str * str)) : option str :=
  match store with
  | [] => None
  | (k, v) :: r => if eqb_list k nm then Some v else lookup nm r
  end.

Inductive fres (T : Type) := FBlock (x : T) | FNotFound | FErr | FNil.
Arguments FBlock {T} x.
Arguments FNotFound {T}.
Arguments FErr {T}.
Arguments FNil {T}.

(* decodeOneblockfileData: the first message of the file; a clean EOF right after the header is an
   error ("one-block file holds no block": fix 6b75a41; the code as shipped returned (nil, nil), the
   distinguished FNil, kept below as decode_one_block_file_unfixed) *)
Definition decode_one_block_file {T} (dec : str -> option T) (data : str) : fres T :=
  match read_header data with
  | None => FErr
  | Some (_, s1) =>
      match bs_read_message dec s1 with
      | (RItem x, _) => FBlock x
      | (REOF, _) => FErr
      | (RErr, _) => FErr
      end
  end.
Definition decode_one_block_file_unfixed {T} (dec : str -> option T) (data : str) : fres T :=
  match read_header data with
  | None => FErr
  | Some (_, s1) =>
      match bs_read_message dec s1 with
      | (RItem x, _) => FBlock x
      | (REOF, _) => FNil
      | (RErr, _) => FErr
      end
  end.

(* FetchBlockFromOneBlockStore(num, id, store); NormalizeBlockID is the identity (its default) *)
Definition fetch_one_block {T} (dec : str -> option T) (store : list (str * str)) (num : N) (id : str) : fres T :=
  let obfs := list_one_blocks (pad10 num) ((num + 1) mod two64) false (map fst store) in
  match find (fun np => (p_num (snd np) =? num) && has_suffix id (p_id (snd np))) obfs with
  | None => FNotFound
  | Some (nm, _) =>
      match lookup nm store with
      | None => FErr
      | Some data => decode_one_block_file dec data
      end
  end.
