(* Model of the public lookup API of forkable.Forkable (C18, C03): AllIDs, HeadInfo, HeadNum,
   LowestBlockNum, CanonicalBlockAt, AllBlocksAt, GetBlockByHash.  Map-ordered results are sorted. *)
From BV Require Import Base.Prelude Model.Block Model.ForkDB Model.Forkable.
Local Open Scope N_scope.

Fixpoint insertN (x : N) (l : list N) : list N :=
  match l with [] => [x] | y :: l' => if x <=? y then x :: l else y :: insertN x l' end.
Definition sortN (l : list N) : list N := fold_right insertN [] l.

Definition all_ids (s : fstate) : list N := sortN (map (fun e => bid (eb e)) (store (db s))).

Definition head_info (s : fstate) : option (ref * N) :=
  match last_sent s with Some b => Some (bref b, blib b) | None => None end.
Definition head_num (s : fstate) : N := match last_sent s with Some b => bnum b | None => 0 end.

(* fuel exhaustion is reported as the impossible value Some (2^64); None (a panic) is no longer
   produced since the empty-segment guard was added to the code *)
Definition lowest_block_num (s : fstate) : option N :=
  match last_sent s with
  | None => Some 0
  | Some b =>
      match complete_segment (db s) (bref b) with
      | None => Some 18446744073709551616
      | Some (sg, true) => match sg with [] => Some 0 | s0 :: _ => Some (snum s0) end
      | Some (_, false) => Some 0
      end
  end.

(* id of the canonical block at height h, 0 = nil *)
Definition canonical_block_at (s : fstate) (h : N) : N :=
  match last_sent s with
  | None => 0
  | Some b =>
      match block_in_chain (db s) (bref b) h with
      | None => 18446744073709551616
      | Some r => if ri r =? 0 then 0
                  else match find (ri r) (store (db s)) with Some _ => ri r | None => 0 end
      end
  end.

(* None would be a panic; the nums entry written by InitLIB has no object and is skipped *)
Definition all_blocks_at (s : fstate) (h : N) : option (list N) :=
  Some (sortN (map (fun e => bid (eb e)) (filter (fun e => bnum (eb e) =? h) (store (db s))))).

Definition get_block_by_hash (s : fstate) (id : N) : bool :=
  match find id (store (db s)) with Some _ => true | None => false end.
