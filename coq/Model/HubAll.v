(* The hub's fan-out, faithful BEFORE readiness too (finding W1-C08-2).

   /repo/hub/hub.go installs hub.processBlock as the handler of the Forkable in NewForkableHub, i.e. from
   the start: EVERY event the Forkable delivers reaches processBlock and is pushed to the subscriptions
   registered at that moment.  That includes
     - the events of the one-block files fed during a bootstrap pass (bootstrap(): oneBlocksSource.Run()
       hands every block to h.forkable.ProcessBlock, whose handler is processBlock),
     - the events of a live block processed while the hub is not ready (the two
       h.forkable.ProcessBlock(blk, nil) calls of bootstrap()), in particular those of the live block
       that makes the hub ready,
   and the SourceFrom* requests do not test the ready flag, so such subscriptions can exist.
   Model/Hub.v [hub_live] returns only the events of a live block processed by a READY hub (what C09/C07
   need: those proofs are about a ready hub).  [hub_live_all] below returns all of them, in delivery order,
   with the same resulting hub and result ([hub_live_all_state], [hub_live_all_ready] in
   Proofs/C08_HubAll.v).  Nothing of Model/Hub.v is changed. *)
From BV Require Import Base.Prelude Model.Block Model.ForkDB Model.Forkable Model.ForkableLookups Model.Burst Model.Hub Model.HubSubs.
Local Open Scope N_scope.

(* Model/Hub.v [feed] with the events kept: a one-block source pushes its blocks in order and stops at
   the first error; the events the Forkable delivered during the failing call were delivered *)
Fixpoint feed_ev (cfg : config) (s : fstate) (l : list block) : fstate * list event :=
  match l with
  | [] => (s, [])
  | b :: l' => let '(s', evs, r) := fk_step cfg s b in
               match r with
               | ROk => let '(s2, evs2) := feed_ev cfg s' l' in (s2, evs ++ evs2)
               | _ => (s', evs)
               end
  end.

(* bootstrapperHandler on one live block: the new hub, ALL events handed to processBlock while the hub
   handles this block (bootstrap feed first, then the live block itself), and the result *)
Definition hub_live_all (first kept : N) (h : hub) (p : pass) (b : block) : hub * list event * result :=
  let cfg := hub_config first kept in
  if h_ready h then
    let '(s', evs, r) := fk_step cfg (h_f h) b in (mkHub s' true, evs, r)
  else if bnum b <? head_num (h_f h) then
    let '(s', evs, r) := fk_step cfg (h_f h) b in (mkHub s' false, evs, r)
  else
    match linkable (h_f h) b with
    | None => (h, [], RFuel)
    | Some l0 =>
        let boot : option (fstate * list event) :=
          if l0 then Some (h_f h, [])
          else match p with
               | PNil => None
               | PBlocks bl =>
                   let start := sub_round first (blib b) kept in
                   Some (feed_ev cfg (h_f h) (filter (fun x => start <=? bnum x) bl))
               end in
        match boot with
        | None => (h, [], ROk)                     (* no one-block source yet: live block dropped *)
        | Some (s1, evs1) =>
            let '(s2, evs2, r) := fk_step cfg s1 b in
            let evs := evs1 ++ evs2 in
            match r with
            | ROk => match linkable s2 b with
                     | None => (mkHub s2 false, evs, RFuel)
                     | Some true =>
                         (mkHub s2 (match head_info s2 with Some _ => true | None => false end), evs, ROk)
                     | Some false => (mkHub s2 false, evs, ROk)
                     end
            | _ => (mkHub s2 false, evs, r)
            end
        end
    end.

Definition hprod := hub -> block -> hub * list event.

(* ---- the fan-out of Model/HubSubs.v for an arbitrary event production function ----
   hp h b = (hub after the live block b, events handed to processBlock meanwhile).  HubSubs.push_block is
   the instance hp := hub_live .. (PBlocks []) (provably, [push_block_g_old] in Proofs/C08_HubAll.v). *)
Definition push_block_g (hp : hprod) (sh : shub) (b : block) : shub * list event :=
  let '(h', evs) := hp (sh_hub sh) b in
  (mkSH h' (fold_left fan_out evs (sh_subs sh)), evs).

(* the faithful instance.  pf b = what the one-block store offers when the live block b arrives (PNil: no
   one-block source could be built; PBlocks l: the source plays l, filtered from the start block on) *)
Definition hub_push_all (first kept : N) (pf : block -> pass) : hprod := fun h b =>
  let '(h', evs, _) := hub_live_all first kept h (pf b) b in (h', evs).

(* one push with an explicit pass (the form the correspondence check runs) *)
Definition push_block_all (first kept : N) (p : pass) (sh : shub) (b : block) : shub * list event :=
  push_block_g (fun h x => let '(h', evs, _) := hub_live_all first kept h p x in (h', evs)) sh b.
