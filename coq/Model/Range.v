(* Model of /repo/range.go (with the three C19 fix patches applied): Range, its constructors,
   Contains, ReachedEndBlock, Next, Previous, Equals, IsNext, Size, Split and ParseRange.
   Heights are N; every uint64 operation that can wrap is written with an explicit mod 2^64
   (add64 / sub64).  Definitions only, no proofs. *)
From BV Require Import Base.Prelude Base.Decimal.
Local Open Scope N_scope.

(* uint64 arithmetic on values already below 2^64 *)
Definition add64 (a b : N) : N := (a + b) mod two64.
Definition sub64 (a b : N) : N := (a + two64 - b) mod two64.

(* type Range struct { startBlock; endBlock *uint64 (nil = open ended); exclusiveStartBlock;
   exclusiveEndBlock }.  The end block is compared by value (fix: Equals), so the model needs no
   allocation identity. *)
Record range := mkRange { rstart : N; rend : option N; rexs : bool; rexe : bool }.

(* ---- constructors ---- *)

(* newRange: error when a given end is <= start *)
Definition new_range (s : N) (e : option N) (exs exe : bool) : option range :=
  match e with
  | Some ev => if ev <=? s then None else Some (mkRange s e exs exe)
  | None => Some (mkRange s None exs exe)
  end.

Inductive ctor_res := CtorOk (r : range) | CtorErr | CtorPanic.

(* mustNewRange panics on the error of newRange *)
Definition must_new_range (s : N) (e : option N) (exs exe : bool) : ctor_res :=
  match new_range s e exs exe with Some r => CtorOk r | None => CtorPanic end.

Definition new_open_range (s : N) : ctor_res := must_new_range s None false true.
Definition new_range_excluding_end (s e : N) : ctor_res := must_new_range s (Some e) false true.
Definition new_inclusive_range (s e : N) : ctor_res := must_new_range s (Some e) false false.

(* NewRangeContaining: start := blockNum - blockNum % size; NewInclusiveRange(start, start+size);
   start+size is a uint64 addition (wraps), in which case mustNewRange panics *)
Definition new_range_containing (b size : N) : ctor_res :=
  if size =? 0 then CtorErr
  else let st := sub64 b (b mod size) in new_inclusive_range st (add64 st size).

(* ---- methods ---- *)

Definition contains (r : range) (n : N) : bool :=
  if n <? rstart r then false
  else if rexs r && (n =? rstart r) then false
  else match rend r with
       | None => true
       | Some e => if e <? n then false
                   else if rexe r && (n =? e) then false
                   else true
       end.

(* endBlock-1 is a uint64 subtraction *)
Definition reached (r : range) (n : N) : bool :=
  match rend r with
  | None => false
  | Some e => if e <=? n then true
              else if rexe r && (n =? sub64 e 1) then true
              else false
  end.

Definition next (r : range) (size : N) : range :=
  match rend r with
  | None => mkRange (add64 (rstart r) size) None (rexs r) (rexe r)
  | Some e => mkRange e (Some (add64 e size)) (rexs r) (rexe r)
  end.

Definition previous (r : range) (size : N) : range :=
  mkRange (sub64 (rstart r) size)
          (match rend r with None => None | Some _ => Some (rstart r) end)
          (rexs r) (rexe r).

(* Equals after the fix: end blocks compared by value, nil only equal to nil *)
Definition range_eqb (a b : range) : bool :=
  (rstart a =? rstart b) && opt_eqb N.eqb (rend a) (rend b) &&
  Bool.eqb (rexs a) (rexs b) && Bool.eqb (rexe a) (rexe b).

Definition is_next (r nx : range) (size : N) : bool := range_eqb (next r size) nx.

(* Size: None = ErrOpenEndedRange *)
Definition size (r : range) : option N :=
  match rend r with None => None | Some e => Some (sub64 e (rstart r)) end.

(* ---- Split ---- *)

Inductive split_res :=
| SplitOk (l : list range)
| SplitErrOpen          (* ErrOpenEndedRange *)
| SplitPanic            (* integer divide by zero: chunkSize = 0 on a range wider than 0 *)
| SplitOutOfFuel.       (* the model's loop bound was exhausted: the Go loop would still be running *)

(* the `for` loop of Split; (cs, ce) = (currentStart, currentEnd) at the top of an iteration.
   After the fix the next end is chosen by comparing distances, not by a wrapping addition. *)
Fixpoint split_loop (fuel : nat) (exs exe : bool) (e chunk cs ce : N) : option (list range) :=
  match fuel with
  | O => None
  | S f =>
      let c := mkRange cs (Some ce) exs exe in
      if e <=? ce then Some [c]
      else
        let cs' := ce in
        let ce' := if sub64 e cs' <=? chunk then e else add64 cs' chunk in
        match split_loop f exs exe e chunk cs' ce' with
        | Some l => Some (c :: l)
        | None => None
        end
  end.

(* enough iterations for every well-formed range (proved in Proofs/RangeSplitFacts.v) *)
Definition split_fuel (s e chunk : N) : nat := N.to_nat (sub64 e s / chunk) + 2.

Definition split (r : range) (chunk : N) : split_res :=
  match rend r with
  | None => SplitErrOpen
  | Some e =>
      if sub64 e (rstart r) <=? chunk then SplitOk [r]
      else if chunk =? 0 then SplitPanic
      else
        let sc := add64 (rstart r) chunk in
        let ce := sub64 sc (sc mod chunk) in
        match split_loop (split_fuel (rstart r) e chunk) (rexs r) (rexe r) e chunk (rstart r) ce with
        | Some l => SplitOk l
        | None => SplitOutOfFuel
        end
  end.

(* ---- ParseRange ---- *)

(* splitBy: ':' or '-'.  FieldsFunc works on runes; both separators are ASCII and no byte of a
   multi-byte or invalid UTF-8 sequence is ASCII, so splitting the byte string is the same. *)
Definition is_sep (c : N) : bool := (c =? 58) || (c =? 45).

(* strings.FieldsFunc: maximal runs of non-separators, empty runs dropped; cur is reversed *)
Fixpoint fields_from (s : str) (cur : str) : list str :=
  match s with
  | [] => match cur with [] => [] | _ => [rev cur] end
  | c :: s' =>
      if is_sep c
      then match cur with [] => fields_from s' [] | _ => rev cur :: fields_from s' [] end
      else fields_from s' (c :: cur)
  end.
Definition fields (s : str) : list str := fields_from s [].

Definition is_alnum (c : N) : bool :=
  ((48 <=? c) && (c <=? 57)) || ((65 <=? c) && (c <=? 90)) || ((97 <=? c) && (c <=? 122)).

(* strings.ReplaceAll(bound, " ", "") then regexp [^a-zA-Z0-9 ]+ replaced by "": every rune that
   is not an ASCII letter, digit or space is dropped; every byte >= 0x80 belongs to such a rune
   (or is an invalid byte, decoded as U+FFFD of width 1) *)
Definition clean (f : str) : str :=
  filter (fun c => is_alnum c || (c =? 32)) (filter (fun c => negb (c =? 32)) f).

Inductive parse_res :=
| ParseOk (r : range)
| ParseErr
| ParsePanic.   (* index out of range on ch[0] / ch[1] *)

(* uint64(x) of an int64 *)
Definition u64_of_int (z : Z) : N := Z.to_N (z mod 18446744073709551616)%Z.

(* exs / exe: whether WithExclusiveStart() / WithExclusiveEnd() are among the options *)
Definition parse_range (s : str) (exs exe : bool) : parse_res :=
  match s with
  | [] => ParseErr
  | _ =>
      let ch0 := fields s in
      if (length ch0 <? 2)%nat then ParseErr        (* fix: missing bound is an error *)
      else
        let ch := map clean ch0 in
        match nth_error ch 0 with
        | None => ParsePanic
        | Some f0 =>
            match parse_int two63 f0 with
            | None => ParseErr
            | Some lo =>
                match nth_error ch 1 with
                | None => ParsePanic
                | Some f1 =>
                    match parse_int two63 f1 with
                    | None => ParseErr
                    | Some hi =>
                        match new_range (u64_of_int lo) (Some (u64_of_int hi)) exs exe with
                        | Some r => ParseOk r
                        | None => ParseErr
                        end
                    end
                end
            end
        end
  end.

(* ---- the code before the fix patches, kept only to state what they repair ---- *)

(* ParseRange without the length check *)
Definition parse_range_unfixed (s : str) (exs exe : bool) : parse_res :=
  match s with
  | [] => ParseErr
  | _ =>
      let ch := map clean (fields s) in
      match nth_error ch 0 with
      | None => ParsePanic
      | Some f0 =>
          match parse_int two63 f0 with
          | None => ParseErr
          | Some lo =>
              match nth_error ch 1 with
              | None => ParsePanic
              | Some f1 =>
                  match parse_int two63 f1 with
                  | None => ParseErr
                  | Some hi =>
                      match new_range (u64_of_int lo) (Some (u64_of_int hi)) exs exe with
                      | Some r => ParseOk r
                      | None => ParseErr
                      end
                  end
              end
          end
      end
  end.

(* Split's loop with `currentEnd = currentStart + chunkSize; if currentEnd > endBlock {…}` *)
Fixpoint split_loop_unfixed (fuel : nat) (exs exe : bool) (e chunk cs ce : N) : option (list range) :=
  match fuel with
  | O => None
  | S f =>
      let c := mkRange cs (Some ce) exs exe in
      if e <=? ce then Some [c]
      else
        let cs' := ce in
        let ce0 := add64 cs' chunk in
        let ce' := if e <? ce0 then e else ce0 in
        match split_loop_unfixed f exs exe e chunk cs' ce' with
        | Some l => Some (c :: l)
        | None => None
        end
  end.
