(* Model of /repo/forkable/forkable.go: ProcessBlock and everything it calls, in program order.
   Not modelled (outside every property's quantifier, harness keeps them off): EnsureBlockFlows,
   the unlinkable-block counters, logging.  The lastLongestChain cache is not part of this file:
   fk_step always recomputes ReversibleSegment; Model/ForkableCache.v is ProcessBlock with the
   cache (fk_step_c), compared with the implementation on every case like fk_step. *)
From BV Require Import Base.Prelude Model.Block Model.ForkDB.
Local Open Scope N_scope.

Record stepfilter := mkFilter { f_new : bool; f_undo : bool; f_irr : bool; f_stalled : bool }.

Record config := mkCfg {
  c_first : N;           (* bstream.GetProtocolFirstStreamableBlock *)
  c_incl : bool;         (* includeInitialLIB *)
  c_hold : bool;         (* holdBlocksUntilLIB *)
  c_kept : N;            (* keptFinalBlocks *)
  c_alltrig : bool;      (* ensureAllBlocksTriggerLongestChain *)
  c_filter : stepfilter;
  c_fail_at : option N   (* handler oracle: index of the failing handler call *)
}.

Record fstate := mkFS {
  db : forkdb;
  last_sent : option block;      (* lastBlockSent *)
  last_lib_seen : ref;           (* lastLIBSeen *)
  ncalls : N                     (* handler calls made so far (oracle position) *)
}.

(* forkable.New with WithExclusiveLIB / WithInclusiveLIB / nothing *)
Inductive libmode := LExcl (r : ref) | LIncl (r : ref) | LNone.
Definition fs_init (m : libmode) : fstate :=
  match m with
  | LExcl r => mkFS (init_lib db_empty r) None r 0
  | LIncl r => mkFS (init_lib db_empty r) None ref_empty 0
  | LNone => mkFS db_empty None ref_empty 0
  end.

Inductive result := ROk | RHandlerErr | RSelfParent | RPanic | RFuel.
Definition result_eqb (a b : result) : bool :=
  match a, b with
  | ROk, ROk | RHandlerErr, RHandlerErr | RSelfParent, RSelfParent | RPanic, RPanic | RFuel, RFuel => true
  | _, _ => false
  end.

Definition with_db (s : fstate) (d : forkdb) : fstate := mkFS d (last_sent s) (last_lib_seen s) (ncalls s).

(* one handler call: the event is delivered; ok = false when the oracle makes this call fail *)
Definition call (cfg : config) (s : fstate) : fstate * bool :=
  let ok := match c_fail_at cfg with Some k => negb (k =? ncalls s) | None => true end in
  (mkFS (db s) (last_sent s) (last_lib_seen s) (ncalls s + 1), ok).

Definition cursor_lib (s : fstate) : ref :=
  if is_empty (last_lib_seen s) then libref (db s) else last_lib_seen s.

(* processBlocks (undo / redo batches) *)
Fixpoint process_blocks_loop (cfg : config) (cur : block) (st : step) (junc : option ref)
         (count : N) (idx : N) (blocks : list entry) (s : fstate) (acc : list event)
  : fstate * list event * bool :=
  match blocks with
  | [] => (s, acc, true)
  | e :: rest =>
      let ev := mkEv st (eb e) (bref (eb e)) (bref cur) (cursor_lib s)
                     (if matches_undo st then junc else None) idx count in
      let '(s', ok) := call cfg s in
      if ok then process_blocks_loop cfg cur st junc count (idx + 1) rest s' (acc ++ [ev])
      else (s', acc ++ [ev], false)
  end.
Definition process_blocks cfg cur blocks st junc s :=
  process_blocks_loop cfg cur st junc (N.of_nat (length blocks)) 0 blocks s [].

(* processNewBlocks; head = last element of the chain *)
Fixpoint process_new_loop (cfg : config) (head : ref) (chain : list seg) (s : fstate) (acc : list event)
  : fstate * list event * bool :=
  match chain with
  | [] => (s, acc, true)
  | b :: rest =>
      if esent (sent b) then process_new_loop cfg head rest s acc
      else
        let blk := eb (sent b) in
        let mark (s0 : fstate) :=
          mkFS (mkDB (set_sent (sid b) (store (db s0))) (extra (db s0)) (libref (db s0)))
               (Some blk) (last_lib_seen s0) (ncalls s0) in
        if f_new (c_filter cfg) then
          let ev := mkEv SNew blk (seg_ref b) head (cursor_lib s) None 0 0 in
          let '(s', ok) := call cfg s in
          if ok then process_new_loop cfg head rest (mark s') (acc ++ [ev])
          else (s', acc ++ [ev], false)
        else process_new_loop cfg head rest (mark s) acc
  end.
Definition process_new_blocks (cfg : config) (chain : list seg) (s : fstate) : fstate * list event * bool :=
  match chain with
  | [] => (s, [], true)     (* the code indexes longestChain[len-1]; callers guarantee non-empty *)
  | b0 :: _ => process_new_loop cfg (seg_ref (last chain b0)) chain s []
  end.

(* processIrreversibleSegment *)
Fixpoint process_irr_loop (cfg : config) (head : ref) (count idx : N) (l : list seg) (s : fstate) (acc : list event)
  : fstate * list event * bool :=
  match l with
  | [] => (s, acc, true)
  | b :: rest =>
      let blk := eb (sent b) in
      let ev := mkEv SIrr blk (bref blk) head (bref blk) None idx count in
      let '(s', ok) := call cfg s in
      if ok then process_irr_loop cfg head count (idx + 1) rest s' (acc ++ [ev])
      else (s', acc ++ [ev], false)
  end.
Definition process_irr_segment (cfg : config) (irr : list seg) (head : ref) (s : fstate)
  : fstate * list event * bool :=
  let '(s1, evs, ok) :=
    if f_irr (c_filter cfg) then process_irr_loop cfg head (N.of_nat (length irr)) 0 irr s []
    else (s, [], true) in
  if ok then
    match irr with
    | [] => (s1, evs, true)
    | b0 :: _ => (mkFS (db s1) (last_sent s1) (seg_ref (last irr b0)) (ncalls s1), evs, true)
    end
  else (s1, evs, false).

(* processStalledSegment *)
Fixpoint process_stalled_loop (cfg : config) (head : ref) (count idx : N) (l : list seg) (s : fstate) (acc : list event)
  : fstate * list event * bool :=
  match l with
  | [] => (s, acc, true)
  | b :: rest =>
      let ev := mkEv SStalled (eb (sent b)) (seg_ref b) head (last_lib_seen s) None idx count in
      let '(s', ok) := call cfg s in
      if ok then process_stalled_loop cfg head count (idx + 1) rest s' (acc ++ [ev])
      else (s', acc ++ [ev], false)
  end.
Definition process_stalled_segment (cfg : config) (l : list seg) (head : ref) (s : fstate) :=
  if f_stalled (c_filter cfg) then process_stalled_loop cfg head (N.of_nat (length l)) 0 l s []
  else (s, [], true).

(* processInitialInclusiveIrreversibleBlock(blk, obj, true): the block object is a throwaway,
   nothing is marked in the store *)
Definition process_initial_inclusive (cfg : config) (b : block) (s : fstate) : fstate * list event * bool :=
  let tiny := mkSeg (bid b) (bnum b) (mkEntry b false) in
  (* processNewBlocks on the tiny chain: set_sent on the store is a no-op for the throwaway object;
     we model it literally as "no store change" *)
  let '(s1, ev1, ok1) :=
    if f_new (c_filter cfg) then
      let ev := mkEv SNew b (seg_ref tiny) (seg_ref tiny) (cursor_lib s) None 0 0 in
      let '(s', ok) := call cfg s in
      if ok then (mkFS (db s') (Some b) (last_lib_seen s') (ncalls s'), [ev], true)
      else (s', [ev], false)
    else (mkFS (db s) (Some b) (last_lib_seen s) (ncalls s), [], true) in
  if ok1 then
    let '(s2, ev2, ok2) := process_irr_segment cfg [tiny] (bref b) s1 in
    (s2, ev1 ++ ev2, ok2)
  else (s1, ev1, false).

(* sentChainSegment: None = the panic of the code (BlockForID returned nil) *)
Fixpoint sent_chain_segment (d : forkdb) (ids : list N) (redos : bool) : option (list entry) :=
  match ids with
  | [] => Some []
  | id :: rest =>
      match find id (store d) with
      | None => None
      | Some e =>
          match sent_chain_segment d rest redos with
          | None => None
          | Some l => if redos && negb (esent e) then Some l else Some (e :: l)
          end
      end
  end.

Inductive scss_result :=
| ScssOk (undos redos : list entry) (junc : option ref)
| ScssPanic
| ScssFuel.

Definition sent_chain_switch_segments (d : forkdb) (cur_head new_prev : N) : scss_result :=
  if cur_head =? new_prev then ScssOk [] [] None
  else match chain_switch_segments d cur_head new_prev with
       | CssFuel => ScssFuel
       | CssUnlinked => ScssOk [] [] None
       | CssOk uids rids j =>
           let junc := match uids with
                       | [] => None
                       | _ => match block_for_id d j with Some sg => Some (seg_ref sg) | None => None end
                       end in
           match sent_chain_segment d uids false, sent_chain_segment d rids true with
           | Some u, Some r => ScssOk u r junc
           | _, _ => ScssPanic
           end
       end.

Definition triggers (cfg : config) (s : fstate) (b : block) : bool :=
  c_alltrig cfg ||
  match last_sent s with None => true | Some l => bnum l <? bnum b end.

(* the tail of ProcessBlock once the longest chain is known and triggers *)
Definition process_tail (cfg : config) (s : fstate) (b : block) (undos redos : list entry)
           (junc : option ref) (longest : list seg) (first_irr : option seg)
  : fstate * list event * result :=
  let '(s1, ev1, ok1) :=
    if f_undo (c_filter cfg) then process_blocks cfg b undos SUndo junc s else (s, [], true) in
  if negb ok1 then (s1, ev1, RHandlerErr) else
  let '(s2, ev2, ok2) :=
    if f_new (c_filter cfg) then process_blocks cfg b redos SNew None s1 else (s1, [], true) in
  if negb ok2 then (s2, ev1 ++ ev2, RHandlerErr) else
  let '(s3, ev3, ok3) := process_new_blocks cfg longest s2 in
  let evs := ev1 ++ ev2 ++ ev3 in
  if negb ok3 then (s3, evs, RHandlerErr) else
  match last_sent s3 with
  | None => (s3, evs, ROk)
  | Some ls =>
      if negb (has_lib (db s3)) then (s3, evs, ROk) else
      match block_in_chain (db s3) (bref ls) (blib ls) with
      | None => (s3, evs, RFuel)
      | Some libr =>
          if ri libr =? 0 then (s3, evs, ROk) else
          match has_new_irr_segment (db s3) (c_first cfg) libr with
          | None => (s3, evs, RFuel)
          | Some (has_new, irr0, stalled) =>
              let irr := match first_irr with Some fi => irr0 ++ [fi] | None => irr0 end in
              if negb has_new && (match first_irr with None => true | Some _ => false end) then (s3, evs, ROk) else
              let d' := purge_before_lib (move_lib (db s3) libr) (c_kept cfg) in
              let s4 := with_db s3 d' in
              let '(s5, ev5, ok5) := process_irr_segment cfg irr (bref b) s4 in
              if negb ok5 then (s5, evs ++ ev5, RHandlerErr) else
              let '(s6, ev6, ok6) := process_stalled_segment cfg stalled (bref b) s5 in
              (s6, evs ++ ev5 ++ ev6, if ok6 then ROk else RHandlerErr)
          end
      end
  end.

(* ProcessBlock *)
Definition fk_step (cfg : config) (s : fstate) (b : block) : fstate * list event * result :=
  if bid b =? bparent b then (s, [], RSelfParent) else
  if (bnum b <? rn (libref (db s))) && (match last_sent s with Some _ => true | None => false end)
  then (s, [], ROk) else
  let trig := triggers cfg s b in
  if c_incl cfg && (match last_sent s with None => true | Some _ => false end) && (bid b =? ri (libref (db s)))
  then let '(s', evs, ok) := process_initial_inclusive cfg b (with_db s (fst (add_link (db s) b))) in
       (s', evs, if ok then ROk else RHandlerErr)
  else
  let sw :=
    if f_undo (c_filter cfg) && trig then
      match last_sent s with
      | Some ls => sent_chain_switch_segments (db s) (bid ls) (bparent b)
      | None => ScssOk [] [] None
      end
    else ScssOk [] [] None in
  match sw with
  | ScssPanic => (s, [], RPanic)
  | ScssFuel => (s, [], RFuel)
  | ScssOk undos redos junc =>
      let '(d1, existed) := add_link (db s) b in
      if existed then (s, [], ROk) else
      let s1 := with_db s d1 in
      (* LIB discovery *)
      let disc : option (fstate * option (option seg) * bool) :=
        (* Some (state, Some first_irr | None = "process as initial inclusive", hold_return) *)
        if has_lib d1 then Some (s1, Some None, false)
        else match set_lib d1 (c_first cfg) (bref b) (blib b) with
             | None => None
             | Some d2 =>
                 let s2 := with_db s1 d2 in
                 if has_lib d2 then
                   if rn (libref d2) =? bnum b then Some (s2, None, false)
                   else Some (s2, Some (block_for_id d2 (ri (libref d2))), false)
                 else Some (s2, Some None, c_hold cfg)
             end in
      match disc with
      | None => (s1, [], RFuel)
      | Some (s2, None, _) =>
          let '(s', evs, ok) := process_initial_inclusive cfg b s2 in
          (s', evs, if ok then ROk else RHandlerErr)
      | Some (s2, Some first_irr, hold_ret) =>
          if hold_ret then (s2, [], ROk) else
          match reversible_segment (db s2) (c_first cfg) (bref b) with
          | None => (s2, [], RFuel)
          | Some (longest, _) =>
              if negb trig || (match longest with [] => true | _ => false end) then (s2, [], ROk)
              else process_tail cfg s2 b undos redos junc longest first_irr
          end
      end
  end.

(* a whole history: per incoming block the delivered events and the result.  Like a real
   source, feeding stops after the first error. *)
Fixpoint fk_run (cfg : config) (s : fstate) (h : list block) : list (list event * result) :=
  match h with
  | [] => []
  | b :: rest =>
      let '(s', evs, r) := fk_step cfg s b in
      (evs, r) :: match r with ROk => fk_run cfg s' rest | _ => [] end
  end.

Fixpoint fk_states (cfg : config) (s : fstate) (h : list block) : list fstate :=
  match h with
  | [] => []
  | b :: rest =>
      let '(s', evs, r) := fk_step cfg s b in
      s' :: match r with ROk => fk_states cfg s' rest | _ => [] end
  end.
