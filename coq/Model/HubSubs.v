(* Model of the hub's subscription fan-out (/repo/hub/hub.go subscribe / unsubscribe / processBlock,
   /repo/hub/subscription.go push), sequential semantics: the Forkable lock makes a subscription request
   atomic with respect to block processing, and (after the fix) registrations are serialised by the
   subscribers mutex. *)
From BV Require Import Base.Prelude Model.Block Model.ForkDB Model.Forkable Model.ForkableLookups Model.Burst Model.Hub.
Local Open Scope N_scope.

Inductive qitem := QEv (e : event) | QBlk (b : block).     (* with-forks bursts carry plain blocks *)

Record msub := mkSub {
  ms_queue : list qitem;      (* pending, oldest first *)
  ms_cap : N;                 (* 100 + length of the burst *)
  ms_dropped : bool           (* terminated with the capacity error, unsubscribed *)
}.

Record shub := mkSH { sh_hub : hub; sh_subs : list msub }.

Inductive sub_req :=
| RNum (n : N) | RForks (n : N) | RCursor (c : cursor) | RThrough (start : N) (c : cursor).

(* the burst of a request, None = no source *)
Definition request_burst (h : hub) (r : sub_req) : option (list qitem) :=
  let s := h_f h in
  match r with
  | RNum n => match blocks_from_num s n with BOk e => Some (map QEv e) | _ => None end
  | RForks n => match blocks_from_num_with_forks s n with Some bl => Some (map QBlk bl) | None => None end
  | RCursor c => match blocks_from_cursor s c with BOk e => Some (map QEv e) | _ => None end
  | RThrough st c => match hub_through_cursor s st c with BOk e => Some (map QEv e) | _ => None end
  end.

Definition subscribe (sh : shub) (r : sub_req) : shub * bool :=
  match request_burst (sh_hub sh) r with
  | None => (sh, false)
  | Some burst =>
      (mkSH (sh_hub sh) (sh_subs sh ++ [mkSub burst (100 + N.of_nat (length burst)) false]), true)
  end.

(* Subscription.push for every registered subscription; a full queue drops that subscription only *)
Definition fan_out (subs : list msub) (e : event) : list msub :=
  map (fun s => if ms_dropped s then s
                else if N.of_nat (length (ms_queue s)) =? ms_cap s then mkSub (ms_queue s) (ms_cap s) true
                else mkSub (ms_queue s ++ [QEv e]) (ms_cap s) false) subs.

Definition push_block (first kept : N) (sh : shub) (b : block) : shub * list event :=
  let '(h', evs, _) := hub_live first kept (sh_hub sh) (PBlocks []) b in
  (mkSH h' (fold_left fan_out evs (sh_subs sh)), evs).

Fixpoint drain_nth (n : nat) (subs : list msub) : list msub * list qitem :=
  match subs with
  | [] => ([], [])
  | s :: rest =>
      match n with
      | O => (mkSub [] (ms_cap s) (ms_dropped s) :: rest, ms_queue s)
      | S n' => let '(rest', q) := drain_nth n' rest in (s :: rest', q)
      end
  end.
