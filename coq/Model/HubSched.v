(* Interleaving model of the hub's subscription fan-out for C08 (definitions only).

   Code: /repo/hub/hub.go (processBlock, subscribe, unsubscribe, SourceFromXxx), /repo/forkable/forkable.go
   (ProcessBlock takes p.Lock(); CallWithBlocksXxx take p.RLock() and run the subscribe callback under
   it), /repo/hub/subscription.go (push = capacity test + send on a buffered channel; run = receive).

   Threads.  ONE producer (TProd) calling Forkable.ProcessBlock for every block of its script; requester
   i (TReq i) calling one ForkableHub.SourceFromXxx with request r_req; consumer i (TCons i) running
   Subscription.run on the subscription requester i obtained, i.e. receiving from its channel.
   A schedule is a `list tid`; `cstep` performs the next atomic step of the thread, or leaves the state
   unchanged when that step is not enabled (lock not available, channel empty, nothing left to do).

   Atomic steps = the code between two synchronisation operations:
     producer   PIdle   -> PWait b     p.Lock() announces the writer: from now on new readers wait
                PWait b -> PLocked b   ... and returns once no reader is inside           [may wait]
                PLocked b -> PEvents evs   the Forkable's own work on block b: new forkdb/head/LIB state
                                       and the events it will hand to its handler (h.processBlock), in order
                PEvents (e :: evs) -> PFan e subs evs    processBlock(e): subscribersLock.Lock();
                                       subscribers := h.subscribers; Unlock()              [mutex]
                PFan e (k :: todo) evs -> PFan e todo evs | PDrop e k todo evs
                                       sub.push(e) for the next subscription of the snapshot: len == cap ?
                                       error : send.  Never waits.
                PDrop e k todo evs -> PFan e todo evs    h.unsubscribe(sub) (subscribersLock; filter) and
                                       sub.Shutdown(err)                                    [mutex]
                PFan e [] evs -> PEvents evs             processBlock returns
                PEvents [] -> PIdle    p.Unlock()
     requester  RStart -> RLocked      p.RLock(): only while no writer holds or has announced [may wait]
                RLocked -> RHook | RUnlocking   blocksFromXxx(...) on the Forkable: the burst, or an error
                                       ("no source": RUnlock and return nil); NewSubscription with the
                                       burst pushed into its channel
                RHook                  the schedule point verifPoint("subscribe:before-append")
                RHook -> RMutex        subscribersLock.Lock()                       [fixed code; may wait]
                RMutex -> RRead snap   reads h.subscribers          (unfixed code: RHook -> RRead snap)
                RRead snap -> RWritten h.subscribers = append(snap, sub)
                RWritten -> RUnlocking subscribersLock.Unlock()                     [fixed code]
                RUnlocking -> RDone    p.RUnlock(); SourceFromXxx returns
     consumer   one receive from the channel, once SourceFromXxx has returned     [waits while empty]

   Trusted primitives, as written into the step relation:
     sync.RWMutex  (g_writer, g_wpend, g_readers): Lock() first announces itself (readerCount is made
       negative) and then waits for the active readers to leave; RLock() succeeds iff no writer holds
       or has announced; RUnlock decrements; Unlock releases.
     sync.Mutex    (g_mutex): Lock succeeds iff free.  The producer's two uses (snapshot, unsubscribe)
       contain no blocking operation and are one step each, enabled iff the mutex is free.
     buffered channel: a send never blocks while len < cap; a receive takes the oldest element and waits
       while the channel is empty.  Subscription.push tests len == cap and then sends: one step, since
       the pushing goroutine is the only sender and receivers only make room.
   `fixed = false` is the code before the fix recorded for C08: no subscribersLock at all.

   The Forkable's step is `hub_live` of Model/Hub.v, as in Model/HubSubs.v.  For a READY hub (h_ready, which
   hub_live never resets) this is exactly one Forkable.ProcessBlock, i.e. one critical section of the
   write lock, as written here.  For a hub that is still bootstrapping hub_live stands for several
   ProcessBlock calls (one per one-block file fed), each with its own Lock/Unlock: the model is then
   coarser than the code; C08 is about a ready hub (the hub publishes itself through Ready).

   Not modelled: the shutter of a subscription (ms_dropped records that push returned the capacity
   error; unsubscribe + Shutdown follow in the next producer step), hub shutdown, reconnection.
   A dropped subscription keeps what was queued (as in Model/HubSubs.v).

   Ghost state, never read by a step: g_order (requester ids in the order of their appends, never
   filtered), g_log / g_tail (the serialisation: see `serial`). *)
From BV Require Import Base.Prelude Model.Block Model.ForkDB Model.Forkable Model.ForkableLookups
  Model.Burst Model.Hub Model.HubSubs.
Local Open Scope N_scope.

Inductive tid := TProd | TReq (i : nat) | TCons (i : nat).

(* the atomic operations a schedule is equivalent to a sequence of (Spec/C08_Sched_Spec.v gives their
   meaning with the functions of Model/HubSubs.v) *)
Inductive xop :=
| XBlock (b : block)       (* the Forkable processes b: hub state, events to deliver *)
| XFan (e : event)         (* HubSubs.fan_out of one event to every registered subscription *)
| XSub (r : sub_req)       (* HubSubs.subscribe *)
| XRecv (k : nat).         (* the consumer of subscription k (position in registration order) takes one item *)

Inductive ppc :=
| PIdle
| PWait (b : block)
| PLocked (b : block)
| PEvents (evs : list event)
| PFan (e : event) (todo : list nat) (evs : list event)
| PDrop (e : event) (k : nat) (todo : list nat) (evs : list event).

Inductive rpc :=
| RStart | RLocked | RHook | RMutex | RRead (snap : list nat) | RWritten | RUnlocking | RDone.

Record req := mkReq {
  r_req : sub_req;
  r_pc : rpc;
  r_sub : option msub;       (* the Subscription it created: channel content, capacity, capacity error seen *)
  r_got : list qitem         (* what its consumer has received *)
}.

Record cstate := mkC {
  g_hub : hub;
  g_subs : list nat;         (* ForkableHub.subscribers, as requester ids *)
  g_writer : bool;           (* Forkable RWMutex: held by the writer *)
  g_wpend : bool;            (*                   a writer has announced itself *)
  g_readers : nat;           (*                   active readers *)
  g_mutex : option nat;      (* subscribersLock: the requester holding it *)
  g_ppc : ppc;
  g_script : list block;     (* blocks the producer still has to process *)
  g_reqs : list req;
  g_order : list nat;        (* ghost *)
  g_log : list (tid * xop);  (* ghost *)
  g_tail : list (tid * xop)  (* ghost *)
}.

Definition cinit (h0 : hub) (script : list block) (reqs : list sub_req) : cstate :=
  mkC h0 [] false false 0%nat None PIdle script (map (fun r => mkReq r RStart None []) reqs) [] [] [].

Definition set_hub (st : cstate) (h : hub) : cstate :=
  mkC h (g_subs st) (g_writer st) (g_wpend st) (g_readers st) (g_mutex st) (g_ppc st) (g_script st)
      (g_reqs st) (g_order st) (g_log st) (g_tail st).
Definition set_subs (st : cstate) (l : list nat) : cstate :=
  mkC (g_hub st) l (g_writer st) (g_wpend st) (g_readers st) (g_mutex st) (g_ppc st) (g_script st)
      (g_reqs st) (g_order st) (g_log st) (g_tail st).
Definition set_writer (st : cstate) (b : bool) : cstate :=
  mkC (g_hub st) (g_subs st) b (g_wpend st) (g_readers st) (g_mutex st) (g_ppc st) (g_script st)
      (g_reqs st) (g_order st) (g_log st) (g_tail st).
Definition set_wpend (st : cstate) (b : bool) : cstate :=
  mkC (g_hub st) (g_subs st) (g_writer st) b (g_readers st) (g_mutex st) (g_ppc st) (g_script st)
      (g_reqs st) (g_order st) (g_log st) (g_tail st).
Definition set_readers (st : cstate) (n : nat) : cstate :=
  mkC (g_hub st) (g_subs st) (g_writer st) (g_wpend st) n (g_mutex st) (g_ppc st) (g_script st)
      (g_reqs st) (g_order st) (g_log st) (g_tail st).
Definition set_mutex (st : cstate) (m : option nat) : cstate :=
  mkC (g_hub st) (g_subs st) (g_writer st) (g_wpend st) (g_readers st) m (g_ppc st) (g_script st)
      (g_reqs st) (g_order st) (g_log st) (g_tail st).
Definition set_ppc (st : cstate) (pc : ppc) : cstate :=
  mkC (g_hub st) (g_subs st) (g_writer st) (g_wpend st) (g_readers st) (g_mutex st) pc (g_script st)
      (g_reqs st) (g_order st) (g_log st) (g_tail st).
Definition set_script (st : cstate) (l : list block) : cstate :=
  mkC (g_hub st) (g_subs st) (g_writer st) (g_wpend st) (g_readers st) (g_mutex st) (g_ppc st) l
      (g_reqs st) (g_order st) (g_log st) (g_tail st).
Definition set_reqs (st : cstate) (l : list req) : cstate :=
  mkC (g_hub st) (g_subs st) (g_writer st) (g_wpend st) (g_readers st) (g_mutex st) (g_ppc st) (g_script st)
      l (g_order st) (g_log st) (g_tail st).
Definition set_order (st : cstate) (l : list nat) : cstate :=
  mkC (g_hub st) (g_subs st) (g_writer st) (g_wpend st) (g_readers st) (g_mutex st) (g_ppc st) (g_script st)
      (g_reqs st) l (g_log st) (g_tail st).
Definition set_log (st : cstate) (l : list (tid * xop)) : cstate :=
  mkC (g_hub st) (g_subs st) (g_writer st) (g_wpend st) (g_readers st) (g_mutex st) (g_ppc st) (g_script st)
      (g_reqs st) (g_order st) l (g_tail st).
Definition set_tail (st : cstate) (l : list (tid * xop)) : cstate :=
  mkC (g_hub st) (g_subs st) (g_writer st) (g_wpend st) (g_readers st) (g_mutex st) (g_ppc st) (g_script st)
      (g_reqs st) (g_order st) (g_log st) l.

Fixpoint set_nth {A} (k : nat) (x : A) (l : list A) {struct l} : list A :=
  match l with
  | [] => []
  | y :: l' => match k with O => x :: l' | S k' => y :: set_nth k' x l' end
  end.

Definition put_req (st : cstate) (i : nat) (c : req) : cstate := set_reqs st (set_nth i c (g_reqs st)).

Definition set_rpc (c : req) (pc : rpc) : req := mkReq (r_req c) pc (r_sub c) (r_got c).
Definition set_rsub (c : req) (s : msub) : req := mkReq (r_req c) (r_pc c) (Some s) (r_got c).

Definition memb (i : nat) (l : list nat) : bool := existsb (Nat.eqb i) l.

(* position of i in l (length l when absent) *)
Fixpoint index_of (i : nat) (l : list nat) : nat :=
  match l with
  | [] => O
  | j :: l' => if Nat.eqb i j then O else S (index_of i l')
  end.

Definition mutex_free (fixed : bool) (st : cstate) : bool :=
  if fixed then match g_mutex st with None => true | Some _ => false end else true.

(* the event being fanned out and the subscriptions of the snapshot not offered it yet *)
Definition inflight (st : cstate) : option (event * list nat) :=
  match g_ppc st with
  | PFan e todo _ => Some (e, todo)
  | PDrop e _ todo _ => Some (e, todo)
  | _ => None
  end.

(* ------------------------------------------------------------------ the producer *)

Definition prod_step (fixed : bool) (first kept : N) (st : cstate) : cstate :=
  match g_ppc st with
  | PIdle =>
      match g_script st with
      | b :: rest => set_wpend (set_script (set_ppc st (PWait b)) rest) true
      | [] => st
      end
  | PWait b =>
      if Nat.eqb (g_readers st) 0
      then set_writer (set_wpend (set_ppc st (PLocked b)) false) true
      else st
  | PLocked b =>
      let '(h', evs, _) := hub_live first kept (g_hub st) (PBlocks []) b in
      set_log (set_hub (set_ppc st (PEvents evs)) h') (g_log st ++ [(TProd, XBlock b)])
  | PEvents [] => set_writer (set_ppc st PIdle) false
  | PEvents (e :: evs) =>
      if mutex_free fixed st then set_ppc st (PFan e (g_subs st) evs) else st
  | PFan e [] evs =>
      set_tail (set_log (set_ppc st (PEvents evs)) (g_log st ++ (TProd, XFan e) :: g_tail st)) []
  | PFan e (k :: todo) evs =>
      match nth_error (g_reqs st) k with
      | Some c =>
          match r_sub c with
          | Some s =>
              if N.of_nat (length (ms_queue s)) =? ms_cap s
              then set_ppc (put_req st k (set_rsub c (mkSub (ms_queue s) (ms_cap s) true))) (PDrop e k todo evs)
              else set_ppc (put_req st k (set_rsub c (mkSub (ms_queue s ++ [QEv e]) (ms_cap s) (ms_dropped s))))
                           (PFan e todo evs)
          | None => set_ppc st (PFan e todo evs)        (* a listed subscription always exists (proved) *)
          end
      | None => set_ppc st (PFan e todo evs)
      end
  | PDrop e k todo evs =>
      if mutex_free fixed st
      then set_subs (set_ppc st (PFan e todo evs)) (filter (fun j => negb (Nat.eqb j k)) (g_subs st))
      else st
  end.

(* ------------------------------------------------------------------ requesters *)

Definition req_step (fixed : bool) (st : cstate) (i : nat) : cstate :=
  match nth_error (g_reqs st) i with
  | None => st
  | Some c =>
      match r_pc c with
      | RStart =>
          if negb (g_writer st) && negb (g_wpend st)
          then set_readers (put_req st i (set_rpc c RLocked)) (S (g_readers st))
          else st
      | RLocked =>
          match request_burst (g_hub st) (r_req c) with
          | None => set_log (put_req st i (set_rpc c RUnlocking)) (g_log st ++ [(TReq i, XSub (r_req c))])
          | Some burst =>
              put_req st i (mkReq (r_req c) RHook
                                  (Some (mkSub burst (100 + N.of_nat (length burst)) false)) (r_got c))
          end
      | RHook =>
          if fixed then
            match g_mutex st with
            | None => set_mutex (put_req st i (set_rpc c RMutex)) (Some i)
            | Some _ => st
            end
          else put_req st i (set_rpc c (RRead (g_subs st)))
      | RMutex => put_req st i (set_rpc c (RRead (g_subs st)))
      | RRead snap =>
          set_log (set_order (set_subs (put_req st i (set_rpc c (if fixed then RWritten else RUnlocking)))
                                       (snap ++ [i]))
                             (g_order st ++ [i]))
                  (g_log st ++ [(TReq i, XSub (r_req c))])
      | RWritten => set_mutex (put_req st i (set_rpc c RUnlocking)) None
      | RUnlocking => set_readers (put_req st i (set_rpc c RDone)) (pred (g_readers st))
      | RDone => st
      end
  end.

(* ------------------------------------------------------------------ consumers *)

Definition cons_step (st : cstate) (i : nat) : cstate :=
  match nth_error (g_reqs st) i with
  | None => st
  | Some c =>
      match r_pc c, r_sub c with
      | RDone, Some s =>
          match ms_queue s with
          | [] => st
          | x :: q =>
              let st' := put_req st i (mkReq (r_req c) RDone (Some (mkSub q (ms_cap s) (ms_dropped s)))
                                             (r_got c ++ [x])) in
              let entry := (TCons i, XRecv (index_of i (g_order st))) in
              match inflight st with
              | Some (_, todo) =>
                  if memb i todo then set_log st' (g_log st ++ [entry])   (* before the event in flight *)
                  else set_tail st' (g_tail st ++ [entry])                (* after it *)
              | None => set_log st' (g_log st ++ [entry])
              end
          end
      | _, _ => st
      end
  end.

Definition cstep (fixed : bool) (first kept : N) (st : cstate) (t : tid) : cstate :=
  match t with
  | TProd => prod_step fixed first kept st
  | TReq i => req_step fixed st i
  | TCons i => cons_step st i
  end.

Definition crun (fixed : bool) (first kept : N) (st : cstate) (sched : list tid) : cstate :=
  fold_left (cstep fixed first kept) sched st.

(* The serialisation order of a schedule, named explicitly.  An operation is entered when its effect
   takes place: XBlock at the Forkable's step, XSub at the append to h.subscribers (a refused request:
   at the lookup), XRecv at the receive, XFan e when the fan-out of e is complete; a receive made
   during the fan-out of e goes before XFan e when that subscription has not been offered e yet, after
   it otherwise. *)
Definition serial (st : cstate) : list (tid * xop) :=
  match inflight st with
  | Some (e, _) => g_log st ++ (TProd, XFan e) :: g_tail st
  | None => g_log st
  end.
