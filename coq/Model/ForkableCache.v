(* Model of the lastLongestChain cache of /repo/forkable/forkable.go (computeNewLongestChain).
   Model/Forkable.v always recomputes ReversibleSegment; here the cached slice is part of the
   state and ProcessBlock is written a second time with it (fk_step_c).  The Go slice holds *Block
   values {BlockID, BlockNum, PreviousBlockID, Object}; Object is the *ForkableBlock pointer that the
   store holds too, so the sentAsNew flag set later by processNewBlocks is seen through the cache:
   the model re-reads the entry of every cached block from the store when the cache is used
   (`refresh`; a block that was purged keeps the entry it was cached with).  The correspondence check
   runs BOTH step functions against the implementation on every generated history
   (Check/Fk_Check.v: model_matches_c); Proofs/Fk/CacheFacts.v proves that a cache hit returns what
   the recomputation returns. *)
From BV Require Import Base.Prelude Model.Block Model.ForkDB Model.Forkable.
Local Open Scope N_scope.

Definition refresh (d : forkdb) (s : seg) : seg :=
  match find (sid s) (store d) with
  | Some e => mkSeg (sid s) (snum s) e
  | None => s
  end.

(* len(longestChain) != 0 && blk.ParentId == longestChain[len-1].BlockID &&
   p.forkDB.LIBID() == longestChain[0].PreviousBlockID *)
Definition cache_hit (d : forkdb) (c : list seg) (b : block) : bool :=
  match c with
  | [] => false
  | x :: _ => (bparent b =? sid (last c x)) && (ri (libref d) =? bparent (eb (sent x)))
  end.

(* the entry AddLink has just stored for the incoming block (the ppBlk of ProcessBlock) *)
Definition entry_of (d : forkdb) (b : block) : entry :=
  match find (bid b) (store d) with Some e => e | None => mkEntry b false end.

(* computeNewLongestChain: None = out of fuel (a parent cycle) *)
Definition compute_longest (d : forkdb) (first : N) (c : list seg) (b : block) : option (list seg) :=
  let c' := map (refresh d) c in
  if cache_hit d c' b then Some (c' ++ [mkSeg (bid b) (bnum b) (entry_of d b)])
  else match reversible_segment d first (bref b) with
       | None => None
       | Some (l, _) => Some l
       end.

(* ProcessBlock with the cache: the text of fk_step, the cached chain threaded through; the cache is
   written at the one place the code writes it (p.lastLongestChain = longestChain) *)
Definition fk_step_c (cfg : config) (sc : fstate * list seg) (b : block)
  : (fstate * list seg) * list event * result :=
  let '(s, c) := sc in
  if bid b =? bparent b then ((s, c), [], RSelfParent) else
  if (bnum b <? rn (libref (db s))) && (match last_sent s with Some _ => true | None => false end)
  then ((s, c), [], ROk) else
  let trig := triggers cfg s b in
  if c_incl cfg && (match last_sent s with None => true | Some _ => false end) && (bid b =? ri (libref (db s)))
  then let '(s', evs, ok) := process_initial_inclusive cfg b (with_db s (fst (add_link (db s) b))) in
       ((s', c), evs, if ok then ROk else RHandlerErr)
  else
  let sw :=
    if f_undo (c_filter cfg) && trig then
      match last_sent s with
      | Some ls => sent_chain_switch_segments (db s) (bid ls) (bparent b)
      | None => ScssOk [] [] None
      end
    else ScssOk [] [] None in
  match sw with
  | ScssPanic => ((s, c), [], RPanic)
  | ScssFuel => ((s, c), [], RFuel)
  | ScssOk undos redos junc =>
      let '(d1, existed) := add_link (db s) b in
      if existed then ((s, c), [], ROk) else
      let s1 := with_db s d1 in
      let disc : option (fstate * option (option seg) * bool) :=
        if has_lib d1 then Some (s1, Some None, false)
        else match set_lib d1 (c_first cfg) (bref b) (blib b) with
             | None => None
             | Some d2 =>
                 let s2 := with_db s1 d2 in
                 if has_lib d2 then
                   if rn (libref d2) =? bnum b then Some (s2, None, false)
                   else Some (s2, Some (block_for_id d2 (ri (libref d2))), false)
                 else Some (s2, Some None, c_hold cfg)
             end in
      match disc with
      | None => ((s1, c), [], RFuel)
      | Some (s2, None, _) =>
          let '(s', evs, ok) := process_initial_inclusive cfg b s2 in
          ((s', c), evs, if ok then ROk else RHandlerErr)
      | Some (s2, Some first_irr, hold_ret) =>
          if hold_ret then ((s2, c), [], ROk) else
          match compute_longest (db s2) (c_first cfg) c b with
          | None => ((s2, c), [], RFuel)
          | Some longest =>
              if negb trig || (match longest with [] => true | _ => false end) then ((s2, longest), [], ROk)
              else let '(s', evs, r) := process_tail cfg s2 b undos redos junc longest first_irr in
                   ((s', longest), evs, r)
          end
      end
  end.

Fixpoint fk_run_c (cfg : config) (sc : fstate * list seg) (h : list block) : list (list event * result) :=
  match h with
  | [] => []
  | b :: rest =>
      let '(sc', evs, r) := fk_step_c cfg sc b in
      (evs, r) :: match r with ROk => fk_run_c cfg sc' rest | _ => [] end
  end.
