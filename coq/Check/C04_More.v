(* C04 on hub bursts and on file-source events: the cursor carried by every event.
   Codes: 0 ok | 2 cursor clause rejected on the implementation's observation *)
From BV Require Import Base.Prelude Model.Block Model.Forkable Model.Burst Model.CursorResolver
  Spec.Consumer Spec.Universe Check.Fk_Check Check.Burst_Check Check.C06_Check.
Local Open Scope N_scope.

(* the running "last block announced irreversible": starts at `last` (None = unknown yet) *)
Fixpoint cursors_ok (head : option ref) (last : option ref) (prevlib : N) (l : list event) : bool :=
  match l with
  | [] => true
  | e :: l' =>
      ref_eqb (ecblk e) (bref (eblk e)) &&
      match head with Some h => ref_eqb (ehead e) h | None => true end &&
      (prevlib <=? rn (elib e)) &&
      match estep e with
      | SIrr | SNewIrr =>
          ref_eqb (elib e) (bref (eblk e)) && cursors_ok head (Some (bref (eblk e))) (rn (elib e)) l'
      | SNew =>
          (rn (elib e) <=? bnum (eblk e)) &&
          match last with Some r => ref_eqb (elib e) r | None => true end &&
          cursors_ok head (Some (elib e)) (rn (elib e)) l'
      | SUndo =>
          match last with Some r => ref_eqb (elib e) r | None => true end &&
          cursors_ok head (Some (elib e)) (rn (elib e)) l'
      | SStalled => cursors_ok head last (rn (elib e)) l'
      end
  end.

(* junction clause on a burst: walking the burst with the consumer's stack, every maximal run of Undo events that
   names a junction names the block the stack rests on once the whole run is applied (id AND number); when the
   stack bottoms out (the junction is the root the consumer never received as New) nothing is demanded *)
Fixpoint junc_walk (fuel : nat) (st : list block) (l : list event) : bool :=
  match fuel with
  | O => true
  | S f =>
      match l with
      | [] => true
      | e :: l' =>
          match estep e with
          | SUndo =>
              let '(us, rest) := split_undos l in
              let after := pop_n (length us) st in
              forallb (fun u => match ejunc u, after with
                                | Some j, top :: _ => ref_eqb j (bref top)
                                | _, _ => true
                                end) us &&
              junc_walk f after rest
          | SNew | SNewIrr => junc_walk f (eblk e :: st) l'
          | _ => junc_walk f st l'
          end
      end
  end.

Definition c04_burst_answer_ok (k : br_case) (a : ans) : bool :=
  negb (a_served a) || (a_kind a =? 3) ||
  let evm := stream_events (r_steps k) (N.to_nat (a_m a)) in
  match cons_fold cons0 evm with
  | None => false
  | Some cm =>
      let head := match cs_stack cm with top :: _ => Some (bref top) | [] => None end in
      (* a consumer that starts from a block number (also through a target cursor) has no LIB announced yet *)
      let start_lib := if (a_kind a =? 2) || (a_kind a =? 1) then None else Some (cu_lib (a_cur a)) in
      (* the LIB height never falls below the LIB the consumer already knows *)
      cursors_ok head start_lib (match start_lib with Some r => rn r | None => 0 end) (a_events a) &&
      (* the junction named by the burst's undo events *)
      (if a_kind a =? 0 then
         match cu_step (a_cur a) with
         | SNew | SUndo =>
             match cons_fold cons0 (firstn (S (N.to_nat (a_k a))) (stream_events (r_steps k) (length (r_steps k)))) with
             | Some ck => junc_walk (S (length (a_events a))) (cs_stack ck) (a_events a)
             | None => true
             end
         | _ => true
         end
       else if a_kind a =? 1 then junc_walk (S (length (a_events a))) [] (a_events a)
       else true)
  end.

Definition c04_burst_verdict (k : br_case) : N :=
  if negb (wf_b (r_hist k) && lib_ok_b LNone (r_hist k)) then 0
  else if forallb (c04_burst_answer_ok k) (r_ans k) then 0 else 2.
Definition c04_burst_verdicts (l : list br_case) := nonzero (map c04_burst_verdict l).

(* file source from a cursor: undo events carry the cursor's LIB and head; the blocks read from files are
   their own head and LIB (final blocks); the LIB height never decreases along the stream *)
Definition c04_file_verdict (k : c06_case) : N :=
  if x_err k =? 4 then 0 else
  let start_lib := if x_pass k then None else Some (cu_lib (x_cur k)) in
  let fix go (last : option ref) (prevlib : N) (l : list event) : bool :=
    match l with
    | [] => true
    | e :: l' =>
        ref_eqb (ecblk e) (bref (eblk e)) && (prevlib <=? rn (elib e)) &&
        match estep e with
        | SUndo => match last with Some r => ref_eqb (elib e) r | None => true end &&
                   ref_eqb (ehead e) (cu_head (x_cur k)) && go last (rn (elib e)) l'
        | SIrr | SNewIrr => ref_eqb (elib e) (bref (eblk e)) && ref_eqb (ehead e) (bref (eblk e)) &&
                            go (Some (elib e)) (rn (elib e)) l'
        | _ => false
        end
    end in
  if go start_lib 0 (x_events k) then 0 else 2.
Definition c04_file_verdicts (l : list c06_case) := nonzero (map c04_file_verdict l).

(* ---- W3: the junction clause on file-source events.  c04_file_verdict reads the cursor fields only; "when an Undo event
   names a junction block, that block is ... the block the consumer's chain rests on once the batch of undos is applied" was
   evaluated for Forkable events (c04_b) and hub bursts (junc_walk) but, for the events a file source delivers when it resumes
   from a cursor on a fork, only by C06's own checker.  Same walk as for bursts, from the consumer's stack at the cursor
   (the live events up to and including the cursor's event); c04_file_verdict itself is left as it is. *)
Definition c04_file_junction_ok (k : c06_case) : bool :=
  match cons_fold cons0 (x_live k) with
  | Some ck0 => junc_walk (S (length (x_events k))) (cs_stack ck0) (x_events k)
  | None => true
  end.
Definition c04_file_verdict_w3 (k : c06_case) : N :=
  if x_err k =? 4 then 0 else
  if (c04_file_verdict k =? 0) && c04_file_junction_ok k then 0 else 2.
Definition c04_file_verdicts_w3 (l : list c06_case) := nonzero (map c04_file_verdict_w3 l).
