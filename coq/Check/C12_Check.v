(* Correspondence + property checker for C12, evaluated by the driver with vm_compute on the
   observations of the real bstream sources.  A directed case names the instant at which a complete
   Shutdown was injected; the model is run on the schedule that instant denotes and its event log is
   compared with the log observed on the real code.  Verdict codes:
     0 ok | 1 the model's log differs from the observed log (correspondence) |
     2 the observation violates the property (computed from the observation alone) | 3 both |
     4 the implementation hung (Run did not return / Terminated not reached within the watchdog) or panicked
   The multiplexed model is run with the repaired handler wrapper (Mx.step true).  Property on the observation, all kinds:
   Run returned, Terminated, no late handler call (o_after = 0 and no EHBegin after ERet in the log), no overlap. *)
From BV Require Import Base.Prelude Model.Lifecycle.
Local Open Scope nat_scope.

Inductive inj :=
| InjPoint (p n : nat)       (* when the Run goroutine passes schedule point p for the n-th time *)
| InjHandler (n : nat)       (* inside the n-th handler call *)
| InjFactory (n : nat)       (* inside the n-th factory call (eternal) / joining: n = 1 the first factory call that gives a source,
                                n >= 2 the live-factory call of the join *)
| InjIdle                    (* when nothing moves any more *)
| InjRandom.                 (* uncontrolled timing: the schedule is not known *)

Record obs := mkObs {
  o_log : list ev;           (* oldest first *)
  o_ret : bool;              (* Run returned *)
  o_term : bool;             (* Terminated reached *)
  o_after : nat;             (* handler calls begun late: after (Run returned and Terminated) — eternal, joining, subscription,
                                file, multiplexed stress; multiplexed scenarios (sequential, so race-free): calls that began
                                while the source's terminating channel was closed (IsTerminating() at the begin) *)
  o_overlap : bool;          (* two handler calls overlapped *)
  o_allshut : bool;          (* multiplexed: every started inner source is terminating at the end *)
  o_hang : bool }.

(* multiplexed scenario commands.  CHold: the next handler call to begin parks inside the handler (the goroutine keeps
   handlerLock) until CRelease; while a call is held, CDeliver k lets ONE other inner source run into handlerLock (it waits
   there); CRelease lets the held call return, then the waiting source go on. *)
Inductive mcmd := CRound | CDeliver (k : nat) | CShutdown | CArm (p n : nat) | CHold | CRelease.

Inductive c12_case :=
| KEternal (supply : list (list iev)) (i : inj) (o : obs)
| KJoining (live_first file_avail : bool) (fs : list Jn.fev) (ls : list iev) (i : inj) (o : obs)
| KSub (blocks : list (nat * bool)) (i : inj) (o : obs)
| KFile (store : list (list (nat * bool))) (stop : bool) (i : inj) (o : obs)
| KMux (nslots : nat) (supply : list (list iev)) (cmds : list mcmd) (o : obs)
| KStress (o : obs).

(* ---------------------------------------------------------------- helpers *)
Fixpoint log_eqb (a b : list ev) : bool :=
  match a, b with
  | [], [] => true
  | x :: a', y :: b' => ev_eqb x y && log_eqb a' b'
  | _, _ => false
  end.
Fixpoint count_point (p : nat) (l : list ev) : nat :=
  match l with
  | [] => 0
  | EPoint q :: l' => (if Nat.eqb p q then 1 else 0) + count_point p l'
  | _ :: l' => count_point p l'
  end.
Definition is_random (i : inj) : bool := match i with InjRandom => true | _ => false end.
(* An idle-time Shutdown comes from ANOTHER goroutine: once the terminating channel is closed the Run thread (its schedule
   points, its return) and the shutdown thread (the callbacks that shut the inner sources down) are concurrent, so the
   relative order of their log entries is not determined. Each thread's own entries keep their order. *)
Definition is_down (e : ev) : bool := match e with EDown _ => true | _ => false end.
Definition log_eqb_for (i : inj) (a b : list ev) : bool :=
  match i with
  | InjIdle => log_eqb (filter (fun e => negb (is_down e)) a) (filter (fun e => negb (is_down e)) b) &&
               log_eqb (filter is_down a) (filter is_down b)
  | _ => log_eqb a b
  end.

(* run thread t until `stop` holds (checked before every step) or the fuel is used up; a blocked
   thread stutters, so extra steps are harmless *)
Fixpoint until {state tid} (step : state -> tid -> state) (stop : state -> bool) (t : tid) (fuel : nat) (s : state) : state :=
  match fuel with
  | O => s
  | S f => if stop s then s else until step stop t f (step s t)
  end.
(* round-robin, one step at a time *)
Fixpoint rr_until {state tid} (step : state -> tid -> state) (stop : state -> bool) (ts : list tid) (rounds : nat) (s : state) : state :=
  match rounds with
  | O => s
  | S r =>
      let s' := fold_left (fun s t => if stop s then s else step s t) ts s in
      if stop s' then s' else rr_until step stop ts r s'
  end.
Definition never {A} (_ : A) := false.

(* ---------------------------------------------------------------- property, from the observation alone *)
(* handler calls in the log strictly alternate begin / end of the same call *)
Fixpoint sequential (open : option (nat * nat)) (l : list ev) : bool :=
  match l with
  | [] => true
  | EHBegin s b :: l' => match open with None => sequential (Some (s, b)) l' | Some _ => false end
  | EHEnd s b _ :: l' =>
      match open with
      | Some (s', b') => Nat.eqb s s' && Nat.eqb b b' && sequential None l'
      | None => false
      end
  | _ :: l' => sequential open l'
  end.
(* no handler call begins after ERet once the source is terminated: in a directed (sequential) run ERet is
   logged when Run returns; later EHBegin events of a source whose calls are made from inside Run are late *)
Fixpoint no_begin_after_ret (seen_ret : bool) (l : list ev) : bool :=
  match l with
  | [] => true
  | ERet :: l' => no_begin_after_ret true l'
  | EHBegin _ _ :: l' => negb seen_ret && no_begin_after_ret seen_ret l'
  | _ :: l' => no_begin_after_ret seen_ret l'
  end.
(* eternal: every factory call is given the last block the handler accepted before it *)
Fixpoint restarts_ok_chrono (lastacc : nat) (l : list ev) : bool :=
  match l with
  | [] => true
  | EHEnd _ b true :: l' => restarts_ok_chrono b l'
  | EFactory _ r :: l' => Nat.eqb r lastacc && restarts_ok_chrono lastacc l'
  | _ :: l' => restarts_ok_chrono lastacc l'
  end.
(* eternal (W1): "an eternal source RESTARTS its inner source".  restarts_ok_chrono only says from where a restart that
   happens is made.  When the Shutdown comes at idle time (nothing moves any more), every inner source whose script makes it
   terminate (a failure of its own, a handler error) has been replaced by then: the factory was called at least once more
   than the number of leading terminating scripts (sources beyond the supply have the empty script: they stay idle).
   Computed from the input scripts and the observed log alone, not from the model. *)
Definition script_terminates (sc : list iev) : bool :=
  existsb (fun e => match e with IFail => true | IBlock _ ok => negb ok end) sc.
Fixpoint expected_starts (sup : list (list iev)) : nat :=
  match sup with
  | [] => 1
  | sc :: r => if script_terminates sc then S (expected_starts r) else 1
  end.
Fixpoint count_factory (l : list ev) : nat :=
  match l with
  | [] => 0
  | EFactory _ _ :: l' => S (count_factory l')
  | _ :: l' => count_factory l'
  end.
Definition restarts_happen (sup : list (list iev)) (i : inj) (l : list ev) : bool :=
  match i with
  | InjIdle => Nat.leb (expected_starts sup) (count_factory l)
  | _ => true
  end.
(* multiplexed: after a handler error every started inner source ends up shut down (o_allshut); in the
   log, the source whose handler call failed is shut down *)
Fixpoint fail_then_down (all l : list ev) : bool :=
  match l with
  | [] => true
  | EHEnd s _ false :: l' => existsb (fun e => ev_eqb e (EDown s)) all && fail_then_down all l'
  | _ :: l' => fail_then_down all l'
  end.

Definition common_ok (o : obs) : bool :=
  o_ret o && o_term o && Nat.eqb (o_after o) 0 && negb (o_overlap o) && sequential None (o_log o).

Definition prop_ok (k : c12_case) : bool :=
  match k with
  | KEternal sup i o => common_ok o && no_begin_after_ret false (o_log o) && restarts_ok_chrono 0 (o_log o) &&
                        restarts_happen sup i (o_log o)
  | KJoining _ _ _ _ _ o => common_ok o && no_begin_after_ret false (o_log o)
  | KSub _ _ o => common_ok o && no_begin_after_ret false (o_log o)
  | KFile _ _ _ o => common_ok o && no_begin_after_ret false (o_log o)
  | KMux _ _ _ o => common_ok o && no_begin_after_ret false (o_log o) && o_allshut o && fail_then_down (o_log o) (o_log o)
  | KStress o => common_ok o && o_allshut o
  end.

(* ---------------------------------------------------------------- model runs on directed schedules *)
Definition et_fuel (sup : list (list iev)) : nat := 8 * (length (concat sup) + length sup) + 40.
Definition et_cond (i : inj) (s : Et.state) : bool :=
  match i with
  | InjPoint p n => Nat.leb n (count_point p (Et.log s))
  | InjHandler n => match Et.pcr s with Et.PInH _ _ => Nat.eqb (Et.hbegun s) n | _ => false end
  | InjFactory n => match Et.pcr s with Et.PFactory => Nat.eqb (S (Et.nsrc s)) n | _ => false end
  | _ => false
  end.
(* a directed injection whose instant never comes is replaced by the harness by an idle-time Shutdown (from another goroutine) *)
Definition et_fired (sup : list (list iev)) (i : inj) : bool :=
  et_cond i (until (Et.step true) (et_cond i) Et.TRun (et_fuel sup) (Et.init sup)).
Definition eff_inj (fired : bool) (i : inj) : inj := if fired then i else InjIdle.
Definition et_model (sup : list (list iev)) (i : inj) : Et.state :=
  let f := et_fuel sup in
  let s1 := until (Et.step true) (et_cond i) Et.TRun f (Et.init sup) in
  let s2 := until (Et.step true) never Et.TX 6 s1 in
  until (Et.step true) never Et.TRun f s2.

Definition jn_cond (i : inj) (s : Jn.state) : bool :=
  match i with
  | InjPoint p n => Nat.leb n (count_point p (Jn.log s))
  | InjHandler n =>
      match Jn.pcr s with
      | Jn.PInHLive _ _ | Jn.PInHFile _ _ => Nat.eqb (Jn.hbegun s) n
      | _ => false
      end
  | _ => false
  end.
Definition jn_model (lf fa : bool) (fs : list Jn.fev) (ls : list iev) (i : inj) : Jn.state :=
  let c := Jn.mkcfg true lf fa in
  let f := 6 * (length fs + length ls) + 40 in
  let s0 := Jn.init fs ls in
  let s1 := match i with
            | InjFactory n =>
                if Nat.leb 2 n
                then (* inside the live-factory call of the JOIN (seeded mutant C12-m8) *)
                     until (Jn.step c) (fun s => match Jn.pcr s with Jn.PInJoinF => true | _ => false end) Jn.TRun f s0
                else
                (* inside the first factory call that gives a source = before the step that makes that call *)
                if lf then s0 else if fa then Jn.step c s0 Jn.TRun else until (Jn.step c) never Jn.TRun f s0
            | _ => until (Jn.step c) (jn_cond i) Jn.TRun f s0
            end in
  let s2 := until (Jn.step c) never Jn.TX 6 s1 in
  until (Jn.step c) never Jn.TRun f s2.

Definition sb_cond (i : inj) (s : Sb.state) : bool :=
  match i with
  | InjHandler n => match Sb.pcr s with Sb.PInH _ _ => Nat.eqb (Sb.hbegun s) n | _ => false end
  | _ => false
  end.
Definition sb_model (blocks : list (nat * bool)) (i : inj) : Sb.state :=
  let f := 4 * length blocks + 20 in
  let s0 := until Sb.step never Sb.TPush (length blocks) (Sb.init (S (length blocks)) blocks) in
  let s1 := until Sb.step (sb_cond i) (Sb.TRun false) f s0 in
  let s2 := until Sb.step never Sb.TX 6 s1 in
  until Sb.step never (Sb.TRun false) f s2.

Definition fs_cond (i : inj) (s : Fs.state) : bool :=
  match i with
  | InjHandler n => match Fs.pcr s with Fs.RInH _ _ _ => Nat.eqb (Fs.hbegun s) n | _ => false end
  | _ => false
  end.
Definition fs_threads (n : nat) : list Fs.tid :=
  Fs.TLaunch false :: Fs.TRun false :: map (fun k => Fs.TFile k false) (seq 0 n).
Definition fs_model (store : list (list (nat * bool))) (stop : bool) (i : inj) : Fs.state :=
  let n := length store in
  let f := 6 * (length (concat store) + n) + 30 in
  let s1 := rr_until Fs.step (fs_cond i) (fs_threads n) f (Fs.init store stop) in
  let s2 := until Fs.step never Fs.TX 6 s1 in
  rr_until Fs.step never (fs_threads n) f s2.

(* multiplexed scenarios: the harness drives one goroutine at a time *)
Record mxi := mkMxi { m_s : Mx.state; m_arm : option (nat * nat);
                      m_hold : bool;            (* CHold given: the next handler call parks *)
                      m_held : option nat;      (* the inner source whose handler call is parked *)
                      m_wait : option nat }.    (* the inner source waiting for handlerLock meanwhile *)
Definition set_ms (m : mxi) (s : Mx.state) : mxi := mkMxi s (m_arm m) (m_hold m) (m_held m) (m_wait m).
Definition mstep : Mx.state -> Mx.tid -> Mx.state := Mx.step true.
Definition mx_x (s : Mx.state) : Mx.state := until mstep never Mx.TX 6 s.
Definition in_handler_k (k : nat) (s : Mx.state) : bool :=
  match nth_error (Mx.inners s) k with
  | Some i => match Mx.i_pc i with Mx.IInH _ _ => true | _ => false end
  | None => false
  end.
Definition wants_lock (k : nat) (s : Mx.state) : bool :=
  match nth_error (Mx.inners s) k with
  | Some i => match Mx.i_pc i with Mx.IWant _ _ => true | _ => false end
  | None => false
  end.
Definition arm_hit (a : option (nat * nat)) (s : Mx.state) : bool :=
  match a with
  | None => false
  | Some (27, n) => match Mx.log s with EHBegin _ _ :: _ => Nat.eqb (Mx.hbegun s) n | _ => false end
  | Some (p, n) => match Mx.log s with EPoint q :: _ => Nat.eqb p q && Nat.eqb (count_point p (Mx.log s)) n | _ => false end
  end.
(* after a step: fire the armed injection; let a Shutdown that waited for sourcesLock go on once it is free *)
Definition after_step (fresh : bool) (m : mxi) : mxi :=
  (* `fresh`: the step just taken logged something (a schedule point is passed once) *)
  let m1 := if fresh && arm_hit (m_arm m) (m_s m) then mkMxi (mx_x (m_s m)) None (m_hold m) (m_held m) (m_wait m) else m in
  match Mx.pcx (m_s m1) with
  | Mx.XBusy => if Mx.holds_slock (m_s m1) then m1 else set_ms m1 (mx_x (m_s m1))
  | _ => m1
  end.
Definition fresh_step (s s1 : Mx.state) : bool := negb (Nat.eqb (length (Mx.log s1)) (length (Mx.log s))).
(* driving an inner source's goroutine *)
Fixpoint mx_drive0 (t : Mx.tid) (stop : Mx.state -> bool) (fuel : nat) (m : mxi) : mxi :=
  match fuel with
  | O => m
  | S f =>
      let s1 := mstep (m_s m) t in
      let m1 := after_step (fresh_step (m_s m) s1) (set_ms m s1) in
      if stop (m_s m1) then m1 else mx_drive0 t stop f m1
  end.
Definition run_parked (s : Mx.state) : bool := match Mx.pcr s with Mx.PLock | Mx.PRet => true | _ => false end.
Definition inner_parked (k : nat) (s : Mx.state) : bool :=
  match nth_error (Mx.inners s) k with
  | Some i => match Mx.i_pc i with Mx.IIdle | Mx.IRet | Mx.INew => true | _ => false end
  | None => true
  end.
Definition mx_release (m : mxi) : mxi :=
  match m_held m with
  | None => m
  | Some h =>
      let m1 := mx_drive0 (Mx.TIn h) (inner_parked h) 12 m in
      let m2 := match m_wait m with Some w => mx_drive0 (Mx.TIn w) (inner_parked w) 12 m1 | None => m1 end in
      mkMxi (m_s m2) (m_arm m2) (m_hold m2) None None
  end.
Definition mx_deliver (k : nat) (m : mxi) : mxi :=
  match m_held m with
  | Some h =>
      if Nat.eqb k h then m else
      match m_wait m with
      | Some _ => m
      | None =>
          let m1 := mx_drive0 (Mx.TIn k) (inner_parked k) 12 m in
          if wants_lock k (m_s m1) then mkMxi (m_s m1) (m_arm m1) (m_hold m1) (m_held m1) (Some k) else m1
      end
  | None =>
      let m1 := mx_drive0 (Mx.TIn k) (fun s => inner_parked k s || (m_hold m && in_handler_k k s)) 12 m in
      if m_hold m && in_handler_k k (m_s m1) then mkMxi (m_s m1) (m_arm m1) false (Some k) None else m1
  end.
(* driving the Run goroutine: an injection that fires under sourcesLock (points 22-24: the Shutdown started there closes the
   terminating channel and then waits for the lock) is followed, before the Run goroutine goes on, by the release of a parked
   handler call — the waiting source makes its test while the source is terminating and not yet terminated *)
Fixpoint mx_drive (stop : Mx.state -> bool) (fuel : nat) (m : mxi) : mxi :=
  match fuel with
  | O => m
  | S f =>
      let s1 := mstep (m_s m) Mx.TRun in
      let fresh := fresh_step (m_s m) s1 in
      let fired := fresh && arm_hit (m_arm m) s1 in
      let m1 := after_step fresh (set_ms m s1) in
      let m2 := if fired && Mx.holds_slock (m_s m1) then mx_release m1 else m1 in
      if stop (m_s m2) then m2 else mx_drive stop f m2
  end.
Definition mx_cmd (fuel : nat) (m : mxi) (c : mcmd) : mxi :=
  match c with
  | CRound => mx_drive run_parked fuel m
  | CDeliver k => mx_deliver k m
  | CShutdown => set_ms m (mx_x (m_s m))
  | CArm p n => mkMxi (m_s m) (Some (p, n)) (m_hold m) (m_held m) (m_wait m)
  | CHold => match m_held m with None => mkMxi (m_s m) (m_arm m) true None (m_wait m) | Some _ => m end
  | CRelease => mx_release m
  end.
Definition mx_model (nslots : nat) (sup : list (list iev)) (cmds : list mcmd) : Mx.state :=
  let fuel := 3 * nslots + 12 in
  (* the Run goroutine first parks at mux.after_check *)
  let m0 := mkMxi (mstep (Mx.init nslots sup) Mx.TRun) None false None None in
  (* finish: a held call is released; a Shutdown is made if none was; the Run goroutine is released for good *)
  let m1 := mx_release (fold_left (mx_cmd fuel) cmds m0) in
  let s2 := mx_x (m_s m1) in
  let m3 := mx_drive (fun s => match Mx.pcr s with Mx.PRet => true | _ => false end) (4 * fuel) (mkMxi s2 None false None None) in
  mx_x (m_s m3).

(* mux.before_sleep (point 21) is a gate of the harness, not an observation point: removed on both sides *)
Definition drop21 (l : list ev) : list ev :=
  filter (fun e => match e with EPoint 21 => false | _ => true end) l.

Definition model_ok (k : c12_case) : bool :=
  match k with
  | KEternal sup i o =>
      is_random i ||
      (let s := et_model sup i in
       log_eqb_for (eff_inj (et_fired sup i) i) (rev (Et.log s)) (o_log o) && Bool.eqb (Et.returned s) (o_ret o) && Bool.eqb (Et.terminated s) (o_term o))
  | KJoining lf fa fs ls i o =>
      is_random i ||
      (let s := jn_model lf fa fs ls i in
       log_eqb_for i (rev (Jn.log s)) (o_log o) && Bool.eqb (Jn.returned s) (o_ret o) && Bool.eqb (Jn.terminated s) (o_term o))
  | KSub blocks i o =>
      is_random i ||
      (let s := sb_model blocks i in
       log_eqb_for i (rev (Sb.log s)) (o_log o) && Bool.eqb (Sb.returned s) (o_ret o) && Bool.eqb (Sb.terminated s) (o_term o))
  | KFile store stop i o =>
      is_random i ||
      (let s := fs_model store stop i in
       log_eqb_for i (rev (Fs.log s)) (o_log o) && Bool.eqb (Fs.returned s) (o_ret o) && Bool.eqb (Fs.terminated s) (o_term o))
  | KMux n sup cmds o =>
      let s := mx_model n sup cmds in
      log_eqb (drop21 (rev (Mx.log s))) (drop21 (o_log o)) &&
      Bool.eqb (Mx.returned s) (o_ret o) && Bool.eqb (Mx.terminated s) (o_term o)
  | KStress _ => true
  end.

Definition case_obs (k : c12_case) : obs :=
  match k with
  | KEternal _ _ o | KJoining _ _ _ _ _ o | KSub _ _ o | KFile _ _ _ o | KMux _ _ _ o | KStress o => o
  end.

Local Open Scope N_scope.
Definition c12_verdict (k : c12_case) : N :=
  if o_hang (case_obs k) then 4 else
  (if model_ok k then 0 else 1) + (if prop_ok k then 0 else 2).

Definition c12_verdicts (l : list c12_case) : list (N * N) := nonzero (map c12_verdict l).
