(* Correspondence + property checker for C17, evaluated by the driver with vm_compute on the
   observations of the real gates.  One case = one gate object fed one input sequence.

   Observation, one triple (f, r, t) per ProcessBlock / Pass call:
     f  0 = handler not called (Pass = false)   1 = handler called exactly once with the very
        same blk and obj (Pass = true)           2 = anything else
        (W3: "anything else" includes: the block message or the object — whole protobuf message /
        whole ForkableObject, compared with a snapshot taken right before the call — differs at
        the handler call, after the call, or after the run; harness/c17.go `changed`)
     r  0 = nil   1 = an error that is not the handler's   2 = the handler's own error value
        (W3: the very value the handler returned DURING THIS call; every failing handler call
        returns a value of its own)
     t  number of tripFunc calls made during the call (RealtimeTripper only)
        (W3: + 10 when tripFunc ran after the handler had been called: rejected by
        [check_tripper], which asks for exactly 1 resp. 0)

   Verdict codes: 0 ok | 1 model and implementation differ | 2 the property checker (declarative:
   first position satisfying the trigger predicate, positions from there on, count of held
   events) rejects the implementation's observation | 3 both | 4 implementation panicked |
   5 the constructor's default hold-off limit is not the modelled 15000 *)
From BV Require Import Base.Prelude Model.Gates Spec.C17_Spec.
Local Open Scope N_scope.

Inductive gkind :=
  KNum | KId | KIrrNum | KIrrId | KRealtime | KTripper | KTimeGator | KNumGator | KMinFilter.

Definition obs := (N * N * N)%type.

Inductive c17_case :=
  (* kind, GetProtocolFirstStreamableBlock, target number, target id, inclusive (gators: not
     exclusive), MaxHoldOff set by the harness (None = constructor default), MaxHoldOff read
     back right after construction, handler failure flags (k-th call fails), input, observation,
     panicked *)
| C17 (k : gkind) (first tnum : N) (tid : str) (incl : bool) (maxhold : option Z) (defmax : Z)
      (hflags : list bool) (input : list ev) (o : list obs) (panic : bool).

Definition obs_eqb (a b : obs) : bool :=
  let '(f1, r1, t1) := a in let '(f2, r2, t2) := b in (f1 =? f2) && (r1 =? r2) && (t1 =? t2).

(* ---------------- model side ---------------- *)

Definition ret_code (r : ret) : N :=
  match r with RNil => 0 | RHoldOff => 1 | RHandler _ => 2 end.
Definition code_of (o : bool * ret) : obs := ((if fst o then 1 else 0), ret_code (snd o), 0).
Definition pass_code (a : action) : obs := ((if action_eqb a Forward then 1 else 0), 0, 0).

Definition eff_maxhold (m : option Z) : Z :=
  match m with Some z => z | None => default_max_hold_off end.

Definition tripper_action (p : bool) (e : ev) : bool * action :=
  let '(p', (_, a)) := tripper_step p e in (p', a).

Fixpoint zip_trip (ts : list (bool * action)) (rs : list (bool * ret)) : list obs :=
  match ts, rs with
  | (t, _) :: ts', r :: rs' =>
      ((if fst r then 1 else 0), ret_code (snd r), (if t then 1 else 0)) :: zip_trip ts' rs'
  | _, _ => []
  end.

Definition model_obs (k : gkind) (first tnum : N) (tid : str) (incl : bool) (mh : Z)
    (hflags : list bool) (l : list ev) : list obs :=
  let h := flag_handler hflags in
  match k with
  | KNum => map code_of (run_h h (num_gate_step first tnum mh) (g_init incl) 0%nat l)
  | KId => map code_of (run_h h (id_gate_step tid mh) (g_init incl) 0%nat l)
  | KIrrNum => map code_of (run_h h (irrnum_gate_step first tnum mh) (g_init incl) 0%nat l)
  | KIrrId => map code_of (run_h h (irrid_gate_step tid mh) (g_init incl) 0%nat l)
  | KRealtime => map code_of (run_h h realtime_gate_step false 0%nat l)
  | KMinFilter => map code_of (run_h h (min_filter_step tnum) tt 0%nat l)
  | KTripper => zip_trip (run tripper_step false l) (run_h h tripper_action false 0%nat l)
  | KTimeGator => map pass_code (run time_gator_step false l)
  | KNumGator => map pass_code (run (num_gator_step tnum (negb incl)) false l)
  end.

(* ---------------- property side (uses the observation and the input only) ---------------- *)

Definition is_fw (o : obs) : bool := fst (fst o) =? 1.
Definition ret_of (o : obs) : N := snd (fst o).
Definition trips_of (o : obs) : N := snd o.

(* the events that reached the handler according to the observation *)
Fixpoint obs_forwarded (l : list ev) (os : list obs) : list ev :=
  match l, os with
  | e :: l', o :: os' => if is_fw o then e :: obs_forwarded l' os' else obs_forwarded l' os'
  | _, _ => []
  end.

Definition bool_list_eqb := list_eqb Bool.eqb.
Definition N_list_eqb := list_eqb N.eqb.

(* first forwarded position of a gate with trigger predicate T, inclusive at e iff I e *)
Definition start_pos (T I : ev -> bool) (l : list ev) : nat :=
  match first_index T l with
  | None => length l
  | Some i => match nth_error l i with
              | Some e => if I e then i else S i
              | None => length l
              end
  end.
Definition trigger_pos (T : ev -> bool) (l : list ev) : nat :=
  match first_index T l with None => length l | Some i => i end.

(* the handler was called (once, same block and object) exactly from position `start` on *)
Definition flags_ok (start : nat) (l : list ev) (os : list obs) : bool :=
  forallb (fun o => fst (fst o) <=? 1) os &&
  bool_list_eqb (map is_fw os) (map (fun j => (start <=? j)%nat) (seq 0 (length l))).

(* before the trigger: nil, or the hold-off error once more than `mh` relevant events are held *)
Definition exp_hold_ret (R : ev -> bool) (holdoff : option Z) (l : list ev) (j : nat) (e : ev) : N :=
  match holdoff with
  | None => 0
  | Some mh => if R e && negb (mh =? 0)%Z && (held R l j >? mh)%Z then 1 else 0
  end.

Definition flag_code (hflags : list bool) (k : nat) : N := if nth k hflags false then 2 else 0.

Definition rets_ok (R : ev -> bool) (holdoff : option Z) (hflags : list bool)
    (trig start : nat) (l : list ev) (os : list obs) : bool :=
  forallb (fun '(j, (e, o)) =>
             ret_of o =?
               (if (start <=? j)%nat then flag_code hflags (j - start)
                else if (j <? trig)%nat then exp_hold_ret R holdoff l j e else 0))
          (combine (seq 0 (length l)) (combine l os)).

Definition no_trips (os : list obs) : bool := forallb (fun o => trips_of o =? 0) os.

Definition check_latch (R T I : ev -> bool) (holdoff : option Z) (hflags : list bool)
    (l : list ev) (os : list obs) : bool :=
  let start := start_pos T I l in
  (length os =? length l)%nat && flags_ok start l os &&
  rets_ok R holdoff hflags (trigger_pos T l) start l os && no_trips os.

(* MinimalBlockNumFilter: exactly the blocks at or above the minimum, handler results in order *)
Fixpoint check_filter (min : N) (hflags : list bool) (k : nat) (l : list ev) (os : list obs) : bool :=
  match l, os with
  | [], [] => true
  | e :: l', (f, r, t) :: os' =>
      (t =? 0) &&
      (if min <=? enum e then (f =? 1) && (r =? flag_code hflags k) && check_filter min hflags (S k) l' os'
       else (f =? 0) && (r =? 0) && check_filter min hflags k l' os')
  | _, _ => false
  end.

(* RealtimeTripper: everything forwarded, one trip at the first real-time block *)
Definition check_tripper (hflags : list bool) (l : list ev) (os : list obs) : bool :=
  let i := trigger_pos ert l in
  (length os =? length l)%nat &&
  forallb (fun '(j, o) =>
             let '(f, r, t) := o in
             (f =? 1) && (r =? flag_code hflags j) && (t =? (if Nat.eqb j i then 1 else 0)))
          (combine (seq 0 (length l)) os).

Definition prop_check (k : gkind) (first tnum : N) (tid : str) (incl : bool) (mh : Z)
    (hflags : list bool) (l : list ev) (os : list obs) : bool :=
  match k with
  | KNum => check_latch always (T_num tnum) (I_num first tnum incl) (Some mh) hflags l os
  | KId => check_latch always (T_id tid) (I_id tid incl) (Some mh) hflags l os
  | KIrrNum => check_latch is_irreversible (T_irrnum tnum) (I_irrnum first tnum incl) (Some mh) hflags l os
  | KIrrId => check_latch is_irreversible (T_irrid tid) (I_id tid incl) (Some mh) hflags l os
  | KRealtime => check_latch always ert always None hflags l os
  | KTimeGator => check_latch always ert always None [] l os
  | KNumGator => check_latch always (T_num tnum) (fun _ => incl) None [] l os
  | KMinFilter => check_filter tnum hflags 0%nat l os
  | KTripper => check_tripper hflags l os
  end.

Definition has_holdoff (k : gkind) : bool :=
  match k with KNum | KId | KIrrNum | KIrrId => true | _ => false end.

Definition c17_verdict (c : c17_case) : N :=
  match c with
  | C17 k first tnum tid incl maxhold defmax hflags l os panic =>
      if panic then 4
      else if has_holdoff k && negb (defmax =? default_max_hold_off)%Z then 5
      else
        let mh := eff_maxhold maxhold in
        let m := list_eqb obs_eqb os (model_obs k first tnum tid incl mh hflags l) in
        let p := prop_check k first tnum tid incl mh hflags l os in
        (if m then 0 else 1) + (if p then 0 else 2)
  end.

Definition c17_verdicts (l : list c17_case) : list (N * N) := nonzero (map c17_verdict l).
