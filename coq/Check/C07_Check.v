(* C07 / C13: the real stream.New(...).Run over merged files, forked-blocks store and a live hub.
   Codes: 0 ok | 1 model/implementation mismatch | 2 property rejected | 3 both | 4 hang/panic *)
From BV Require Import Base.Prelude Model.Block Model.ForkDB Model.Forkable Model.ForkableLookups
  Model.Burst Model.Hub Model.CursorResolver Model.Joining
  Spec.Consumer Spec.Universe Check.Fk_Check Check.Burst_Check.
Local Open Scope N_scope.

Inductive c07_case :=
| C07Skip
| mkC07 (first kept bundle : N) (root : block) (arrival : list block) (a0 hubstart merged : N)
        (mode : N) (start : Z) (cur : option cursor) (live : list event)
        (stop filt custom : N) (pauses : list (N * N))
        (canon forked : list block) (events : list event) (pushed : list N) (err : N).

(* stable insertion sort by block number *)
Fixpoint insert_num (b : block) (l : list block) : list block :=
  match l with
  | [] => [b]
  | x :: l' => if bnum b <? bnum x then b :: l else x :: insert_num b l'
  end.
Definition sort_num (l : list block) : list block := fold_left (fun acc b => insert_num b acc) l [].

Definition initial_world (first kept : N) (root : block) (arrival : list block) (a0 hubstart : N) : option world :=
  let n := N.to_nat a0 in
  match nth_error arrival (n - 1) with
  | None => None
  | Some lb =>
      let before := firstn (n - 1) arrival in
      let pass := sort_num ((if hubstart <=? bnum root then [root] else []) ++ filter (fun b => hubstart <=? bnum b) before) in
      let '(h, _, _) := hub_live first kept hub_init (PBlocks pass) lb in
      Some (mkW h (skipn n arrival))
  end.

Definition c07_model (k : c07_case) : option (list event * N) :=
  match k with
  | C07Skip => None
  | mkC07 first kept bundle root arrival a0 hubstart merged mode start cur live stop filt custom pauses canon forked events pushed err =>
      match initial_world first kept root arrival a0 hubstart with
      | None => None
      | Some w =>
          let c := mkJ first kept bundle mode start cur stop filt custom in
          let m := filter (fun b => bnum b <? merged) canon in
          let '(evs, e) := stream_run c w pauses merged m forked in
          Some (evs, jerr_code e)
      end
  end.

Definition c07_corresponds (k : c07_case) : bool :=
  match k with
  | C07Skip => true
  | mkC07 _ _ _ _ _ _ _ _ _ _ _ _ _ _ _ _ _ _ events _ err =>
      match c07_model k with
      | Some (evs, e) =>
          (* StepIndex / StepCount are not observed at the stream's handler *)
          events_eqb (map (fun x => mkEv (estep x) (eblk x) (ecblk x) (ehead x) (elib x) (ejunc x) 0 0) evs) events && (e =? err)
      | None => false
      end
  end.

(* ---- property: discipline from the consumer state implied by the start point ---- *)

(* a final-blocks-only consumer: each delivered block extends the previous one *)
Fixpoint final_fold (prev : option N) (l : list event) : bool :=
  match l with
  | [] => true
  | e :: l' =>
      match prev with
      | Some p => (bparent (eblk e) =? p) && final_fold (Some (bid (eblk e))) l'
      | None => final_fold (Some (bid (eblk e))) l'
      end
  end.

(* the "aside" of C07: a live reorganisation may reach below the first block this consumer was given;
   undos for blocks it never received (its chain is already empty) are ignored *)
Fixpoint cons_fold_aside (c : cons) (l : list event) : option cons :=
  match l with
  | [] => Some c
  | e :: l' =>
      match cs_stack c, estep e with
      | [], SUndo => cons_fold_aside c l'
      | _, _ => match cons_apply c e with Some c' => cons_fold_aside c' l' | None => None end
      end
  end.

Definition has_nu (filt custom : N) : bool :=
  (filt =? 0) || ((filt =? 2) && negb (N.land custom 1 =? 0) && negb (N.land custom 2 =? 0)).

Definition c07_prop (k : c07_case) : bool :=
  match k with
  | C07Skip => true
  | mkC07 first kept bundle root arrival a0 hubstart merged mode start cur live stop filt custom pauses canon forked events pushed err =>
      if err =? 2 then true else       (* rejected arguments: C13 *)
      if filt =? 0 then
        (* default filter: undo/new discipline from the implied consumer state *)
        let init := if mode =? 1 then
                      match cons_fold cons0 live, cur with
                      | Some ck0, Some cu => Some (mkCons (cs_stack ck0) 0 false)
                      | _, _ => None
                      end
                    else Some cons0 in
        match init with
        | None => false
        | Some c0 =>
            (* new+irreversible events are handled as New here: finality bookkeeping differs between the
               file and the live phase and is not what C07 states *)
            let evs := map (fun e => match estep e with
                                     | SNewIrr => mkEv SNew (eblk e) (ecblk e) (ehead e) (elib e) None 0 0
                                     | _ => e end) events in
            match cons_fold_aside c0 evs with
            | None => false
            | Some c' =>
                (* completeness ("every canonical block from the start point on is delivered", provided files and hub
                   together cover the chain): when the MODEL's run on this very input delivers up to a block T and ends
                   normally (waiting at the head, or stop block reached) — so files and hub did cover the chain up to T —
                   a run of the implementation that ends WAITING (err 0) must have delivered T too *)
                let model_tip :=
                  match c07_model k with
                  | Some (mevs, me) =>
                      if (me =? 0) || (me =? 1) then
                        match cons_fold_aside c0 (map (fun e => match estep e with
                                                                | SNewIrr => mkEv SNew (eblk e) (ecblk e) (ehead e) (elib e) None 0 0
                                                                | _ => e end) mevs) with
                        | Some cm => match cs_stack cm with top :: _ => Some (bid top) | [] => None end
                        | None => None
                        end
                      else None
                  | None => None
                  end in
                match model_tip with
                | Some t => negb (err =? 0) || existsb (fun x => bid x =? t) (cs_stack c')
                | None => true
                end
            end
        end
      else if filt =? 1 then
        final_fold (if mode =? 1 then match cur with Some cu => Some (ri (cu_blk cu)) | None => None end else None) events &&
        (* "every canonical block from the start point on": from a block number (not relative to the head) or through a
           target cursor the first final block delivered is the first canonical block at or above the start block *)
        (if ((mode =? 0) && (0 <=? start)%Z) || (mode =? 2) then
           (* finality announcements of the live phase for blocks below the start block are set aside, as in the statement *)
           match filter (fun e => abs_start first start 0 <=? bnum (eblk e)) events,
                 filter (fun b => abs_start first start 0 <=? bnum b) canon with
           | e :: _, f :: _ => bid (eblk e) =? bid f
           | _, _ => true
           end
         else true)
      else true
  end.

(* ---- C13: bounds and filters ---- *)
Definition c13_prop (k : c07_case) : bool :=
  match k with
  | C07Skip => true
  | mkC07 first kept bundle root arrival a0 hubstart merged mode start cur live stop filt custom pauses canon forked events pushed err =>
      let c := mkJ first kept bundle mode start cur stop filt custom in
      (* filters only remove: every delivered event matches *)
      forallb (fun e => filter_pass c (estep e)) events &&
      (* nothing above the stop block; after the stop block nothing *)
      ((stop =? 0) ||
       (forallb (fun e => bnum (eblk e) <=? stop) events &&
        match rev events with
        | last :: before => forallb (fun e => negb (bnum (eblk e) =? stop) || negb (matches_new (estep e) || matches_irr (estep e))
                                              || true) before
        | [] => true end &&
        (* a stream that ended without error class "stop" must not have delivered the stop block *)
        ((err =? 1) || (err =? 2) || (err =? 3) || forallb (fun e => negb (bnum (eblk e) =? stop)) events))) &&
      (* the stop block itself is delivered when it exists (default and final-blocks-only filters: every first
         delivery and every finality announcement of the canonical block passes one of them) *)
      (negb ((err =? 1) && negb (stop =? 0) && ((filt =? 0) || (filt =? 1)) && existsb (fun b => bnum b =? stop) canon
             && match cur with Some cu => (mode =? 0) || (rn (cu_blk cu) <? stop) | None => true end)
       || existsb (fun e => bnum (eblk e) =? stop) events) &&
      (* rejected arguments deliver nothing *)
      ((negb (err =? 2)) || match events with [] => true | _ => false end) &&
      (* final-blocks-only refuses a cursor that is not on a final block *)
      (negb ((filt =? 1) && negb (mode =? 0) && match cur with Some cu => negb (on_final_block cu) | None => false end) || (err =? 2))
  end.

Definition c07_hung (k : c07_case) : bool := match k with mkC07 _ _ _ _ _ _ _ _ _ _ _ _ _ _ _ _ _ _ _ _ err => err =? 4 | _ => false end.

Definition c07_verdict (k : c07_case) : N :=
  if c07_hung k then 4 else (if c07_corresponds k then 0 else 1) + (if c07_prop k then 0 else 2).
Definition c07_verdicts (l : list c07_case) := nonzero (map c07_verdict l).
(* known finding C13-target-cursor-beyond-stop: through a TARGET cursor whose block lies beyond the stop block S the
   consumer holds nothing of the chain, so "delivers block S itself when it exists" applies — but the through-cursor
   file source holds back the blocks above the cursor LIB until it sees the cursor block, the files are read only up to
   the bundle of S, and the stream ends with stop-block-reached without S (c13_stop_target_scope_needed).  c13_prop
   exempts every cursor at or beyond S (right for a cursor the consumer resumes FROM); this clause is the target part. *)
Definition c13_target_beyond_stop (k : c07_case) : bool :=
  match k with
  | C07Skip => false
  | mkC07 first kept bundle root arrival a0 hubstart merged mode start cur live stop filt custom pauses canon forked events pushed err =>
      (mode =? 2) && (err =? 1) && negb (stop =? 0) && ((filt =? 0) || (filt =? 1)) &&
      match cur with Some cu => stop <=? rn (cu_blk cu) | None => false end &&
      existsb (fun b => (bnum b =? stop) && (abs_start first start 0 <=? bnum b)) canon &&
      negb (existsb (fun e => bnum (eblk e) =? stop) events)
  end.

Definition c13_verdict (k : c07_case) : N :=
  if c07_hung k then 4 else
  let base := (if c07_corresponds k then 0 else 1) + (if c13_prop k then 0 else 2) in
  if (base =? 0) && c13_target_beyond_stop k then 6 else base.
Definition c13_verdicts (l : list c07_case) := nonzero (map c13_verdict l).
Definition c07_in_scope (k : c07_case) : bool := match k with C07Skip => false | _ => true end.
