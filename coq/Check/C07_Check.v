(* C07 / C13: the real stream.New(...).Run over merged files, forked-blocks store and a live hub.
   Codes: 0 ok | 1 model/implementation mismatch | 2 property rejected | 3 both | 4 hang/panic *)
From BV Require Import Base.Prelude Model.Block Model.ForkDB Model.Forkable Model.ForkableLookups
  Model.Burst Model.Hub Model.CursorResolver Model.Joining
  Spec.Consumer Spec.Universe Check.Fk_Check Check.Burst_Check.
Local Open Scope N_scope.

Inductive c07_case :=
| C07Skip
| mkC07 (first kept bundle : N) (root : block) (arrival : list block) (a0 hubstart merged : N)
        (mode : N) (start : Z) (cur : option cursor) (live : list event)
        (stop filt custom : N) (pauses : list (N * N))
        (canon forked : list block) (events : list event) (pushed : list N) (err : N)
        (altered : N).   (* W3: 1-based index of the first delivered block that is not the stored block (payload included), 0 = none *)

(* stable insertion sort by block number *)
Fixpoint insert_num (b : block) (l : list block) : list block :=
  match l with
  | [] => [b]
  | x :: l' => if bnum b <? bnum x then b :: l else x :: insert_num b l'
  end.
Definition sort_num (l : list block) : list block := fold_left (fun acc b => insert_num b acc) l [].

Definition initial_world (first kept : N) (root : block) (arrival : list block) (a0 hubstart : N) : option world :=
  let n := N.to_nat a0 in
  match nth_error arrival (n - 1) with
  | None => None
  | Some lb =>
      let before := firstn (n - 1) arrival in
      let pass := sort_num ((if hubstart <=? bnum root then [root] else []) ++ filter (fun b => hubstart <=? bnum b) before) in
      let '(h, _, _) := hub_live first kept hub_init (PBlocks pass) lb in
      Some (mkW h (skipn n arrival))
  end.

Definition c07_model (k : c07_case) : option (list event * N) :=
  match k with
  | C07Skip => None
  | mkC07 first kept bundle root arrival a0 hubstart merged mode start cur live stop filt custom pauses canon forked events pushed err _ =>
      match initial_world first kept root arrival a0 hubstart with
      | None => None
      | Some w =>
          let c := mkJ first kept bundle mode start cur stop filt custom in
          let m := filter (fun b => bnum b <? merged) canon in
          let '(evs, e) := stream_run c w pauses merged m forked in
          Some (evs, jerr_code e)
      end
  end.

Definition c07_corresponds (k : c07_case) : bool :=
  match k with
  | C07Skip => true
  | mkC07 _ _ _ _ _ _ _ _ _ _ _ _ _ _ _ _ _ _ events _ err _ =>
      match c07_model k with
      | Some (evs, e) =>
          (* StepIndex / StepCount are not observed at the stream's handler *)
          events_eqb (map (fun x => mkEv (estep x) (eblk x) (ecblk x) (ehead x) (elib x) (ejunc x) 0 0) evs) events && (e =? err)
      | None => false
      end
  end.

(* ---- property: discipline from the consumer state implied by the start point ---- *)

(* a final-blocks-only consumer: each delivered block extends the previous one *)
Fixpoint final_fold (prev : option N) (l : list event) : bool :=
  match l with
  | [] => true
  | e :: l' =>
      match prev with
      | Some p => (bparent (eblk e) =? p) && final_fold (Some (bid (eblk e))) l'
      | None => final_fold (Some (bid (eblk e))) l'
      end
  end.

(* the "aside" of C07: a live reorganisation may reach below the first block this consumer was given;
   undos for blocks it never received (its chain is already empty) are ignored *)
Fixpoint cons_fold_aside (c : cons) (l : list event) : option cons :=
  match l with
  | [] => Some c
  | e :: l' =>
      match cs_stack c, estep e with
      | [], SUndo => cons_fold_aside c l'
      | _, _ => match cons_apply c e with Some c' => cons_fold_aside c' l' | None => None end
      end
  end.

Definition has_nu (filt custom : N) : bool :=
  (filt =? 0) || ((filt =? 2) && negb (N.land custom 1 =? 0) && negb (N.land custom 2 =? 0)).

Definition c07_prop (k : c07_case) : bool :=
  match k with
  | C07Skip => true
  | mkC07 first kept bundle root arrival a0 hubstart merged mode start cur live stop filt custom pauses canon forked events pushed err _ =>
      if err =? 2 then true else       (* rejected arguments: C13 *)
      if filt =? 0 then
        (* default filter: undo/new discipline from the implied consumer state *)
        let init := if mode =? 1 then
                      match cons_fold cons0 live, cur with
                      | Some ck0, Some cu => Some (mkCons (cs_stack ck0) 0 false)
                      | _, _ => None
                      end
                    else Some cons0 in
        match init with
        | None => false
        | Some c0 =>
            (* new+irreversible events are handled as New here: finality bookkeeping differs between the
               file and the live phase and is not what C07 states *)
            let evs := map (fun e => match estep e with
                                     | SNewIrr => mkEv SNew (eblk e) (ecblk e) (ehead e) (elib e) None 0 0
                                     | _ => e end) events in
            match cons_fold_aside c0 evs with
            | None => false
            | Some c' =>
                (* completeness ("every canonical block from the start point on is delivered", provided files and hub
                   together cover the chain): when the MODEL's run on this very input delivers up to a block T and ends
                   normally (waiting at the head, or stop block reached) — so files and hub did cover the chain up to T —
                   a run of the implementation that ends WAITING (err 0) must have delivered T too *)
                let model_tip :=
                  match c07_model k with
                  | Some (mevs, me) =>
                      if (me =? 0) || (me =? 1) then
                        match cons_fold_aside c0 (map (fun e => match estep e with
                                                                | SNewIrr => mkEv SNew (eblk e) (ecblk e) (ehead e) (elib e) None 0 0
                                                                | _ => e end) mevs) with
                        | Some cm => match cs_stack cm with top :: _ => Some (bid top) | [] => None end
                        | None => None
                        end
                      else None
                  | None => None
                  end in
                match model_tip with
                | Some t => negb (err =? 0) || existsb (fun x => bid x =? t) (cs_stack c')
                | None => true
                end
            end
        end
      else if filt =? 1 then
        final_fold (if mode =? 1 then match cur with Some cu => Some (ri (cu_blk cu)) | None => None end else None) events &&
        (* "every canonical block from the start point on": from a block number (not relative to the head) or through a
           target cursor the first final block delivered is the first canonical block at or above the start block *)
        (if ((mode =? 0) && (0 <=? start)%Z) || (mode =? 2) then
           (* finality announcements of the live phase for blocks below the start block are set aside, as in the statement *)
           match filter (fun e => abs_start first start 0 <=? bnum (eblk e)) events,
                 filter (fun b => abs_start first start 0 <=? bnum b) canon with
           | e :: _, f :: _ => bid (eblk e) =? bid f
           | _, _ => true
           end
         else true)
      else true
  end.

(* ---- C13: bounds and filters ---- *)
Definition c13_prop (k : c07_case) : bool :=
  match k with
  | C07Skip => true
  | mkC07 first kept bundle root arrival a0 hubstart merged mode start cur live stop filt custom pauses canon forked events pushed err _ =>
      let c := mkJ first kept bundle mode start cur stop filt custom in
      (* filters only remove: every delivered event matches *)
      forallb (fun e => filter_pass c (estep e)) events &&
      (* nothing above the stop block; after the stop block nothing *)
      ((stop =? 0) ||
       (forallb (fun e => bnum (eblk e) <=? stop) events &&
        match rev events with
        | last :: before => forallb (fun e => negb (bnum (eblk e) =? stop) || negb (matches_new (estep e) || matches_irr (estep e))
                                              || true) before
        | [] => true end &&
        (* a stream that ended without error class "stop" must not have delivered the stop block *)
        ((err =? 1) || (err =? 2) || (err =? 3) || forallb (fun e => negb (bnum (eblk e) =? stop)) events))) &&
      (* the stop block itself is delivered when it exists (default and final-blocks-only filters: every first
         delivery and every finality announcement of the canonical block passes one of them) *)
      (negb ((err =? 1) && negb (stop =? 0) && ((filt =? 0) || (filt =? 1)) && existsb (fun b => bnum b =? stop) canon
             && match cur with Some cu => (mode =? 0) || (rn (cu_blk cu) <? stop) | None => true end)
       || existsb (fun e => bnum (eblk e) =? stop) events) &&
      (* rejected arguments deliver nothing *)
      ((negb (err =? 2)) || match events with [] => true | _ => false end) &&
      (* final-blocks-only refuses a cursor that is not on a final block *)
      (negb ((filt =? 1) && negb (mode =? 0) && match cur with Some cu => negb (on_final_block cu) | None => false end) || (err =? 2))
  end.

Definition c07_hung (k : c07_case) : bool := match k with mkC07 _ _ _ _ _ _ _ _ _ _ _ _ _ _ _ _ _ _ _ _ err _ => err =? 4 | _ => false end.

(* ================= W3 (conclusion audit): second clauses next to c07_prop / c13_prop =================
   c07_prop / c13_prop (and cons_fold_aside, final_fold, has_nu, which theorems speak about) are unchanged; the verdicts
   below evaluate them AND the clauses of this section.  Each clause closes a place where a hand-made breaking change of the
   library passed with exit 0 or only as a model mismatch (notes_proof_W3.md, section C07/C13). *)

Definition is_nu_ev (e : event) : bool := matches_new (estep e) || matches_undo (estep e).
Definition as_new_ev (e : event) : event :=
  match estep e with SNewIrr => mkEv SNew (eblk e) (ecblk e) (ehead e) (elib e) None 0 0 | _ => e end.

(* the absolute start block: resolveNegativeStartBlockNum against the head the reference hub reports at stream start,
   clamped at the first streamable block *)
Definition w3_abs_start (first kept : N) (root : block) (arrival : list block) (a0 hubstart : N) (start : Z) : option N :=
  match initial_world first kept root arrival a0 hubstart with
  | Some w => Some (abs_start first start (match hub_head (w_hub w) with Some (r, _) => rn r | None => 0 end))
  | None => None
  end.

(* "every canonical block from the start point on": the first block delivered for the first time (New / new+irreversible) is at
   or above the start block and no canonical block lies between the start block and it.  (Stated with numbers, not ids: a live
   start may legitimately begin on a short-lived fork block of that height.) *)
Definition w3_start_ok (abs : N) (canon : list block) (events : list event) : bool :=
  match filter (fun e => matches_new (estep e)) events with
  | e :: _ => (abs <=? bnum (eblk e)) &&
              negb (existsb (fun b => (abs <=? bnum b) && (bnum b <? bnum (eblk e))) canon)
  | [] => true
  end.

(* completeness, every filter: when the MODEL's run on this very input ends normally (waiting, or stop block reached) its last
   delivered event is the witness that files and hub covered the chain up to it; a run of the implementation that ends WAITING
   (err 0) must have delivered that event too (same step, same block) *)
Definition w3_complete (k : c07_case) (events : list event) (err : N) : bool :=
  if negb (err =? 0) then true else
  match c07_model k with
  | Some (mevs, me) =>
      if (me =? 0) || (me =? 1) then
        match rev mevs with
        | last :: _ => existsb (fun e => step_eqb (estep e) (estep last) && (bid (eblk e) =? bid (eblk last))) events
        | [] => true
        end
      else true
  | None => true
  end.

(* the undo/new discipline of c07_prop for CUSTOM filters that let New and Undo through (c07_prop says `true` for every
   custom filter): the New / new+irreversible / Undo events of the delivered sequence fold through the same consumer *)
Definition w3_custom_nu (k : c07_case) : bool :=
  match k with
  | C07Skip => true
  | mkC07 first kept bundle root arrival a0 hubstart merged mode start cur live stop filt custom pauses canon forked events pushed err _ =>
      if (err =? 2) || negb ((filt =? 2) && has_nu filt custom) then true else
      let init := if mode =? 1 then
                    match cons_fold cons0 live, cur with
                    | Some ck0, Some cu => Some (mkCons (cs_stack ck0) 0 false)
                    | _, _ => None
                    end
                  else Some cons0 in
      match init with
      | None => false
      | Some c0 => match cons_fold_aside c0 (map as_new_ev (filter is_nu_ev events)) with Some _ => true | None => false end
      end
  end.

Definition w3_start_clause (k : c07_case) : bool :=
  match k with
  | C07Skip => true
  | mkC07 first kept bundle root arrival a0 hubstart merged mode start cur live stop filt custom pauses canon forked events pushed err _ =>
      if err =? 2 then true else
      match w3_abs_start first kept root arrival a0 hubstart start with
      | None => true
      | Some abs =>
          (* filters that let New through; from a block number or through a target cursor (from a cursor the start point is the
             consumer state of the cursor: c07_prop / w3_custom_nu) *)
          (if ((mode =? 0) || (mode =? 2)) && ((filt =? 0) || ((filt =? 2) && negb (N.land custom 1 =? 0)))
           then
             (* through a target cursor whose block was undone and whose remaining branch lies below the start block the hub
                replays the end of that fork (undo of a block below the start, New of its canonical sibling below the start:
                seed 5, case 1012 - start above the junction, outside C05's "start at or below the junction"); deliveries
                below the start block are set aside there, as c07_prop does for final blocks *)
             w3_start_ok abs canon (if mode =? 2 then filter (fun e => abs <=? bnum (eblk e)) events else events)
           else true) &&
          (* final blocks only from a NEGATIVE start (c07_prop has the clause for start >= 0 only) *)
          (if (filt =? 1) && (mode =? 0) && (start <? 0)%Z then
             match filter (fun e => abs <=? bnum (eblk e)) events, filter (fun b => abs <=? bnum b) canon with
             | e :: _, f :: _ => bid (eblk e) =? bid f
             | _, _ => true
             end
           else true)
      end
  end.

Definition c07_altered (k : c07_case) : bool :=
  match k with mkC07 _ _ _ _ _ _ _ _ _ _ _ _ _ _ _ _ _ _ _ _ _ altered => negb (altered =? 0) | _ => false end.

Definition c07_prop_w3 (k : c07_case) : bool :=
  match k with
  | C07Skip => true
  | mkC07 _ _ _ _ _ _ _ _ _ _ _ _ _ _ _ _ _ _ events _ err _ =>
      w3_custom_nu k && w3_start_clause k && w3_complete k events err
  end.

Definition c13_prop_w3 (k : c07_case) : bool :=
  match k with
  | C07Skip => true
  | mkC07 first kept bundle root arrival a0 hubstart merged mode start cur live stop filt custom pauses canon forked events pushed err _ =>
      (* a start after the stop is rejected as an invalid argument (every mode: createSource checks it before looking at the cursor) *)
      (match w3_abs_start first kept root arrival a0 hubstart start with
       | Some abs => (stop =? 0) || negb (stop <? abs) || (err =? 2)
       | None => true end) &&
      ((stop =? 0) ||
       (* an event for a block of height S is followed by nothing (the clause of c13_prop for this is vacuous: `|| true`) ... *)
       (match rev events with
        | _ :: before => forallb (fun e => negb (bnum (eblk e) =? stop)) before
        | [] => true end &&
        (* ... and the stream then ends with stop-block-reached, not with another error class (c13_prop tolerates class 3) *)
        (negb (existsb (fun e => bnum (eblk e) =? stop) events) || (err =? 1)) &&
        (* "ends with the stop-block-reached error, whether S is reached in files or live", also when the step filter removed
           block S or S is a skipped number: the model's run on this input ending stop-block-reached is the witness that the
           stream got to the stop block *)
        (match c07_model k with
         | Some (mevs, me) =>
             negb (me =? 1) || (err =? 1)
         | None => true end))) &&
      (* negative start / first streamable block: the start point *)
      w3_start_clause k &&
      w3_complete k events err
  end.

(* code 5: a delivered block is not the stored block (same id, altered content) *)
Definition c07_verdict (k : c07_case) : N :=
  if c07_hung k then 4 else if c07_altered k then 5 else
  (if c07_corresponds k then 0 else 1) + (if c07_prop k && c07_prop_w3 k then 0 else 2).
Definition c07_verdicts (l : list c07_case) := nonzero (map c07_verdict l).
(* known finding C13-target-cursor-beyond-stop: through a TARGET cursor whose block lies beyond the stop block S the
   consumer holds nothing of the chain, so "delivers block S itself when it exists" applies — but the through-cursor
   file source holds back the blocks above the cursor LIB until it sees the cursor block, the files are read only up to
   the bundle of S, and the stream ends with stop-block-reached without S (c13_stop_target_scope_needed).  c13_prop
   exempts every cursor at or beyond S (right for a cursor the consumer resumes FROM); this clause is the target part. *)
Definition c13_target_beyond_stop (k : c07_case) : bool :=
  match k with
  | C07Skip => false
  | mkC07 first kept bundle root arrival a0 hubstart merged mode start cur live stop filt custom pauses canon forked events pushed err _ =>
      (mode =? 2) && (err =? 1) && negb (stop =? 0) && ((filt =? 0) || (filt =? 1)) &&
      match cur with Some cu => stop <=? rn (cu_blk cu) | None => false end &&
      existsb (fun b => (bnum b =? stop) && (abs_start first start 0 <=? bnum b)) canon &&
      negb (existsb (fun e => bnum (eblk e) =? stop) events)
  end.

Definition c13_verdict (k : c07_case) : N :=
  if c07_hung k then 4 else if c07_altered k then 5 else
  let base := (if c07_corresponds k then 0 else 1) + (if c13_prop k && c13_prop_w3 k then 0 else 2) in
  if (base =? 0) && c13_target_beyond_stop k then 6 else base.
Definition c13_verdicts (l : list c07_case) := nonzero (map c13_verdict l).
Definition c07_in_scope (k : c07_case) : bool := match k with C07Skip => false | _ => true end.
