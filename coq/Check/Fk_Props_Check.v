(* Per-property verdict functions of the forkable family over the observed traces.
   Codes: 0 ok | 1 model/implementation mismatch | 2 property rejected on the implementation's
   observation | 3 both | 4 implementation panicked. *)
From BV Require Import Base.Prelude Model.Block Model.ForkDB Model.Forkable Model.ForkableLookups
  Spec.Consumer Spec.Universe Spec.ForkChoice Spec.C01_Spec Spec.C01_More_Spec Check.Fk_Check.
Local Open Scope N_scope.

Definition obs_trace (k : fk_case) : trace := map (fun o => (o_events o, o_result o)) (k_obs k).
Definition panicked (k : fk_case) : bool := existsb (fun o => result_eqb (o_result o) RPanic) (k_obs k).

Definition filt_nu (k : fk_case) : bool := f_new (c_filter (k_cfg k)) && f_undo (c_filter (k_cfg k)).
Definition filt_irr (k : fk_case) : bool := f_irr (c_filter (k_cfg k)).
(* a LIB is established: configured, or discovery with hold-until-LIB *)
Definition lib_established (k : fk_case) : bool :=
  match k_mode k with LNone => c_hold (k_cfg k) | _ => true end.

Definition combine (k : fk_case) (prop_ok : bool) : N :=
  if panicked k then 4 else
  (if fk_corresponds k && fk_corresponds_c k then 0 else 1) + (if prop_ok then 0 else 2).

(* ---- C01 ---- *)
Definition c01_in_scope (k : fk_case) : bool := lib_established k && filt_nu k && wf_b (k_hist k).
Definition c01_prop (k : fk_case) : bool :=
  let t := obs_trace k in
  negb (c01_in_scope k) ||
  (c01_discipline_b (k_mode k) t && c01_refeed_b [] (k_hist k) t && c01_error_b (c_fail_at (k_cfg k)) 0 t).
Definition c01_verdict (k : fk_case) : N := combine k (c01_prop k).
Definition c01_verdicts (l : list fk_case) := nonzero (map c01_verdict l).

(* cases that meet every hypothesis of one of the C01 theorems (c01_fixed_lib_incl_partial covers exclusive and
   inclusive LIBs with any handler oracle, c01_fixed_lib_disc_partial hold-until-LIB discovery): counted in the evidence *)
Definition c01_thm_scope (k : fk_case) : bool :=
  filt_nu k &&
  match k_mode k with
  | LExcl r0 | LIncl r0 => c01_fixed_scope_b r0 (k_hist k)
  | LNone => c_hold (k_cfg k) &&
             match k_hist k with
             | b :: _ => c01_disc_scope_b (blib b) (c_first (k_cfg k)) (k_hist k)
             | [] => false
             end
  end.

(* cases that meet every hypothesis of the fixed-LIB theorems of C02-C04 (exclusive LIB, no handler failure) *)
Definition fk_fixed_excl_scope (k : fk_case) : bool :=
  match k_mode k, c_fail_at (k_cfg k) with
  | LExcl r0, None => negb (c_incl (k_cfg k)) && filt_nu k && c01_fixed_scope_b r0 (k_hist k)
  | _, _ => false
  end.

(* ---- C02 ---- *)
Definition c02_in_scope (k : fk_case) : bool :=
  lib_established k && filt_nu k && filt_irr k && wf_b (k_hist k) && lib_ok_b (k_mode k) (k_hist k).
Definition c04_in_scope (k : fk_case) : bool :=
  lib_established k && filt_nu k && wf_b (k_hist k) && lib_ok_b (k_mode k) (k_hist k).
Definition c02_prop (k : fk_case) : bool :=
  negb (c02_in_scope k) || c02_b (k_mode k) (k_hist k) (obs_trace k).
Definition c02_verdict (k : fk_case) : N := combine k (c02_prop k).
Definition c02_verdicts (l : list fk_case) := nonzero (map c02_verdict l).

(* ---- C04 ---- *)
Definition c04_prop (k : fk_case) : bool :=
  negb (c04_in_scope k) || c04_b (filt_irr k) (k_mode k) (k_hist k) (obs_trace k).
Definition c04_verdict (k : fk_case) : N := combine k (c04_prop k).
Definition c04_verdicts (l : list fk_case) := nonzero (map c04_verdict l).

(* ---- C03: the reference fork choice run alongside the observation ---- *)
Definition top_id (st : cstack) : N := match st with b :: _ => bid b | [] => 0 end.
Definition oblock_id (o : option block) : N := match o with Some b => bid b | None => 0 end.

Fixpoint c03_follow (cfg : config) (lib : N) (fc : fc_state) (st : cstack) (lastfin : N)
         (h : list block) (os : list obs) : bool :=
  match h, os with
  | b :: h', o :: os' =>
      let fc' := fc_step (c_first cfg) (c_incl cfg) (c_alltrig cfg) fc b in
      match apply_all lib st (o_events o) with
      | None => false
      | Some st' =>
          let lastfin' := fold_left (fun acc e => match estep e with SIrr | SNewIrr => bid (eblk e) | _ => acc end)
                                    (o_events o) lastfin in
          (top_id st' =? oblock_id (fc_tip fc')) &&
          (match o_head o with Some (r, _) => ri r | None => 0 end =? oblock_id (fc_tip fc')) &&
          (negb (f_irr (c_filter cfg)) || (lastfin' =? oblock_id (fc_final fc'))) &&
          c03_follow cfg lib fc' st' lastfin' h' os'
      end
  | _, _ => true
  end.

Definition c03_in_scope (k : fk_case) : bool :=
  match k_mode k with LNone => false | _ => true end && filt_nu k && wf_b (k_hist k) &&
  lib_ok_b (k_mode k) (k_hist k) &&
  match c_fail_at (k_cfg k) with None => true | Some _ => false end.
Definition c03_prop (k : fk_case) : bool :=
  negb (c03_in_scope k) ||
  c03_follow (k_cfg k) (root_lib (k_mode k) (obs_trace k)) (fc_init (k_mode k)) [] 0 (k_hist k) (k_obs k).
Definition c03_verdict (k : fk_case) : N := combine k (c03_prop k).
Definition c03_verdicts (l : list fk_case) := nonzero (map c03_verdict l).

(* ---- C18: lookups against the consumer state reconstructed from the delivered events ---- *)

(* the contiguous chain of stored blocks ending at head: number of its first block *)
Fixpoint lowest_from (fuel : nat) (U : list block) (ids : list N) (b : block) : N :=
  match fuel with
  | O => bnum b
  | S f => match lookup (bparent b) U with
           | Some p => if memN (bid p) ids then lowest_from f U ids p else bnum b
           | None => bnum b
           end
  end.

Definition nth_opt {A} (l : list A) (n : nat) : option A := nth_error l n.

Fixpoint index_of (x : N) (l : list N) : option nat :=
  match l with
  | [] => None
  | y :: l' => if x =? y then Some O else match index_of x l' with Some n => Some (S n) | None => None end
  end.

Definition look_ok (kept : N) (U seen : list block) (qh qi : list N) (mon : fin_mon) (moved : bool) (l : look) : bool :=
  let libn := rn (fm_last mon) in
  (* bounded: after a LIB move nothing below LIB - kept is held *)
  (negb moved || forallb (fun id => match lookup id U with Some b => (libn - kept) <=? bnum b | None => true end) (l_ids l)) &&
  (* retained: every block received at or above the LIB is found by hash and by number *)
  forallb (fun b =>
     negb (libn <=? bnum b) ||
     (match index_of (bid b) qi with Some i => match nth_opt (l_byhash l) i with Some v => v | None => false end | None => false end &&
      match index_of (bnum b) qh with
      | Some i => match nth_opt (l_allat l) i with Some (Some ids) => memN (bid b) ids | _ => false end
      | None => false end)) seen &&
  (* canonical: at a height on the consumer's chain (at or above the LIB) exactly that block *)
  forallb (fun c =>
     negb (libn <=? bnum c) ||
     match index_of (bnum c) qh with
     | Some i => match nth_opt (l_canon l) i with Some id => id =? bid c | None => false end
     | None => false end) (fm_stack mon) &&
  (* lowest servable number: first block of the contiguous retained chain ending at the head *)
  match fm_stack mon with
  | top :: _ => match l_lowest l with
                | Some n => n =? lowest_from (length U) U (l_ids l) top
                | None => false end
  | [] => match l_lowest l with Some n => n =? 0 | None => false end
  end &&
  (* no lookup crashed *)
  forallb (fun x => match x with Some _ => true | None => false end) (l_allat l).

Definition last_new (acc : N) (evs : list event) : N :=
  fold_left (fun a e => match estep e with SNew | SNewIrr => bid (eblk e) | _ => a end) evs acc.

(* disc: discovery mode (no LIB configured).  The first finality announcement of such a stream ESTABLISHES the LIB
   (SetLIB, which does not purge): it is not a "LIB move", the bound is demanded from the next move on *)
Fixpoint c18_follow (disc : bool) (kept : N) (lib : N) (root : ref) (U : list block) (qh qi : list N)
         (mon : fin_mon) (lastnew : N) (seen : list block) (h : list block) (os : list obs) : bool :=
  match h, os with
  | b :: h', o :: os' =>
      match fin_events lib root b mon (o_events o) with
      | None => false
      | Some mon' =>
          let seen' := b :: seen in
          (* a LIB MOVE: a finality announcement after which the last final block is another block than before
             (the announcement of the starting LIB block itself, inclusive mode, moves nothing and purges nothing) *)
          let moved := existsb (fun e => match estep e with SIrr => true | _ => false end) (o_events o)
                       && negb (ref_eqb (fm_last mon) (fm_last mon'))
                       && negb (disc && negb (fm_any mon)) in
          let lastnew' := last_new lastnew (o_events o) in
          (* head information = last block delivered as New *)
          (negb (result_eqb (o_result o) ROk) ||
           (match o_head o with Some (r, _) => ri r | None => 0 end =? lastnew')) &&
          (match o_look o with
           | Some l => negb (result_eqb (o_result o) ROk) || look_ok kept U seen' qh qi mon' moved l
           | None => true end) &&
          c18_follow disc kept lib root U qh qi mon' lastnew' seen' h' os'
      end
  | _, _ => true
  end.

Definition c18_in_scope (k : fk_case) : bool :=
  lib_established k && filt_nu k && filt_irr k && wf_b (k_hist k) && lib_ok_b (k_mode k) (k_hist k).
Definition c18_prop (k : fk_case) : bool :=
  negb (c18_in_scope k) ||
  let root := root_ref (k_mode k) (obs_trace k) in
  c18_follow (match k_mode k with LNone => true | _ => false end) (c_kept (k_cfg k)) (ri root) root (k_hist k) (k_qh k) (k_qi k)
             (mkFM [] 0 root false [] []) 0 [] (k_hist k) (k_obs k).
(* ---- W1 (conclusion audit): clauses of the property text that look_ok / c18_follow leave to the correspondence bit.
   They are evaluated by a second walk with the same finality monitor, so that c18_prop (and the theorems about it) stay
   as they are; the verdict demands both.
   (w1) canonical lookup on the WHOLE retained part of the consumer's chain: every height of the chain at or above
        LIB - kept (Spec.C18_Moving_Spec.canonical_clause (a)), not only at or above the LIB;
   (w2) the bound from the first LIB move ON (Spec.window_clause: at every later observation point, not only on the moving
        step) and through all three lookups: a block of the history under LIB - kept is not listed by AllIDs, not returned
        by GetBlockByHash, not listed by AllBlocksAt;
   (w3) head information = the last block delivered as New: its id, its NUMBER and its LIB number (HeadInfo), and HeadNum. *)
Definition canon_at (qh : list N) (l : look) (n : N) : option N :=
  match index_of n qh with Some i => nth_opt (l_canon l) i | None => None end.
Definition byhash_at (qi : list N) (l : look) (id : N) : option bool :=
  match index_of id qi with Some i => nth_opt (l_byhash l) i | None => None end.
Definition allat_at (qh : list N) (l : look) (n : N) : option (list N) :=
  match index_of n qh with Some i => match nth_opt (l_allat l) i with Some (Some ids) => Some ids | _ => None end | None => None end.

Definition look_ok_w1 (kept : N) (U : list block) (qh qi : list N) (mon : fin_mon) (ever : bool) (l : look) : bool :=
  let cut := rn (fm_last mon) - kept in
  forallb (fun c => negb (cut <=? bnum c) ||
                    match canon_at qh l (bnum c) with Some id => id =? bid c | None => false end) (fm_stack mon) &&
  (negb ever ||
   forallb (fun b => (cut <=? bnum b) ||
                     (negb (memN (bid b) (l_ids l)) &&
                      match byhash_at qi l (bid b) with Some v => negb v | None => true end &&
                      match allat_at qh l (bnum b) with Some ids => negb (memN (bid b) ids) | None => true end)) U).

Definition head_ok_w1 (U : list block) (lastnew : N) (o : obs) : bool :=
  match lookup lastnew U with
  | Some b => head_eqb (o_head o) (Some (bref b, blib b)) && (o_headnum o =? bnum b)
  | None => true     (* nothing delivered as New yet (or a block outside the history): left to c18_follow *)
  end.

Fixpoint c18_follow_w1 (disc : bool) (kept : N) (lib : N) (root : ref) (U : list block) (qh qi : list N)
         (mon : fin_mon) (lastnew : N) (ever : bool) (h : list block) (os : list obs) : bool :=
  match h, os with
  | b :: h', o :: os' =>
      match fin_events lib root b mon (o_events o) with
      | None => false
      | Some mon' =>
          let moved := existsb (fun e => match estep e with SIrr => true | _ => false end) (o_events o)
                       && negb (ref_eqb (fm_last mon) (fm_last mon'))
                       && negb (disc && negb (fm_any mon)) in
          let ever' := ever || moved in
          let lastnew' := last_new lastnew (o_events o) in
          (negb (result_eqb (o_result o) ROk) || head_ok_w1 U lastnew' o) &&
          (match o_look o with
           | Some l => negb (result_eqb (o_result o) ROk) || look_ok_w1 kept U qh qi mon' ever' l
           | None => true end) &&
          c18_follow_w1 disc kept lib root U qh qi mon' lastnew' ever' h' os'
      end
  | _, _ => true
  end.

Definition c18_prop_w1 (k : fk_case) : bool :=
  negb (c18_in_scope k) ||
  let root := root_ref (k_mode k) (obs_trace k) in
  c18_follow_w1 (match k_mode k with LNone => true | _ => false end) (c_kept (k_cfg k)) (ri root) root (k_hist k) (k_qh k) (k_qi k)
                (mkFM [] 0 root false [] []) 0 false (k_hist k) (k_obs k).

Definition c18_verdict (k : fk_case) : N := combine k (c18_prop k && c18_prop_w1 k).
Definition c18_verdicts (l : list fk_case) := nonzero (map c18_verdict l).

(* ---- W3 (projection / conclusion audit of C01-C04): clauses of the property texts that neither the monitors of Spec/Consumer.v
   (c01_*_b, c02_b, c04_b: used by the *_monitor_sound theorems, left as they are) nor c03_follow evaluate on the
   implementation's observation, and observables that the Coq event type has no field for.  The case of C01-C04 is the
   family's case plus what the Go harness observed besides:
   x_flags: per incoming block, per delivered event, a bit set (harness/fk.go, constants fkFlagBlock, fkFlagObj, fkFlagStepBlocks): 1 = the block handed to the handler is not
            (proto-equal to) a block that was fed under that id (payload, timestamp); 2 = the wrapped object is not the one fed
            with that block; 4 = StepBlocks disagrees with StepCount / StepIndex / the delivered block; 8 = FinalBlockHeight() is
            not the cursor's LIB height;
   x_indep: C03 "outputs do not depend on the retention setting or on re-fed or below-LIB blocks" evaluated on the REAL code
            (the harness runs it again with other kept values and without the noise blocks): 1 = depends on kept, 2 = on noise.
   Also projected by the harness since W3 (no new field): a cursor whose STEP is not the event's gets a foreign cursor block
   (fkCursorBlk: clause `ecblk = bref eblk` of c04_b / cursors_ok / c04_file_verdict); a returned error that is not the handler's
   error value (errors.Is) is result "other" (RFuel: c01_error_b demands RHandlerErr on the failing call). *)
Record fk_xcase := mkFkX { x_k : fk_case; x_flags : list (list N); x_indep : N }.

Definition flags_clear (mask : N) (x : fk_xcase) : bool :=
  forallb (forallb (fun f => N.land f mask =? 0)) (x_flags x).

(* C01: "every block delivered as New / Undo": the handler is handed the blocks the source fed, each with its own wrapped
   object, and a batch event names its batch (outside the sentence proper: consistency of the event's own fields) *)
Definition c01_prop_w3 (x : fk_xcase) : bool := flags_clear 7 x.
Definition c01_xverdict (x : fk_xcase) : N := combine (x_k x) (c01_prop (x_k x) && c01_prop_w3 x).
Definition c01_xverdicts (l : list fk_xcase) := nonzero (map c01_xverdict l).

(* C02: the monitor c02_b already walks the whole run (finals / stalled sets are never reset); the identity flags as for C01.
   (w3) C02's quantifier is "every Forkable configuration with a LIB": it does not ask for New and Undo in the step filter, but
   c02_in_scope does (c02_b needs the consumer's stack for "oldest pending block" and "never on the consumer's chain"), so a
   stream filtered to Irreversible (+ Stalled) events was compared with the model only.  The clauses that need no stack are
   demanded whenever Irreversible events are delivered: the announced blocks form a gap-free parent-linked chain extending the
   starting LIB (the first may be the starting LIB itself), none exceeds the LIB number declared by the incoming block, none was
   reported stalled, none is later delivered as Undo or Stalled; a stalled block is reported once, is never final and lies at
   or below the final height. *)
Record ch_mon := mkCH { ch_last : ref; ch_any : bool; ch_finals : list N; ch_stalled : list N }.
Definition ch_step (root : ref) (inc : block) (m : ch_mon) (e : event) : option ch_mon :=
  let b := eblk e in
  match estep e with
  | SIrr =>
      let is_root := negb (ch_any m) && (bid b =? ri root) in
      if negb (is_root || (bparent b =? ri (ch_last m))) then None else
      if memN (bid b) (ch_stalled m) then None else
      if negb (is_root || (bnum b <=? blib inc)) then None else
      Some (mkCH (bref b) true (bid b :: ch_finals m) (ch_stalled m))
  | SUndo => if memN (bid b) (ch_finals m) then None else Some m
  | SStalled =>
      if memN (bid b) (ch_finals m) || memN (bid b) (ch_stalled m) || negb (bnum b <=? rn (ch_last m)) then None
      else Some (mkCH (ch_last m) (ch_any m) (ch_finals m) (bid b :: ch_stalled m))
  | SNew | SNewIrr => Some m
  end.
Fixpoint ch_events (root : ref) (inc : block) (m : ch_mon) (l : list event) : option ch_mon :=
  match l with
  | [] => Some m
  | e :: l' => match ch_step root inc m e with Some m' => ch_events root inc m' l' | None => None end
  end.
Fixpoint ch_trace (root : ref) (m : ch_mon) (h : list block) (os : list obs) : bool :=
  match h, os with
  | b :: h', o :: os' => match ch_events root b m (o_events o) with Some m' => ch_trace root m' h' os' | None => false end
  | _, _ => true
  end.
Definition c02_chain_scope (k : fk_case) : bool :=
  lib_established k && filt_irr k && wf_b (k_hist k) && lib_ok_b (k_mode k) (k_hist k).
Definition c02_prop_w3 (x : fk_xcase) : bool :=
  let k := x_k x in
  flags_clear 3 x &&
  (negb (c02_chain_scope k) ||
   let root := root_ref (k_mode k) (obs_trace k) in ch_trace root (mkCH root false [] []) (k_hist k) (k_obs k)).
Definition c02_xverdict (x : fk_xcase) : N := combine (x_k x) (c02_prop (x_k x) && c02_prop_w3 x).
Definition c02_xverdicts (l : list fk_xcase) := nonzero (map c02_xverdict l).

(* C03: (w3a) a block the reference ignores (same tip, same LIB after it: re-fed, below the LIB, not linked, not higher)
   delivers NOTHING (Spec.C03_Spec.c03_noise, so far proved on the model only; c03_follow accepts any events that leave the
   consumer's tip where it was, e.g. Undo x; New x); (w3b) the independence bits of the real code; (w3c) below *)
Fixpoint c03_noise_b (cfg : config) (fc : fc_state) (h : list block) (os : list obs) : bool :=
  match h, os with
  | b :: h', o :: os' =>
      let fc' := fc_step (c_first cfg) (c_incl cfg) (c_alltrig cfg) fc b in
      (negb ((oblock_id (fc_tip fc') =? oblock_id (fc_tip fc)) && ref_eqb (fc_lib fc') (fc_lib fc)) ||
       match o_events o with [] => true | _ => false end) &&
      c03_noise_b cfg fc' h' os'
  | _, _ => true
  end.
(* (w3c) "whenever the tip moves, the LIB becomes ...": c03_follow reads the LIB only through Irreversible events (negb f_irr || ...);
   a consumer that filters them out sees the stream's LIB in its cursors only: the cursor LIB of every New / Undo event of a step is
   the reference's LIB BEFORE that step (the step's own announcements come after its New / Undo events), for every filter *)
Fixpoint c03_cursor_lib_b (cfg : config) (fc : fc_state) (h : list block) (os : list obs) : bool :=
  match h, os with
  | b :: h', o :: os' =>
      let fc' := fc_step (c_first cfg) (c_incl cfg) (c_alltrig cfg) fc b in
      forallb (fun e => match estep e with SNew | SUndo => ref_eqb (elib e) (fc_lib fc) | _ => true end) (o_events o) &&
      c03_cursor_lib_b cfg fc' h' os'
  | _, _ => true
  end.
Definition c03_prop_w3 (x : fk_xcase) : bool :=
  let k := x_k x in
  negb (c03_in_scope k) ||
  (c03_noise_b (k_cfg k) (fc_init (k_mode k)) (k_hist k) (k_obs k) &&
   c03_cursor_lib_b (k_cfg k) (fc_init (k_mode k)) (k_hist k) (k_obs k) && (x_indep x =? 0)).
Definition c03_xverdict (x : fk_xcase) : N := combine (x_k x) (c03_prop (x_k x) && c03_prop_w3 x).
Definition c03_xverdicts (l : list fk_xcase) := nonzero (map c03_xverdict l).

(* C04: "along one stream the cursor's LIB height never decreases": c04_b evaluates its LIB clauses only when Irreversible events
   are delivered (check_lib); the height clause needs no announcement and is demanded for every filter of the scope *)
Fixpoint cursor_lib_mono_b (prev : N) (l : list event) : bool :=
  match l with
  | [] => true
  | e :: l' => (prev <=? rn (elib e)) && cursor_lib_mono_b (rn (elib e)) l'
  end.
Definition c04_prop_w3 (x : fk_xcase) : bool :=
  let k := x_k x in
  flags_clear 8 x &&
  (negb (c04_in_scope k) || cursor_lib_mono_b (rn (root_ref (k_mode k) (obs_trace k))) (all_events (obs_trace k))).
Definition c04_xverdict (x : fk_xcase) : N := combine (x_k x) (c04_prop (x_k x) && c04_prop_w3 x).
Definition c04_xverdicts (l : list fk_xcase) := nonzero (map c04_xverdict l).
