(* C06: resuming from a cursor out of merged files.
   Codes: 0 ok | 1 model/implementation mismatch | 2 property rejected | 3 both | 4 panic/hang *)
From BV Require Import Base.Prelude Model.Block Model.Forkable Model.Burst Model.CursorResolver
  Spec.Consumer Spec.Universe Check.Fk_Check Check.Burst_Check.
Local Open Scope N_scope.

Record c06_case := mkC06 {
  x_cur : cursor; x_pass : bool; x_start : N; x_stop : N; x_bundle : N;
  x_canon : list block;          (* canonical chain in the merged files, oldest first *)
  x_forked : list block;         (* one-block files present in the forked-blocks store *)
  x_live : list event;           (* the live stream's events up to and including the cursor's event *)
  x_events : list event;         (* delivered by the file source *)
  x_err : N;                     (* 0 nil | 1 stop block reached | 2 cursor-resolution error | 3 other | 4 hang/panic
                                    | 6 (W3) a delivered block is not the stored block in full (id, payload, time), or the
                                      handler object is not the preprocessed object of that block, or a reference is not
                                      spelled in full: no model outcome and no property clause accepts it (code 3) *)
}.

Definition err_of (r : rres) : N :=
  match r with RsOk => 1 | RsResolveErr => 2 | RsNotImplemented => 3 | RsFuel => 5 end.

Definition c06_corresponds (k : c06_case) : bool :=
  let '(evs, r) := if x_pass k then through_cursor_run (x_canon k) (x_forked k) (x_start k) (x_cur k) (x_stop k) (x_bundle k)
                   else from_cursor_run (x_canon k) (x_forked k) (x_cur k) (x_stop k) (x_bundle k) in
  events_eqb evs (x_events k) && (err_of r =? x_err k).

Fixpoint shape_ok (phase : N) (l : list event) : bool :=
  match l with
  | [] => true
  | e :: l' =>
      let p := match estep e with SUndo => 0 | SIrr => 1 | SNewIrr => 2 | _ => 3 end in
      (phase <=? p) && (p <? 3) && shape_ok p l'
  end.

Definition c06_prop (k : c06_case) : bool :=
  let c := x_cur k in
  match cons_fold cons0 (x_live k) with
  | None => false
  | Some ck0 =>
      let canon_ids := ids (x_canon k) in
      let ck := mkCons (cs_stack ck0) (length (filter (fun b => bnum b <=? rn (cu_lib c)) (cs_stack ck0))) true in
      let pending_forked := filter (fun b => negb (memN (bid b) canon_ids)) (cs_stack ck) in
      (* the forked blocks the resolution needs: the pending ones, and the cursor block itself when it
         is forked (an already-undone block is still needed for its parent link) *)
      let all_present := forallb (fun b => memN (bid b) (ids (x_forked k))) pending_forked &&
                         (memN (ri (cu_blk c)) canon_ids || memN (ri (cu_blk c)) (ids (x_forked k))) in
      let delivered_end := (x_stop k / x_bundle k + 1) * x_bundle k in
      if x_pass k then
        (* target-cursor mode: served only for a cursor on the canonical chain *)
        match cons_fold cons0 (x_events k) with
        | None => false
        | Some c' =>
            if x_err k =? 1 then
              eqb_list (ids (rev (cs_stack c')))
                       (ids (filter (fun b => (x_start k <=? bnum b) && (bnum b <? delivered_end)) (x_canon k)))
              && Nat.eqb (cs_nf c') (length (cs_stack c'))
            (* the documented limitation: a target cursor on a forked block cannot be resolved from files *)
            else ((x_err k =? 3) || (x_err k =? 2)) && negb (memN (ri (cu_blk c)) canon_ids)
        end
      else if x_err k =? 2 then
        (* the cursor-resolution error: nothing delivered, and a needed forked block is indeed missing
           (a final cursor needs none) *)
        match x_events k with [] => negb all_present && negb (matches_irr (cu_step c)) | _ => false end
      else if x_err k =? 1 then
        shape_ok 0 (x_events k) &&
        match cu_step c with
        | SNew | SUndo =>
            all_present &&
            match cons_fold ck (x_events k) with
            | None => false
            | Some c' =>
                (* the consumer ends on the canonical chain, everything final, nothing missing *)
                let held_root := match filter (fun b => memN (bid b) canon_ids) (rev (cs_stack ck)) with
                                 | b0 :: _ => bnum b0 | [] => rn (cu_lib c) + 1 end in
                eqb_list (ids (rev (cs_stack c')))
                         (ids (filter (fun b => (held_root <=? bnum b) && (bnum b <? delivered_end)) (x_canon k)))
                && Nat.eqb (cs_nf c') (length (cs_stack c')) &&
                (* every undo names the junction: the last canonical block the consumer holds *)
                let junction := match filter (fun b => memN (bid b) canon_ids) (cs_stack ck) with
                                | j :: _ => Some (bref j) | [] => None end in
                forallb (fun e => negb (step_eqb (estep e) SUndo) ||
                                  match ejunc e, junction with
                                  | Some a, Some b => ref_eqb a b
                                  | Some a, None => ref_eqb a (cu_lib c)
                                  | None, _ => false end) (x_events k)
            end
        | _ =>
            (* final cursor: every later canonical block once, in order, new+irreversible *)
            forallb (fun e => step_eqb (estep e) SNewIrr) (x_events k) &&
            eqb_list (ids (map eblk (x_events k)))
                     (ids (filter (fun b => (rn (cu_blk c) <? bnum b) && (bnum b <? delivered_end)) (x_canon k)))
        end
      else false
  end.

(* W3 (conclusion audit): clauses of the property sentence that `c06_prop` left to the model comparison.
   - "undoes EXACTLY the consumer's pending forked blocks": no Undo of a block of the canonical chain (the fold above accepts
     an Undo of a held canonical block that is delivered again afterwards);
   - every delivered event's cursor names the delivered block; after an Undo the consumer's final block is still the one
     of the cursor it resumed from, after an Irreversible / new-and-irreversible event it is the delivered block: the LIB
     of the event's cursor says so (a consumer that crashes there resumes from that cursor). *)
Definition c06_prop_w3 (k : c06_case) : bool :=
  let c := x_cur k in
  let canon_ids := ids (x_canon k) in
  forallb (fun e =>
    ref_eqb (ecblk e) (bref (eblk e)) &&
    match estep e with
    | SUndo => negb (memN (bid (eblk e)) canon_ids) && ref_eqb (elib e) (cu_lib c)
    | SIrr | SNewIrr => ref_eqb (elib e) (bref (eblk e))
    | _ => true
    end) (x_events k).

Definition c06_verdict (k : c06_case) : N :=
  (* bundle size 0 marks "this generated history produced no event, hence no cursor": nothing to decide *)
  if x_bundle k =? 0 then 0 else
  if x_err k =? 4 then 4 else
  (if c06_corresponds k then 0 else 1) + (if c06_prop k && c06_prop_w3 k then 0 else 2).
Definition c06_verdicts (l : list c06_case) := nonzero (map c06_verdict l).
Definition c06_in_scope (k : c06_case) : bool := negb (x_err k =? 4) && negb (x_bundle k =? 0).
