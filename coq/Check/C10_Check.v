(* Correspondence + property checker for C10, evaluated by the driver with vm_compute on the
   observations of the real bstream.FileSource.  Verdict codes:
     0 ok
     1 the observation is not what the model allows (Model/FileSeq.v [expected]: exactly the
       reference run without a Shutdown, a prefix of it with one)
     2 the boolean form of the PROPERTY rejects the observation (computed from the stored bundles
       and the observation, without [expected]/[nsend]/[seq_cut])
     3 both
     4 Run did not return / panicked (hang)
     5 a handler call began after Run had returned, or the object's cursor did not describe the block *)
From BV Require Import Base.Prelude Model.FileSeq.
Local Open Scope N_scope.

(* error enum of the harness: 0 nil | 1 stop block reached | 2 non-sequential | >= 3 anything else *)
Definition c10_tag (kind : N) (b : blk) : N :=
  if kind =? 0 then 3 * b_id b + b_num b else 18446744073709551614.

Definition pblk_eqb (a b : blk * N) : bool := blk_eqb (fst a) (fst b) && (snd a =? snd b).

Inductive c10_case :=
| C10Case (L : layout) (threads : nat) (tagkind : N)
          (ext : bool)      (* an outside Shutdown(nil) was injected *)
          (forced : bool)   (* the harness shut the source down because it had gone quiet *)
          (calls : list (blk * N)) (err : N) (hung : bool) (bad : bool).

Definition outcome_code (o : outcome) : N := match o with OStop => 1 | ONonSeq => 2 | OTail => 0 end.

(* ---- code 1: the model ---- *)
Definition c10_model_ok (L : layout) (kind : N) (ext forced : bool) (calls : list (blk * N)) (err : N) : bool :=
  let (d, o) := expected L in
  let ref := map (fun b => (b, c10_tag kind b)) d in
  let full := list_eqb pblk_eqb calls ref in
  match o with
  | OTail =>
      (* the source never ends by itself: it was shut down, by the test or by the quiet timer;
         the quiet timer fires only when everything was delivered *)
      (err =? 0) && (ext || forced) && is_prefix pblk_eqb calls ref && (negb forced || ext || full)
  | _ =>
      negb forced &&
      ((full && (err =? outcome_code o)) ||
       (ext && (err =? 0) && is_prefix pblk_eqb calls ref))
  end.

(* ---- code 2: the property, on the stored bundles and the observation ---- *)
(* all stored blocks at or above the start block and not below their bundle base, in stored order *)
Fixpoint eligible_from (L : layout) (i : nat) (fs : list (list blk)) : list blk :=
  match fs with
  | [] => []
  | f :: fs' =>
      filter (fun b => (l_start L <=? b_num b) && (base_of L i <=? b_num b)) f ++ eligible_from L (S i) fs'
  end.
Definition eligible (L : layout) : list blk := eligible_from L 0 (l_files L).

(* consecutive deliveries are parent-linked *)
Fixpoint linkedb (last : N) (l : list blk) : bool :=
  match l with
  | [] => true
  | b :: l' => ((last =? 0) || (b_par b =? last)) && linkedb (b_id b) l'
  end.

Fixpoint last_id (x : N) (l : list blk) : N :=
  match l with [] => x | b :: l' => last_id (b_id b) l' end.

Definition c10_check (L : layout) (kind : N) (ext forced : bool) (calls : list (blk * N)) (err : N) : bool :=
  let blocks := map fst calls in
  let el := eligible L in
  let rest := skipn (length blocks) el in
  (* each block paired with the result computed for that same block *)
  forallb (fun v => snd v =? c10_tag kind (fst v)) calls &&
  (* stored order, beginning with the first block at or above the start block, each once *)
  is_prefix blk_eqb blocks el &&
  (* nothing out of sequence was delivered *)
  linkedb 0 blocks &&
  match err with
  | 0 => ext || (forced && match rest with [] => true | _ => false end)
  | 1 =>
      (* stop-block-reached only with a stop block and after every block up to it was delivered *)
      negb (l_stop L =? 0) && forallb (fun b => l_stop L <? b_num b) rest
  | 2 =>
      (* the next stored block does not name the last delivered one as parent *)
      match rest with
      | b :: _ => negb (last_id 0 blocks =? 0) && negb (b_par b =? last_id 0 blocks)
      | [] => false
      end
  | _ => false
  end.

Definition c10_verdict (k : c10_case) : N :=
  match k with
  | C10Case L threads kind ext forced calls err hung bad =>
      if hung then 4 else if bad then 5 else
      (if c10_model_ok L kind ext forced calls err then 0 else 1) +
      (if c10_check L kind ext forced calls err then 0 else 2)
  end.

(* ---- Y1 (W1-C10-1 'suffix instead of filter'): second clause next to [c10_check] / [c10_verdict], which the theorems
   of Proofs/C10_Proofs.v and the witnesses of Properties/Cxx_Audit2.v speak about and which stay as they are.

   The text: "hands the handler the stored blocks in exactly stored order, BEGINNING WITH the first block at or above
   the start block".  [eligible] describes the delivered blocks as a FILTER over all stored blocks (the two per-block
   `continue` tests of streamReader).  The clause below states the sentence as it reads: the stored sequence is the
   concatenation of the bundle files, each without its LEADING blocks below the bundle base (the legacy leading block
   of the quantifier); the deliveries are a prefix of the SUFFIX of that sequence which begins at the first block at or
   above the start block.  Nothing here is a per-block test copied from the code.

   Scope: layouts whose stored numbers never go backwards ([mono_layout]: non-decreasing over the concatenation of
   all files; equal numbers - the repeated legacy leading block - allowed).  That is the class the quantifier describes
   ("skipped numbers", "legacy leading block below the bundle base").  On a bundle whose numbers go backwards the
   unchanged library delivers the filtered subsequence without an error (W1-C10-1a/1b: the malformed-bundle reading,
   judged outside the quantifier); such layouts are left to the correspondence bit ([c10_model_ok], whose reference
   model is the filter) and to [c10_check]. *)
Fixpoint drop_leading (base : N) (f : list blk) : list blk :=
  match f with
  | [] => []
  | b :: f' => if b_num b <? base then drop_leading base f' else f
  end.

Fixpoint text_files (L : layout) (i : nat) (fs : list (list blk)) : list blk :=
  match fs with
  | [] => []
  | f :: fs' => drop_leading (base_of L i) f ++ text_files L (S i) fs'
  end.

Fixpoint from_start (start : N) (l : list blk) : list blk :=
  match l with
  | [] => []
  | b :: l' => if b_num b <? start then from_start start l' else l
  end.

Definition text_stream (L : layout) : list blk := from_start (l_start L) (text_files L 0 (l_files L)).

Fixpoint nondecr (last : N) (l : list blk) : bool :=
  match l with
  | [] => true
  | b :: l' => (last <=? b_num b) && nondecr (b_num b) l'
  end.
Definition mono_layout (L : layout) : bool := nondecr 0 (concat (l_files L)).

Definition c10_suffix_y1 (L : layout) (calls : list (blk * N)) : bool :=
  negb (mono_layout L) || is_prefix blk_eqb (map fst calls) (text_stream L).

Definition c10_verdict_y1 (k : c10_case) : N :=
  match k with
  | C10Case L threads kind ext forced calls err hung bad =>
      if hung || bad then c10_verdict k
      else N.lor (c10_verdict k) (if c10_suffix_y1 L calls then 0 else 2)
  end.

Definition c10_verdicts (l : list c10_case) : list (N * N) := nonzero (map c10_verdict_y1 l).
