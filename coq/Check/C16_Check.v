(* Correspondence + property checker for C16, evaluated by the driver with vm_compute on the
   observations of the real bstream / dbin code.  Verdict codes:
     0 ok
     1 the model differs from the implementation's observation (writer bytes, framing-level read
       of a clean / cut / corrupted file, legacy upgrade, names, fetch)
     2 the boolean form of the PROPERTY rejects the implementation's observation
     3 both
     4 the implementation panicked or hung
     5 a fault damaged a block that ends BEFORE the fault offset, or a cut file delivered
       something that is not a prefix (clauses c16_prefix_intact / c16_truncation; never a known
       finding)                                                                              *)
From BV Require Import Base.Prelude Base.Decimal Model.CursorCodec Model.Dbin Model.OneBlockName.
Local Open Scope N_scope.

(* ------------------------------------------------------------------ observations *)

(* how the implementation's read loop ended *)
(* EHuge: the harness stopped the read loop before a ReadMessage call whose (corrupted) length
   prefix would make dbin allocate more than the harness' cap *)
Inductive oend := EEof | EErr | EHdr | EPanic | EHang | EHuge.
Definition oend_matches (o : oend) (m : outcome) : bool :=
  match o, m with
  | EEof, OEOF | EErr, OErr | EHdr, OHdr | EHuge, OFuel => true
  | _, _ => false
  end.
Definition oend_crashed (o : oend) : bool :=
  match o with EPanic | EHang => true | _ => false end.

(* an item delivered by a read of a damaged file:
     IRef i   identical to item number i of the clean read (the harness compares raw messages
              with bytes.Equal and blocks with proto.Equal);
     IMod i   (raw messages only) original message i with exactly one byte changed, same length;
     IAlt l h anything else, reported by its length and a position-weighted byte sum (to keep
              the case files small) *)
Inductive item := IRef (i : N) | IMod (i : N) | IAlt (len : N) (hash : N).
Definition wsum (m : str) : N := fst (fold_left (fun ai c => (fst ai + c * snd ai, snd ai + 1)) m (0, 1)).

Inductive fault := FTrunc (n : N) | FCorrupt (p : N) (v : N).

(* sets of faults, to keep the case files small:
     TR lo hi      every cut point lo <= n < hi
     CV p lo hi    offset p, every new value lo <= v <= hi other than the byte that is there
     CO lo hi mask every offset lo <= p <= hi, new value = old value xor mask *)
Inductive frange := TR (lo hi : N) | CV (p lo hi : N) | CO (plo phi mask : N).

(* the content type the reader reported: the original one; none (the reader could not be
   opened); CSlice = the bytes of the damaged file that its own (damaged) header announces as the
   content type (version 1: offset 7, length = bytes 5..6; version 0: offset 5, length 3);
   another one *)
Inductive octype := CSame | CNone | CSlice | COther (s : str).

(* a set of faults on which the implementation showed one and the same behaviour: content type,
   the raw messages its framing delivered (hook: readMessage with the identity decoder) and how
   that read ended; the blocks Read() delivered and how that ended *)
Record fobs := mkFobs {
  fo_faults : list frange;
  fo_reads : option N;   (* Some n: the harness allowed n ReadMessage calls only (the end is then EHuge) *)
  fo_ctype : octype;
  fo_raw : list item; fo_raw_end : oend;
  fo_blk : list item; fo_blk_end : oend }.

(* a stored one-block file and a fetch query *)
Record sfile := mkSfile { sf_name : str; sf_data : str }.
Inductive fobsres := QBlock (it : item) | QNotFound | QErr | QNil | QPanic | QHang.
Record query := mkQuery { q_num : N; q_id : str; q_res : fobsres }.

Inductive c16_case :=
  (* blocks, proto.Marshal of each (None = error), writer: length and weighted sum of the file
     bytes + ok, panicked; reader on that file: content type, blocks + end, metas + end.  A
     delivered block / meta is None when the harness found it identical (proto.Equal / field by
     field) to the input block at the same position / its meta *)
| CRound (bs : list blk) (encs : list (option str)) (flen fsum : N) (wok : bool) (wpanic : bool)
         (o_ct : option str) (o_blks : list (option blk)) (o_end : oend)
         (o_metas : list (option bmeta)) (o_mend : oend)
  (* one writer used for every block, errors or not: per-call results, the file, the blocks read
     back (None = identical to the accepted block at that position) *)
| CRetry (bs : list blk) (encs : list (option str)) (flen fsum : N) (oks : list bool) (wpanic : bool)
         (o_ct : option str) (o_blks : list (option blk)) (o_end : oend)
  (* content type, messages, length and weighted sum of the file as written, input blocks, clean
     read (None = identical to the input block at that position); faults *)
| CFault (ct : str) (ms : list str) (flen fsum : N) (orig : list blk) (clean : list (option blk))
         (fs : list fobs)
  (* number, id, parent id, LIB, suffix; name built; TruncateBlockID of both ids;
     ParseFilename(name); panicked *)
| CName (num : N) (id parent : str) (lib : N) (suffix : str)
        (o_name o_tid o_tparent : str) (o_parsed : option parsed) (panic : bool)
  (* any string; ParseFilename(s); ParseFilename(canonical ++ "-x") when parsed; panicked *)
| CParse (s : str) (o_parsed o_re : option parsed) (panic : bool)
  (* store in walk order, messages of the stored blocks (index = clean block number), the
     (number, id) of each stored block, queries *)
| CFetch (store : list sfile) (msgs : list str) (ids : list (N * str)) (qs : list query)
  (* merged-blocks store: numbers of the blocks in the bundle, queries (by number only): the
     property checker only *)
| CMerged (nums : list N) (qs : list query).

(* ------------------------------------------------------------------ helpers *)

Definition ostr_eqb := opt_eqb eqb_list.

Definition nthN {A} (l : list A) (i : N) : option A := nth_error l (N.to_nat i).

Fixpoint find_msg (ms : list str) (m : str) (i : N) : option N :=
  match ms with
  | [] => None
  | x :: r => if eqb_list x m then Some i else find_msg r m (i + 1)
  end.

(* the item the harness must report for raw message m *)
Definition item_eqb (a b : item) : bool :=
  match a, b with
  | IRef i, IRef j => i =? j
  | IMod i, IMod j => i =? j
  | IAlt l1 h1, IAlt l2 h2 => (l1 =? l2) && (h1 =? h2)
  | _, _ => false
  end.

(* items 0,1,2,...: "a prefix of the clean read" *)
Fixpoint is_prefix_refs (its : list item) (i : N) : bool :=
  match its with
  | [] => true
  | IRef j :: r => (j =? i) && is_prefix_refs r (i + 1)
  | _ :: _ => false
  end.

(* ------------------------------------------------------------------ round trip *)

(* proto.Marshal / Unmarshal as observed on this very case: finite maps *)
Fixpoint enc_lookup (bs : list blk) (encs : list (option str)) (b : blk) : option str :=
  match bs, encs with
  | x :: r, e :: er => if blk_eqb x b then e else enc_lookup r er b
  | _, _ => None
  end.
Fixpoint dec_lookup (bs : list blk) (encs : list (option str)) (m : str) : option blk :=
  match bs, encs with
  | x :: r, Some e :: er => if eqb_list e m then Some x else dec_lookup r er m
  | _ :: r, None :: er => dec_lookup r er m
  | _, _ => None
  end.

Definition first_block : N := 0.          (* GetProtocolFirstStreamableBlock in the harness *)
Definition accept_solana : bool := false. (* the harness leaves the variable unset *)

Definition model_dec_block bs encs (m : str) : option blk :=
  match dec_lookup bs encs m with
  | Some b => support_legacy first_block accept_solana b
  | None => None
  end.
Definition model_dec_meta bs encs (m : str) : option bmeta :=
  match dec_lookup bs encs m with
  | Some b => support_legacy_meta first_block (meta_of b)
  | None => None
  end.

(* "the same block": every field the property names (id, number, parent id, LIB number,
   timestamp, payload); a legacy block's payload value is its payload_buffer *)
Definition blk_same (orig got : blk) : bool :=
  (b_num orig =? b_num got) && eqb_list (b_id orig) (b_id got) &&
  eqb_list (b_parent orig) (b_parent got) && ts_eqb (b_ts orig) (b_ts got) &&
  (b_lib orig =? b_lib got) &&
  (* the parent number: unchanged, or for a legacy block above the first streamable block the
     designed back-fill number - 1 *)
  ((b_pnum got =? b_pnum orig) ||
   match b_payload orig with
   | None => (first_block <? b_num orig) && (b_pnum got =? b_num orig - 1)
   | Some _ => false
   end) &&
  match b_payload orig, b_payload got with
  | Some a, Some g => any_eqb a g
  | None, Some g => eqb_list (b_pbuf orig) (a_val g)
  | _, None => false
  end.

Definition unsupported_legacy (b : blk) : bool :=
  match b_payload b with
  | Some _ => false
  | None => (b_kind b =? 3) || (b_kind b =? 4)
  end.

(* property on a clean round trip: all blocks, the same, then EOF; a legacy NEAR / Solana block
   is refused by design: the blocks before it, then an error *)
Fixpoint round_ok (orig got : list blk) (e : oend) : bool :=
  match orig with
  | [] => match got, e with [], EEof => true | _, _ => false end
  | b :: r =>
      if unsupported_legacy b then match got, e with [], EErr => true | _, _ => false end
      else match got with
           | g :: gr => blk_same b g && round_ok r gr e
           | [] => false
           end
  end.

Definition all_some_nonempty (encs : list (option str)) : bool :=
  forallb (fun e => match e with Some (_ :: _) => true | _ => false end) encs.
(* every block marshals: with that and every Write call returning nil the sequence IS "written with the
   block writer" (a writer that accepts a block it cannot give back breaks the round trip: finding
   C16-writer-empty-encoding) *)
Definition all_some (encs : list (option str)) : bool :=
  forallb (fun e => match e with Some _ => true | None => false end) encs.

(* resolve "identical to the input at this position" *)
Fixpoint resolve {A} (dflt : list A) (got : list (option A)) : list A :=
  match got with
  | [] => []
  | Some x :: r => x :: resolve (tl dflt) r
  | None :: r => match dflt with d :: _ => d :: resolve (tl dflt) r | [] => [] end
  end.
Definition resolved_ok {A} (dflt : list A) (got : list (option A)) : bool :=
  lenN (resolve dflt got) =? lenN got.

Definition round_verdict bs encs (flen fsum : N) wok wpanic o_ct o_blks_c o_end o_metas_c o_mend : N :=
  if wpanic || oend_crashed o_end || oend_crashed o_mend then 4 else
  let o_blks := resolve bs o_blks_c in
  let o_metas := resolve (map meta_of bs) o_metas_c in
  let penc := enc_lookup bs encs in
  let '(file, mw) := write_all penc bs in
  let mok := match mw with WOk => true | WErr => false end in
  let wr := (lenN file =? flen) && (wsum file =? fsum) && Bool.eqb mok wok in
  let '(mh, mbl, mo) := read_file (model_dec_block bs encs) file in
  let '(mh2, mml, mo2) := read_file (model_dec_meta bs encs) file in
  let rd := ostr_eqb (option_map h_ctype mh) o_ct && list_eqb blk_eqb mbl o_blks && oend_matches o_end mo &&
            list_eqb meta_eqb mml o_metas && oend_matches o_mend mo2 &&
            resolved_ok bs o_blks_c && resolved_ok (map meta_of bs) o_metas_c in
  let m := wr && rd in
  (* the property's quantifier: the sequence was written (non-empty, first block has a type
     URL, every block marshals to a non-empty message) *)
  let inq := wok && negb (match bs with [] => true | _ => false end) && all_some encs in
  let p := negb inq || round_ok bs o_blks o_end in
  (if m then 0 else 1) + (if p then 0 else 2).

(* every block whose Write returned nil is read back, in order, whatever the other calls returned *)
Fixpoint keep {A} (l : list A) (oks : list bool) : list A :=
  match l, oks with
  | x :: r, true :: o => x :: keep r o
  | _ :: r, false :: o => keep r o
  | _, _ => []
  end.

Definition retry_verdict bs encs (flen fsum : N) (oks : list bool) wpanic o_ct o_blks_c o_end : N :=
  if wpanic || oend_crashed o_end then 4 else
  let penc := enc_lookup bs encs in
  let '(st, moks) := write_cont penc (mkW false []) bs in
  let file := w_out st in
  let accepted := keep bs oks in
  let o_blks := resolve accepted o_blks_c in
  let wr := (lenN file =? flen) && (wsum file =? fsum) && list_eqb Bool.eqb moks oks in
  let '(mh, mbl, mo) := read_file (model_dec_block bs encs) file in
  let rd := ostr_eqb (option_map h_ctype mh) o_ct && list_eqb blk_eqb mbl o_blks && oend_matches o_end mo &&
            resolved_ok accepted o_blks_c in
  let m := wr && rd in
  let inq := negb (match accepted with [] => true | _ => false end) && all_some (keep encs oks) in
  let p := negb inq || round_ok accepted o_blks o_end in
  (if m then 0 else 1) + (if p then 0 else 2).

(* ------------------------------------------------------------------ faults *)

Definition apply_fault (file : str) (f : fault) : str :=
  match f with
  | FTrunc n => firstn (N.to_nat n) file
  | FCorrupt p v => corrupt file (N.to_nat p) v
  end.

Fixpoint seqN (lo : N) (n : nat) : list N :=
  match n with O => [] | S k => lo :: seqN (lo + 1) k end.

Definition expand (file : str) (r : frange) : list fault :=
  match r with
  | TR lo hi => map FTrunc (seqN lo (N.to_nat (hi - lo)))
  | CV p lo hi =>
      let old := nth (N.to_nat p) file 256 in
      map (FCorrupt p) (filter (fun v => negb (v =? old)) (seqN lo (N.to_nat (hi + 1 - lo))))
  | CO plo phi mask =>
      map (fun p => FCorrupt p (N.lxor (nth (N.to_nat p) file 0) mask)) (seqN plo (N.to_nat (phi + 1 - plo)))
  end.

(* number of frames that end at or before offset p *)
Fixpoint frames_before (ms : list str) (off p : N) : N :=
  match ms with
  | [] => 0
  | m :: r => let e := off + 4 + lenN m in
              if e <=? p then 1 + frames_before r e p else 0
  end.

Fixpoint diff_count (a b : str) : option N :=
  match a, b with
  | [], [] => Some 0
  | x :: a', y :: b' =>
      match diff_count a' b' with
      | Some n => Some (if x =? y then n else n + 1)
      | None => None
      end
  | _, _ => None
  end.

(* the reference rule shared with the harness *)
Definition ref_other (ms : list str) (pos : N) (at_pos : option str) (g : str) : item :=
  match find_msg ms g 0 with
  | Some i => IRef i
  | None =>
      match at_pos with
      | Some m => match diff_count m g with Some 1 => IMod pos | _ => IAlt (lenN g) (wsum g) end
      | None => IAlt (lenN g) (wsum g)
      end
  end.
Definition ref_of (ms : list str) (pos : N) (g : str) : item :=
  match nthN ms pos with
  | Some m => if eqb_list m g then IRef pos else ref_other ms pos (Some m) g
  | None => ref_other ms pos None g
  end.
Fixpoint raw_items (ms : list str) (got : list str) (pos : N) : list item :=
  match got with
  | [] => []
  | g :: r => ref_of ms pos g :: raw_items ms r (pos + 1)
  end.

(* block-level observation must be consistent with the raw-level one: the blocks are the
   decodings of the first raw messages; identical bytes decode to the identical block; a decode
   failure stops with an error *)
Fixpoint blk_consistent (raw blk : list item) : bool :=
  match blk, raw with
  | [], _ => true
  | b :: br, r :: rr =>
      (match r with IRef i => item_eqb b (IRef i) | _ => true end) && blk_consistent rr br
  | _ :: _, [] => false
  end.

Definition oend_eqb (a b : oend) : bool :=
  match a, b with
  | EEof, EEof | EErr, EErr | EHdr, EHdr | EPanic, EPanic | EHang, EHang | EHuge, EHuge => true
  | _, _ => false
  end.

Definition octype_matches (ct : str) (f : str) (o : octype) (m : option header) : bool :=
  match o, m with
  | CNone, None => true
  | CSame, Some h => eqb_list (h_ctype h) ct
  | CSlice, Some h =>
      let sl := if nth 4 f 1 =? 0 then firstn 3 (skipn 5 f)
                else firstn (N.to_nat (be_val (firstn 2 (skipn 5 f)))) (skipn 7 f) in
      eqb_list (h_ctype h) sl && negb (eqb_list (h_ctype h) ct)
  | COther s, Some h => eqb_list (h_ctype h) s && negb (eqb_list s ct)
  | _, _ => false
  end.

Definition fault_verdict (ct : str) (ms : list str) (file : str) (nclean : N) (o : fobs) (flt : fault) : N :=
  let f := apply_fault file flt in
  let '(mh, mraw, mo) :=
    match fo_reads o with
    | None => read_file (fun m => Some m) f
    | Some n =>
        match read_header f with
        | None => (None, [], OHdr)
        | Some (h, s1) =>
            let '(l, e) := read_loop (fun m => Some m) (N.to_nat n) s1 in (Some h, l, e)
        end
    end in
  let m :=
    octype_matches ct f (fo_ctype o) mh &&
    list_eqb item_eqb (raw_items ms mraw 0) (fo_raw o) && oend_matches (fo_raw_end o) mo &&
    blk_consistent (fo_raw o) (fo_blk o) &&
    (if lenN (fo_blk o) <? lenN (fo_raw o) then oend_eqb (fo_blk_end o) EErr
     else oend_eqb (fo_blk_end o) (fo_raw_end o)) in
  (* the property, from the block-level observation alone *)
  let pre := is_prefix_refs (fo_blk o) 0 && (lenN (fo_blk o) <=? nclean) in
  let intact_upto :=
    match flt with
    | FTrunc n => frames_before ms (N.of_nat (header_len ct)) n
    | FCorrupt p _ => frames_before ms (N.of_nat (header_len ct)) p
    end in
  let intact := is_prefix_refs (firstn (N.to_nat intact_upto) (fo_blk o)) 0 &&
                (N.min intact_upto nclean <=? lenN (fo_blk o)) in
  let strict := match flt with FTrunc _ => pre && intact | FCorrupt _ _ => intact end in
  if negb strict then 5 else
  (if m then 0 else 1) + (if pre then 0 else 2).

Definition group_verdicts (ct : str) (ms : list str) (file : str) (nclean : N) (o : fobs) : list N :=
  if oend_crashed (fo_raw_end o) || oend_crashed (fo_blk_end o) then [4] else
  (if oend_eqb (fo_raw_end o) EHuge then [6] else []) ++
  map (fault_verdict ct ms file nclean o) (flat_map (expand file) (fo_faults o)).

(* code 6 (known finding C16-corrupt-length-prefix-huge-allocation): everything else is in order, but in some
   group the real reader was about to allocate the number of bytes a corrupted length prefix claims (above the
   harness's cap) for a file of a few hundred bytes: dbin's ReadMessage allocates before it reads *)
Fixpoint agg (cs : list N) (has4 has5 : bool) (bits : N) : N :=
  match cs with
  | [] => if has4 then 4 else if has5 then 5 else bits
  | c :: r =>
      if c =? 4 then agg r true has5 bits
      else if c =? 5 then agg r has4 true bits
      else if c =? 6 then agg r has4 has5 bits
      else agg r has4 has5 (N.lor bits c)
  end.
Definition agg6 (cs : list N) : N :=
  let v := agg cs false false 0 in
  if (v =? 0) && existsb (N.eqb 6) cs then 6 else v.

Definition faults_verdict ct ms (flen fsum : N) orig clean_c fs : N :=
  let file := file_bytes ct ms in
  let clean := resolve orig clean_c in
  let base :=
    (if (lenN file =? flen) && (wsum file =? fsum) && resolved_ok orig clean_c then 0 else 1) +
    (* the reference list itself: the clean read is the input (the property's round trip) *)
    (if round_ok orig clean (if existsb unsupported_legacy orig then EErr else EEof) then 0 else 2) in
  agg6 (base :: flat_map (group_verdicts ct ms file (lenN clean)) fs).

(* ------------------------------------------------------------------ names *)

Definition oparsed_eqb := opt_eqb parsed_eqb.

Definition name_ok_b (num : N) (id parent : str) (lib : N) (suffix : str) : bool :=
  (num <? two64) && (lib <? two64) && negb (memN dash (truncate_id id)) &&
  negb (memN dash (truncate_id parent)) && negb (memN dash suffix).

Definition name_verdict num id parent lib suffix o_name o_tid o_tparent o_parsed (panic : bool) : N :=
  if panic then 4 else
  let name := block_file_name num id parent lib suffix in
  let m := eqb_list o_name name && eqb_list o_tid (truncate_id id) &&
           eqb_list o_tparent (truncate_id parent) && oparsed_eqb o_parsed (parse_filename o_name) in
  (* the property, from the observation alone: number, LIB number, truncated ids parse back;
     "truncated" is checked structurally: at most 16 bytes and a suffix of the full id *)
  let trunc_ok (full t : str) :=
    has_suffix full t && (if (length full <=? 16)%nat then eqb_list t full else (length t =? 16)%nat) in
  let p := negb (name_ok_b num id parent lib suffix) ||
           (trunc_ok id o_tid && trunc_ok parent o_tparent &&
            match o_parsed with
            | Some q => (p_num q =? num) && (p_lib q =? lib) && eqb_list (p_id q) o_tid &&
                        eqb_list (p_prev q) o_tparent
            | None => false
            end) in
  (if m then 0 else 1) + (if p then 0 else 2).

Definition parse_verdict s o_parsed o_re (panic : bool) : N :=
  if panic then 4 else
  let m := oparsed_eqb o_parsed (parse_filename s) in
  let p := match o_parsed with
           | None => true
           | Some q =>
               (p_num q <? two64) && (p_lib q <? two64) &&
               match o_re with
               | Some q' => (p_num q' =? p_num q) && (p_lib q' =? p_lib q) &&
                            eqb_list (p_id q') (p_id q) && eqb_list (p_prev q') (p_prev q) &&
                            eqb_list (p_canon q') (p_canon q)
               | None => false
               end
           end in
  (if m then 0 else 1) + (if p then 0 else 2).

(* ------------------------------------------------------------------ fetch *)

Definition query_verdict (store : list (str * str)) (msgs : list str) (ids : list (N * str)) (damaged : bool) (q : query) : N :=
  match q_res q with
  | QPanic | QHang => 4
  | r =>
      let mres := fetch_one_block (fun m => Some m) store (q_num q) (q_id q) in
      let m :=
        match mres, r with
        | FNotFound, QNotFound => true
        | FErr, QErr => true
        | FNil, QNil => true
        | FBlock raw, QBlock it =>
            (match find_msg msgs raw 0 with
             | Some i => item_eqb it (IRef i)
             | None => match it with IRef _ => false | _ => true end
             end)
        | FBlock raw, QErr => (* the message does not decode as a block *)
            (match find_msg msgs raw 0 with Some _ => false | None => true end)
        | _, _ => false
        end in
      (* the property: that block (requested height, id matches) or not-found; an error or an
         empty result only when a stored file is damaged *)
      let p :=
        match r with
        | QNotFound => true
        | QBlock (IRef i) =>
            match nthN ids i with
            | Some (n, id) => (n =? q_num q) && has_suffix (q_id q) (truncate_id id)
            | None => false
            end
        | QBlock _ => false
        | QErr | QNil => damaged
        | QPanic | QHang => false
        end in
      (if m then 0 else 1) + (if p then 0 else 2)
  end.

Definition store_intact (store : list sfile) (msgs : list str) : bool :=
  forallb (fun f =>
    match read_file (fun m => Some m) (sf_data f) with
    | (Some _, [m], OEOF) => match find_msg msgs m 0 with Some _ => true | None => false end
    | _ => false
    end) store.

(* Y1 (W1 'fetch completeness'): second clause next to [query_verdict] (which Cxx_Audit2 speaks about and which
   accepts QNotFound unconditionally).  "Fetching by number and id from a one-block store returns that block or
   not-found" is read with its second half meaning what it says: NOT-FOUND ONLY WHEN THE BLOCK IS NOT THERE.  The
   answer not-found is rejected when some stored file is intact (header, exactly one message, that message is
   the clean message of a stored block, end of file), carries a block of exactly the requested number, and the
   16-byte truncation of that block's id is a suffix of the requested id.  Stated from the harness's own record
   of what it stored ([ids] runs parallel to [store]: entry i is the (number, id) of the block written into file
   i), not from the file names and not through the model's listing.  A stored block whose truncated id contains
   '-' is not counted: its name parses to other segments (the name_ok restriction of the property's name clause;
   the fetch generator draws hexadecimal ids only). *)
Definition sfile_intact (msgs : list str) (f : sfile) : bool :=
  match read_file (fun m => Some m) (sf_data f) with
  | (Some _, [m], OEOF) => match find_msg msgs m 0 with Some _ => true | None => false end
  | _ => false
  end.

Fixpoint stored_match (msgs : list str) (store : list sfile) (ids : list (N * str)) (num : N) (id : str) : bool :=
  match store, ids with
  | f :: sr, (n, bid) :: ir =>
      ((n =? num) && has_suffix id (truncate_id bid) && negb (memN dash (truncate_id bid)) && sfile_intact msgs f)
      || stored_match msgs sr ir num id
  | _, _ => false
  end.

Definition query_complete_y1 (store : list sfile) (msgs : list str) (ids : list (N * str)) (q : query) : bool :=
  match q_res q with
  | QNotFound => negb (stored_match msgs store ids (q_num q) (q_id q))
  | _ => true
  end.

Definition query_verdict_y1 (store : list sfile) msgs ids (damaged : bool) (q : query) : N :=
  let st := map (fun f => (sf_name f, sf_data f)) store in
  N.lor (query_verdict st msgs ids damaged q) (if query_complete_y1 store msgs ids q then 0 else 2).

Definition fetch_verdict (store : list sfile) msgs ids qs : N :=
  let damaged := negb (store_intact store msgs) in
  agg (map (query_verdict_y1 store msgs ids damaged) qs) false false 0.

Definition merged_query_verdict (nums : list N) (q : query) : N :=
  match q_res q with
  | QPanic | QHang => 4
  | QNotFound => if memN (q_num q) nums then 1 else 0   (* expected: a block of the bundle is found *)
  | QBlock (IRef i) =>
      match nthN nums i with
      | Some n => if n =? q_num q then 0 else 2   (* the property: a block of the requested height *)
      | None => 2
      end
  | _ => 2
  end.

(* Y1 (W1 'no Spec for the merged fetch'): second clause next to [merged_query_verdict] (which Cxx_Audit2 speaks about
   and which reports a stored block that is answered not-found as a MISMATCH, code 1, i.e. never with a concrete
   replay).  "Fetching by number from a merged-blocks store returns a block of the requested height or not-found",
   with not-found meaning what it says.  Given the bundle contents [nums] (the numbers of the blocks written into the
   one bundle file, position = clean block index), for EVERY queried number:
     complete  not-found is rejected when a block of the bundle has that number (also the first and the last one);
     exact     a found answer is clean block i (the harness reports IRef i only after proto.Equal with the stored
               block), i is the FIRST position holding that number, and the number is the requested one; a number
               that no block of the bundle has (a gap, a number beyond the last block, a number of another bundle)
               must be answered not-found;
     an error or an empty result is never acceptable on an undamaged bundle. *)
Fixpoint first_index (nums : list N) (n : N) (i : N) : option N :=
  match nums with
  | [] => None
  | x :: r => if x =? n then Some i else first_index r n (i + 1)
  end.

Definition merged_exact_y1 (nums : list N) (q : query) : bool :=
  match q_res q, first_index nums (q_num q) 0 with
  | QPanic, _ | QHang, _ => true           (* code 4 comes from merged_query_verdict *)
  | QNotFound, None => true
  | QNotFound, Some _ => false
  | QBlock (IRef i), Some j => i =? j
  | _, _ => false
  end.

Definition merged_query_verdict_y1 (nums : list N) (q : query) : N :=
  N.lor (merged_query_verdict nums q) (if merged_exact_y1 nums q then 0 else 2).

(* ------------------------------------------------------------------ verdicts *)

Definition c16_verdict (k : c16_case) : N :=
  match k with
  | CRound bs encs flen fsum wok wpanic o_ct o_blks o_end o_metas o_mend =>
      round_verdict bs encs flen fsum wok wpanic o_ct o_blks o_end o_metas o_mend
  | CRetry bs encs flen fsum oks wpanic o_ct o_blks o_end =>
      retry_verdict bs encs flen fsum oks wpanic o_ct o_blks o_end
  | CFault ct ms flen fsum orig clean fs => faults_verdict ct ms flen fsum orig clean fs
  | CName num id parent lib suffix o_name o_tid o_tparent o_parsed panic =>
      name_verdict num id parent lib suffix o_name o_tid o_tparent o_parsed panic
  | CParse s o_parsed o_re panic => parse_verdict s o_parsed o_re panic
  | CFetch store msgs ids qs => fetch_verdict store msgs ids qs
  | CMerged nums qs => agg (map (merged_query_verdict_y1 nums) qs) false false 0
  end.

Definition c16_verdicts (l : list c16_case) : list (N * N) := nonzero (map c16_verdict l).
